From Coq Require Import ZArith List Bool Lia Sorted.
Import ListNotations.
Open Scope Z_scope.

Section Merge.
Variable P Q : Type.

Definition elems (X : Type) := list (Z * X).

Fixpoint and_merge (a : elems P) : elems Q -> list (Z * (P * Q)) :=
  fix inner (b : elems Q) :=
  match a, b with
  | (ca, pa) :: a', (cb, pb) :: b' =>
      if Z.eqb ca cb then (ca, (pa, pb)) :: and_merge a' b'
      else if Z.ltb ca cb then and_merge a' b
      else inner b'
  | _, _ => []
  end.

Fixpoint lookup {X} (c : Z) (l : elems X) : option X :=
  match l with
  | [] => None
  | (c', p) :: l' => if Z.eqb c c' then Some p else lookup c l'
  end.

Definition ssorted {X} (l : elems X) := StronglySorted Z.lt (map fst l).

Lemma lookup_lt_hd {X} c (l : elems X) c0 p0 :
  ssorted ((c0,p0)::l) -> c < c0 -> lookup c ((c0,p0)::l) = None.
Proof.
  intros Hs Hlt. unfold ssorted in Hs. simpl in Hs.
  apply StronglySorted_inv in Hs. destruct Hs as [Hs Hall].
  simpl. destruct (Z.eqb_spec c c0); [lia|].
  induction l as [|[c1 p1] l IH]; simpl; auto.
  inversion Hall; subst. simpl in *.
  destruct (Z.eqb_spec c c1); [lia|].
  apply IH.
  - apply StronglySorted_inv in Hs. tauto.
  - assumption.
Qed.

(* spec: the result is exactly the filter of a by membership in b, paired with b's payload *)
Fixpoint and_spec (a : elems P) (b : elems Q) : list (Z * (P * Q)) :=
  match a with
  | [] => []
  | (c, p) :: a' =>
    match lookup c b with
    | Some q => (c, (p, q)) :: and_spec a' b
    | None => and_spec a' b
    end
  end.

Lemma ssorted_tl {X} x (l : elems X) : ssorted (x :: l) -> ssorted l.
Proof. unfold ssorted; simpl; intros H; apply StronglySorted_inv in H; tauto. Qed.

Lemma ssorted_hd_lt {X} c p (l : elems X) c' :
  ssorted ((c,p)::l) -> In c' (map fst l) -> c < c'.
Proof.
  unfold ssorted; simpl; intros H Hin. apply StronglySorted_inv in H.
  destruct H as [_ H]. rewrite Forall_forall in H. auto.
Qed.

Lemma lookup_In {X} c (l : elems X) q : lookup c l = Some q -> In c (map fst l).
Proof.
  induction l as [|[c' p'] l IH]; simpl; [discriminate|].
  destruct (Z.eqb_spec c c'); intros; [left; congruence | right; auto].
Qed.

Lemma and_spec_drop_b a cb pb b :
  ssorted ((cb,pb)::b) ->
  (forall c, In c (map fst a) -> cb < c) ->
  and_spec a ((cb,pb)::b) = and_spec a b.
Proof.
  intros Hsb Hall. induction a as [|[c p] a IH]; simpl; auto.
  assert (cb < c) by (apply Hall; simpl; auto).
  destruct (Z.eqb_spec c cb); [lia|].
  rewrite IH; auto. intros; apply Hall; simpl; auto.
Qed.

Lemma and_merge_nil_r a : and_merge a [] = [].
Proof. destruct a as [|[c p] a]; reflexivity. Qed.

Lemma and_spec_nil_r a : and_spec a [] = [].
Proof. induction a as [|[c p] a IH]; simpl; auto. Qed.

Lemma and_merge_cons ca pa a cb pb b :
  and_merge ((ca,pa)::a) ((cb,pb)::b) =
  if Z.eqb ca cb then (ca,(pa,pb)) :: and_merge a b
  else if Z.ltb ca cb then and_merge a ((cb,pb)::b)
  else and_merge ((ca,pa)::a) b.
Proof. reflexivity. Qed.

Theorem and_merge_correct : forall a b,
  ssorted a -> ssorted b -> and_merge a b = and_spec a b.
Proof.
  induction a as [|[ca pa] a IHa]; intros b Hsa Hsb.
  - destruct b; reflexivity.
  - induction b as [|[cb pb] b IHb].
    + rewrite and_merge_nil_r, and_spec_nil_r; reflexivity.
    + rewrite and_merge_cons. cbn [and_spec lookup].
      destruct (Z.eqb_spec ca cb) as [Heq|Hne].
      * subst cb. rewrite IHa by eauto using ssorted_tl.
        f_equal. symmetry. apply and_spec_drop_b; auto.
        intros c Hc. exact (ssorted_hd_lt _ _ _ _ Hsa Hc).
      * destruct (Z.ltb_spec ca cb).
        -- rewrite IHa by eauto using ssorted_tl.
           assert (lookup ca b = None) as ->.
           { destruct (lookup ca b) eqn:E; auto. apply lookup_In in E.
             pose proof (ssorted_hd_lt _ _ _ _ Hsb E). lia. }
           reflexivity.
        -- rewrite IHb by eauto using ssorted_tl.
           cbn [and_spec].
           rewrite (and_spec_drop_b a cb pb b); auto.
           intros c Hc. pose proof (ssorted_hd_lt _ _ _ _ Hsa Hc). lia.
Qed.
End Merge.
Print Assumptions and_merge_correct.
