From Coq Require Import ZArith List Bool Lia Sorted.
Import ListNotations.
Open Scope Z_scope.

Definition elems := list (Z * Z).
Fixpoint lookup (c : Z) (l : elems) : option Z :=
  match l with [] => None | (c', p) :: l' => if Z.eqb c c' then Some p else lookup c l' end.
Definition get (l : elems) (c : Z) : Z := match lookup c l with Some p => p | None => 0 end.
Definition ssorted (l : elems) := StronglySorted Z.lt (map fst l).

Fixpoint and_spec (a b : elems) : list (Z * (Z * Z)) :=
  match a with
  | [] => []
  | (c, p) :: a' => match lookup c b with
                    | Some q => (c, (p, q)) :: and_spec a' b
                    | None => and_spec a' b end
  end.

Definition dot_and (a b : elems) : Z :=
  fold_right (fun cpq acc => fst (snd cpq) * snd (snd cpq) + acc) 0 (and_spec a b).

(* range sum  Σ_{i<n} f (lo+i) *)
Fixpoint rsum (lo : Z) (n : nat) (f : Z -> Z) : Z :=
  match n with O => 0 | S n' => f lo + rsum (lo + 1) n' f end.
Definition dense (lo : Z) (n : nat) (a b : elems) : Z := rsum lo n (fun x => get a x * get b x).

Definition support_sum (a : elems) (g : Z -> Z) : Z :=
  fold_right (fun cp acc => snd cp * g (fst cp) + acc) 0 a.

Lemma dot_and_support a b : dot_and a b = support_sum a (get b).
Proof.
  unfold dot_and, support_sum. induction a as [|[c p] a IH]; simpl; auto.
  unfold get at 1. destruct (lookup c b) as [q|]; simpl; rewrite IH; lia.
Qed.

Lemma rsum_ext lo n f g : (forall x, lo <= x < lo + Z.of_nat n -> f x = g x) -> rsum lo n f = rsum lo n g.
Proof.
  revert lo; induction n as [|n IH]; intros lo H; simpl; auto.
  rewrite (H lo) by lia. f_equal. apply IH. intros; apply H; lia.
Qed.

Lemma rsum_zero lo n : rsum lo n (fun _ => 0) = 0.
Proof. revert lo; induction n; intros; simpl; auto. Qed.

Lemma rsum_split lo k n f : rsum lo (k + n) f = rsum lo k f + rsum (lo + Z.of_nat k) n f.
Proof.
  revert lo; induction k as [|k IH]; intros lo; simpl.
  - now rewrite Z.add_0_r.
  - rewrite IH. replace (lo + 1 + Z.of_nat k) with (lo + Z.pos (Pos.of_succ_nat k)) by lia. lia.
Qed.

Lemma ssorted_inv c p a : ssorted ((c,p)::a) -> ssorted a /\ (forall c', In c' (map fst a) -> c < c').
Proof.
  unfold ssorted; simpl; intros H. apply StronglySorted_inv in H. destruct H as [H1 H2].
  split; auto. rewrite Forall_forall in H2. auto.
Qed.

Lemma get_zero_if_all_gt a x : (forall c, In c (map fst a) -> x < c) -> get a x = 0.
Proof.
  intros H. unfold get. induction a as [|[c p] a IH]; simpl; auto.
  destruct (Z.eqb_spec x c) as [->|_].
  - specialize (H c (or_introl eq_refl)). lia.
  - apply IH. intros; apply H; right; auto.
Qed.
Lemma get_cons_ne c p a x : x <> c -> get ((c,p)::a) x = get a x.
Proof. intros H. unfold get; simpl. destruct (Z.eqb_spec x c); congruence. Qed.
Lemma get_cons_eq c p a : get ((c,p)::a) c = p.
Proof. unfold get; simpl. now rewrite Z.eqb_refl. Qed.

Theorem rsum_support : forall a lo n g,
  ssorted a -> (forall c, In c (map fst a) -> lo <= c < lo + Z.of_nat n) ->
  rsum lo n (fun x => get a x * g x) = support_sum a g.
Proof.
  induction a as [|[c p] a IH]; intros lo n g Hs Hr.
  - simpl. apply rsum_zero.
  - destruct (ssorted_inv _ _ _ Hs) as [Hs' Hgt].
    pose proof (Hr c (or_introl eq_refl)) as Hc.
    (* split [lo, lo+n) into [lo, c) , {c} , (c, lo+n) *)
    set (k := Z.to_nat (c - lo)).
    assert (Hn : exists m, n = (k + S m)%nat) by (exists (n - k - 1)%nat; subst k; lia).
    destruct Hn as [m Hn]. rewrite Hn in *. clear Hn n.
    rewrite rsum_split. cbn [rsum support_sum fold_right fst snd].
    replace (lo + Z.of_nat k) with c by (subst k; lia).
    rewrite get_cons_eq.
    (* below c everything is zero *)
    rewrite (rsum_ext lo k _ (fun _ => 0)).
    2:{ intros x Hx. assert (Hxc : x < c) by (subst k; lia).
        rewrite get_zero_if_all_gt; [lia|].
        simpl. intros c' [Heq|Hc']; [lia|]. specialize (Hgt c' Hc'). lia. }
    rewrite rsum_zero.
    (* above c the head is invisible *)
    rewrite (rsum_ext (c + 1) _ _ (fun x => get a x * g x)).
    2:{ intros x Hx. rewrite get_cons_ne by lia. reflexivity. }
    rewrite (IH (c + 1) m g Hs').
    + unfold support_sum. lia.
    + intros c' Hc'. specialize (Hgt c' Hc'). specialize (Hr c' (or_intror Hc')). subst k; lia.
Qed.

Corollary dot_and_dense a b lo n :
  ssorted a -> (forall c, In c (map fst a) -> lo <= c < lo + Z.of_nat n) ->
  dot_and a b = dense lo n a b.
Proof.
  intros Hs Hr. rewrite dot_and_support. unfold dense. symmetry. apply rsum_support; assumption.
Qed.
Print Assumptions dot_and_dense.
