From Coq Require Import ZArith List Bool Lia Arith PeanoNat.
Import ListNotations.

(* ---------- minimal store: fibers only (boxes irrelevant for Mirror) ---------- *)
Inductive pref := PBox (b : nat) | PFib (f : nat).
Record fobj := { fo_pays : list pref; fo_owner : option nat }.
Record heap := { fib_of : nat -> option fobj; ranks : list (list nat); next : nat }.

Definition upd {A} (m : nat -> option A) (k : nat) (v : A) : nat -> option A :=
  fun x => if Nat.eqb x k then Some v else m x.

Lemma upd_same {A} (m : nat -> option A) k v : upd m k v k = Some v.
Proof. unfold upd. now rewrite Nat.eqb_refl. Qed.
Lemma upd_other {A} (m : nat -> option A) k v x : x <> k -> upd m k v x = m x.
Proof. unfold upd. intros H. destruct (Nat.eqb_spec x k); congruence. Qed.

Definition child (h : heap) (g f : nat) : Prop :=
  exists o, fib_of h g = Some o /\ In (PFib f) (fo_pays o).

Fixpoint at_depth (h : heap) (root : nat) (i : nat) (f : nat) : Prop :=
  match i with
  | O => f = root
  | S j => exists g, at_depth h root j g /\ child h g f
  end.

(* closed: every allocated id < next; every referenced fiber id is allocated *)
Definition closed (h : heap) : Prop :=
  (forall f o, fib_of h f = Some o -> f < next h) /\
  (forall g f, child h g f -> exists o, fib_of h f = Some o).

Definition Mirror (h : heap) (root : nat) : Prop :=
  forall i, exists l, nth_error (ranks h) i = Some l /\ NoDup l /\
     (forall f, In f l <-> at_depth h root i f) \/
     (nth_error (ranks h) i = None /\ forall f, ~ at_depth h root i f).

(* A simpler, list-indexed formulation used below *)
Definition MirrorL (h : heap) (root : nat) : Prop :=
  forall i l, nth_error (ranks h) i = Some l ->
     NoDup l /\ (forall f, In f l <-> at_depth h root i f).

Fixpoint app_at {A} (i : nat) (x : A) (ls : list (list A)) : list (list A) :=
  match i, ls with
  | _, [] => []
  | O, l :: ls' => (l ++ [x]) :: ls'
  | S j, l :: ls' => l :: app_at j x ls'
  end.

Lemma nth_app_at_same {A} i (x : A) ls l :
  nth_error ls i = Some l -> nth_error (app_at i x ls) i = Some (l ++ [x]).
Proof.
  revert ls; induction i as [|i IH]; intros [|l0 ls] H; simpl in *; try discriminate.
  - inversion H; reflexivity.
  - apply IH; assumption.
Qed.
Lemma nth_app_at_other {A} i j (x : A) ls :
  i <> j -> nth_error (app_at i x ls) j = nth_error ls j.
Proof.
  revert j ls; induction i as [|i IH]; intros [|j] [|l0 ls] H; simpl in *; auto; try lia.
Qed.

(* insert a fresh, empty sub-fiber as a new child of g (which sits at depth d), append to rank d+1 *)
Definition insert_child (h : heap) (g : nat) (d : nat) (pos : nat) : heap :=
  match fib_of h g with
  | None => h
  | Some o =>
    let f' := next h in
    let o' := {| fo_pays := firstn pos (fo_pays o) ++ PFib f' :: skipn pos (fo_pays o);
                 fo_owner := fo_owner o |} in
    {| fib_of := upd (upd (fib_of h) g o') f' {| fo_pays := []; fo_owner := Some (S d) |};
       ranks := app_at (S d) f' (ranks h);
       next := S (next h) |}
  end.

Lemma In_insert_mid {A} (x y : A) pos l :
  In y (firstn pos l ++ x :: skipn pos l) <-> y = x \/ In y l.
Proof.
  rewrite in_app_iff. simpl.
  assert (In y l <-> In y (firstn pos l) \/ In y (skipn pos l)) as ->
    by (rewrite <- in_app_iff, firstn_skipn; tauto).
  intuition congruence.
Qed.

Lemma child_insert h g d pos o :
  closed h -> fib_of h g = Some o ->
  forall a b, child (insert_child h g d pos) a b <->
              (child h a b \/ (a = g /\ b = next h)).
Proof.
  intros [Hlt Hcl] Hg a b. unfold insert_child. rewrite Hg. unfold child; simpl.
  assert (Hgn : g <> next h) by (apply Hlt in Hg; lia).
  split.
  - intros [o1 [Ho1 Hin]].
    destruct (Nat.eq_dec a (next h)) as [->|Han].
    + rewrite upd_same in Ho1. inversion Ho1; subst; simpl in Hin; contradiction.
    + rewrite upd_other in Ho1 by auto.
      destruct (Nat.eq_dec a g) as [->|Hag].
      * rewrite upd_same in Ho1. inversion Ho1; subst; simpl in Hin.
        apply In_insert_mid in Hin. destruct Hin as [Heq|Hin].
        -- right. inversion Heq; auto.
        -- left. eauto.
      * rewrite upd_other in Ho1 by auto. left; eauto.
  - intros [[o1 [Ho1 Hin]] | [-> ->]].
    + assert (a <> next h) by (apply Hlt in Ho1; lia).
      destruct (Nat.eq_dec a g) as [->|Hag].
      * rewrite Hg in Ho1; inversion Ho1; subst o1.
        eexists. rewrite upd_other, upd_same by auto. split; [reflexivity|].
        simpl. apply In_insert_mid; auto.
      * exists o1. rewrite upd_other, upd_other by auto. auto.
    + eexists. rewrite upd_other, upd_same by auto. split; [reflexivity|].
      simpl. apply In_insert_mid; auto.
Qed.

Lemma at_depth_lt h root i f : closed h -> (exists o, fib_of h root = Some o) -> at_depth h root i f -> f < next h.
Proof.
  intros [Hlt Hcl] [o Ho]. revert f; induction i as [|i IH]; simpl; intros f H.
  - subst. eauto.
  - destruct H as [g [_ Hc]]. destruct (Hcl _ _ Hc) as [o' Ho']. eauto.
Qed.

Lemma at_depth_insert h root g d pos o :
  closed h -> (exists r, fib_of h root = Some r) -> fib_of h g = Some o -> at_depth h root d g ->
  (forall i x, at_depth h root i x -> at_depth h root d g -> x = g -> i = d) ->
  forall i f, at_depth (insert_child h g d pos) root i f <->
              (at_depth h root i f \/ (i = S d /\ f = next h)).
Proof.
  intros Hc Hr Hg Hgd Huniq i. induction i as [|i IH]; intros f; simpl.
  - split; [auto|]. intros [H|[H _]]; [auto|discriminate].
  - split.
    + intros [x [Hx Hch]]. apply IH in Hx. eapply child_insert in Hch; eauto.
      destruct Hx as [Hx|[-> ->]].
      * destruct Hch as [Hch|[-> ->]].
        -- left; eauto.
        -- right. split; auto. f_equal. eapply Huniq; eauto.
      * (* x = next h : it has no children in old heap, and is not g *)
        destruct Hch as [Hch|[Heq _]].
        -- exfalso. destruct Hch as [o1 [Ho1 _]]. destruct Hc as [Hlt _]. apply Hlt in Ho1. lia.
        -- exfalso. destruct Hc as [Hlt _]. apply Hlt in Hg. lia.
    + intros [[x [Hx Hch]]|[Heq ->]].
      * exists x. split; [apply IH; auto|]. eapply child_insert; eauto.
      * inversion Heq; subst i. exists g. split; [apply IH; auto|].
        eapply child_insert; eauto.
Qed.
Print Assumptions at_depth_insert.
