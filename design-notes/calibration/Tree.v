From Coq Require Import ZArith List Bool Lia Sorted.
Import ListNotations.
Open Scope Z_scope.

Inductive tree := Leaf (v : Z) | Node (es : list (Z * tree)).

Section TreeInd.
  Variable P : tree -> Prop.
  Hypothesis HLeaf : forall v, P (Leaf v).
  Hypothesis HNode : forall es, Forall (fun ct => P (snd ct)) es -> P (Node es).
  Fixpoint tree_ind' (t : tree) : P t :=
    match t with
    | Leaf v => HLeaf v
    | Node es => HNode es
        ((fix go (l : list (Z * tree)) : Forall (fun ct => P (snd ct)) l :=
            match l with
            | [] => Forall_nil _
            | ct :: l' => Forall_cons ct (tree_ind' (snd ct)) (go l')
            end) es)
    end.
End TreeInd.

(* emptiness as in Payload.isEmpty / Fiber.isEmpty with leaf default 0 *)
Fixpoint is_empty (t : tree) : bool :=
  match t with
  | Leaf v => Z.eqb v 0
  | Node es => forallb (fun ct => is_empty (snd ct)) es
  end.

(* content: list of (point, value) for non-default leaves, in stored order *)
Fixpoint content (t : tree) : list (list Z * Z) :=
  match t with
  | Leaf v => if Z.eqb v 0 then [] else [([], v)]
  | Node es => flat_map (fun ct => map (fun pv => (fst ct :: fst pv, snd pv)) (content (snd ct))) es
  end.

Lemma is_empty_content t : is_empty t = true <-> content t = [].
Proof.
  induction t as [v|es IH] using tree_ind'; simpl.
  - destruct (Z.eqb v 0); split; congruence.
  - induction es as [|[c t] es IHes]; simpl; [tauto|].
    inversion IH as [|? ? Ht Hes]; subst. simpl in Ht.
    rewrite andb_true_iff, Ht, (IHes Hes).
    split.
    + intros [-> ->]. reflexivity.
    + intros H. apply app_eq_nil in H. destruct H as [H1 H2].
      split; auto. destruct (content t); [reflexivity|discriminate].
Qed.

(* present: what iterOccupancy offers *)
Definition present (es : list (Z * tree)) := filter (fun ct => negb (is_empty (snd ct))) es.

(* __eq__ : union co-iteration; any one-sided coordinate => False; on AB compare recursively.
   Written as a two-finger walk over the *present* lists, structurally on depth fuel-free by
   nesting the recursion on the first tree. *)
Fixpoint tree_eq (a : tree) : tree -> bool :=
  match a with
  | Leaf va => fun b => match b with Leaf vb => Z.eqb va vb | Node _ => false end
  | Node ea => fun b =>
      match b with
      | Leaf _ => false
      | Node eb =>
        (fix walk (la : list (Z * tree)) : list (Z * tree) -> bool :=
           match la with
           | [] => fun lb => match present lb with [] => true | _ => false end
           | (ca, ta) :: la' =>
             if is_empty ta then walk la' else
             fix inner (lb : list (Z * tree)) : bool :=
               match lb with
               | [] => false
               | (cb, tb) :: lb' =>
                 if is_empty tb then inner lb' else
                 if Z.eqb ca cb then tree_eq ta tb && walk la' lb'
                 else false     (* one-sided coordinate: mask "A" or "B" *)
               end
           end) ea eb
      end
  end.

Eval vm_compute in tree_eq (Node [(1, Leaf 0); (2, Leaf 3)]) (Node [(2, Leaf 3)]).
Eval vm_compute in tree_eq (Node [(1, Node []); (2, Node [(0, Leaf 3)])]) (Node [(2, Node [(0, Leaf 3); (4, Leaf 0)])]).
Eval vm_compute in tree_eq (Node [(1, Leaf 1)]) (Node [(2, Leaf 1)]).

(* ---------- well-formedness ---------- *)
Fixpoint depth_ok (d : nat) (t : tree) : Prop :=
  match t, d with
  | Leaf _, O => True
  | Node es, S d' => (fix all (l : list (Z * tree)) : Prop :=
                        match l with [] => True | ct :: l' => depth_ok d' (snd ct) /\ all l' end) es
  | _, _ => False
  end.

Fixpoint sorted_t (t : tree) : Prop :=
  match t with
  | Leaf _ => True
  | Node es => StronglySorted Z.lt (map fst es) /\
               (fix all (l : list (Z * tree)) : Prop :=
                  match l with [] => True | ct :: l' => sorted_t (snd ct) /\ all l' end) es
  end.

Definition heads_gt (c : Z) (l : list (list Z * Z)) : Prop :=
  Forall (fun pv => match fst pv with [] => False | h :: _ => c < h end) l.

Definition node_content (es : list (Z * tree)) :=
  flat_map (fun ct => map (fun pv => (fst ct :: fst pv, snd pv)) (content (snd ct))) es.

Lemma node_content_heads c es :
  Forall (fun x => c < x) (map fst es) -> heads_gt c (node_content es).
Proof.
  induction es as [|[c' t] es IH]; simpl; intros H; [constructor|].
  inversion H; subst. unfold heads_gt. apply Forall_app. split.
  - apply Forall_forall. intros pv Hin. apply in_map_iff in Hin. destruct Hin as [x [<- _]]. simpl. assumption.
  - apply IH; assumption.
Qed.

Lemma map_cons_inj c (X Y : list (list Z * Z)) :
  map (fun pv => (c :: fst pv, snd pv)) X = map (fun pv => (c :: fst pv, snd pv)) Y -> X = Y.
Proof.
  revert Y; induction X as [|[p v] X IH]; intros [|[q w] Y] H; simpl in *; try discriminate; auto.
  inversion H; subst. f_equal. auto.
Qed.

Lemma split_by_head c X Y R1 R2 :
  heads_gt c R1 -> heads_gt c R2 ->
  map (fun pv => (c :: fst pv, snd pv)) X ++ R1 = map (fun pv => (c :: fst pv, snd pv)) Y ++ R2 ->
  X = Y /\ R1 = R2.
Proof.
  intros H1 H2. revert Y. induction X as [|[p v] X IH]; intros Y H; simpl in *.
  - destruct Y as [|[q w] Y]; simpl in *; [auto|].
    subst R1. inversion H1 as [|? ? Hh _]; subst. simpl in Hh. lia.
  - destruct Y as [|[q w] Y]; simpl in *.
    + subst R2. inversion H2 as [|? ? Hh _]; subst. simpl in Hh. lia.
    + inversion H; subst. destruct (IH Y) as [-> ->]; auto.
Qed.

Lemma node_content_cons c t es :
  node_content ((c,t)::es) = map (fun pv => (c :: fst pv, snd pv)) (content t) ++ node_content es.
Proof. reflexivity. Qed.

Lemma present_nil_content es : present es = [] <-> node_content es = [].
Proof.
  induction es as [|[c t] es IH]; simpl; [tauto|].
  unfold present in *. simpl.
  destruct (is_empty t) eqn:E; simpl.
  - apply is_empty_content in E. rewrite E. simpl. exact IH.
  - split; [discriminate|]. intros H. apply app_eq_nil in H. destruct H as [H _].
    assert (content t = []) as Hc by (destruct (content t); [reflexivity|discriminate]).
    apply is_empty_content in Hc. congruence.
Qed.

Definition walk (tree_eq : tree -> tree -> bool) :=
  fix walk (la : list (Z * tree)) : list (Z * tree) -> bool :=
    match la with
    | [] => fun lb => match present lb with [] => true | _ => false end
    | (ca, ta) :: la' =>
      if is_empty ta then walk la' else
      fix inner (lb : list (Z * tree)) : bool :=
        match lb with
        | [] => false
        | (cb, tb) :: lb' =>
          if is_empty tb then inner lb' else
          if Z.eqb ca cb then tree_eq ta tb && walk la' lb' else false
        end
    end.

Lemma tree_eq_node ea eb : tree_eq (Node ea) (Node eb) = walk tree_eq ea eb.
Proof. reflexivity. Qed.

Lemma content_nonempty_head c t R :
  is_empty t = false ->
  exists p v rest, map (fun pv => (c :: fst pv, snd pv)) (content t) ++ R = (c :: p, v) :: rest.
Proof.
  intros E. destruct (content t) as [|[p v] l] eqn:Hc.
  - apply is_empty_content in Hc. congruence.
  - simpl. eauto.
Qed.

Theorem tree_eq_content : forall d a b,
  depth_ok d a -> depth_ok d b -> sorted_t a -> sorted_t b ->
  (tree_eq a b = true <-> content a = content b).
Proof.
  induction d as [|d IHd]; intros a b Da Db Sa Sb.
  - destruct a as [va|]; [|contradiction]. destruct b as [vb|]; [|contradiction]. simpl.
    destruct (Z.eqb_spec va vb) as [->|Hne]; [tauto|].
    split; [discriminate|].
    destruct (Z.eqb_spec va 0), (Z.eqb_spec vb 0); intros H; inversion H; congruence.
  - destruct a as [|ea]; [contradiction|]. destruct b as [|eb]; [contradiction|].
    rewrite tree_eq_node. change (content (Node ea)) with (node_content ea).
    change (content (Node eb)) with (node_content eb).
    simpl in Da, Db. destruct Sa as [Sa Sa']. destruct Sb as [Sb Sb'].
    revert eb Db Sb Sb'.
    induction ea as [|[ca ta] ea IHa]; intros eb Db Sb Sb'.
    + simpl. destruct (present eb) eqn:E.
      * apply present_nil_content in E. rewrite E. tauto.
      * split; [discriminate|]. intros H. symmetry in H. apply present_nil_content in H. congruence.
    + destruct Da as [Dta Da]. destruct Sa' as [Sta Sa'].
      apply StronglySorted_inv in Sa. destruct Sa as [Sa Hgt]. simpl in Sa, Hgt.
      cbn [walk]. rewrite node_content_cons. destruct (is_empty ta) eqn:Ea.
      * apply is_empty_content in Ea. rewrite Ea. simpl.
        apply IHa; auto.
      * induction eb as [|[cb tb] eb IHb].
        -- split; [discriminate|]. intros H.
           destruct (content_nonempty_head ca ta (node_content ea) Ea) as [p [v [rest Hh]]].
           rewrite Hh in H. discriminate.
        -- destruct Db as [Dtb Db]. destruct Sb' as [Stb Sb'].
           apply StronglySorted_inv in Sb. destruct Sb as [Sb Hgtb]. simpl in Sb, Hgtb.
           rewrite node_content_cons.
           destruct (is_empty tb) eqn:Eb.
           ++ assert (content tb = []) as -> by (apply is_empty_content; assumption). simpl.
              apply IHb; auto.
           ++ destruct (Z.eqb_spec ca cb) as [->|Hne].
              ** rewrite andb_true_iff. rewrite (IHd ta tb Dta Dtb Sta Stb).
                 rewrite (IHa Da Sa Sa' eb Db Sb Sb').
                 split.
                 --- intros [-> ->]. reflexivity.
                 --- intros H.
                     pose proof (node_content_heads cb ea Hgt) as G1.
                     pose proof (node_content_heads cb eb Hgtb) as G2.
                     destruct (split_by_head _ _ _ _ _ G1 G2 H) as [H1 H2]. split; assumption.
              ** split; [discriminate|]. intros H.
                 destruct (content_nonempty_head ca ta (node_content ea) Ea) as [p [v [r1 H1]]].
                 destruct (content_nonempty_head cb tb (node_content eb) Eb) as [q [w [r2 H2]]].
                 rewrite H1, H2 in H. inversion H. congruence.
Qed.
Print Assumptions tree_eq_content.
