From Coq Require Import ZArith List Bool Lia Sorted.
Import ListNotations.
Open Scope Z_scope.

(* bisect_left on a sorted list: number of elements strictly below c *)
Fixpoint bisect_left (l : list Z) (c : Z) : nat :=
  match l with
  | [] => 0%nat
  | x :: l' => if Z.ltb x c then S (bisect_left l' c) else 0%nat
  end.

Fixpoint insert_at {X} (n : nat) (x : X) (l : list X) : list X :=
  match n, l with
  | O, _ => x :: l
  | S n', [] => [x]
  | S n', y :: l' => y :: insert_at n' x l'
  end.

Definition ssorted (l : list Z) := StronglySorted Z.lt l.

Lemma Forall_insert_at {X} (P : X -> Prop) n x l : P x -> Forall P l -> Forall P (insert_at n x l).
Proof.
  revert l; induction n as [|n IH]; intros l Hx Hl; simpl.
  - constructor; auto.
  - destruct l as [|y l]; [constructor; auto|]. inversion Hl; subst. constructor; auto.
Qed.

Theorem insert_bisect_sorted l c :
  ssorted l -> ~ In c l -> ssorted (insert_at (bisect_left l c) c l).
Proof.
  induction l as [|x l IH]; intros Hs Hni; simpl.
  - repeat constructor.
  - apply StronglySorted_inv in Hs. destruct Hs as [Hs Hall].
    destruct (Z.ltb_spec x c).
    + simpl. constructor.
      * apply IH; auto. intro; apply Hni; right; auto.
      * apply Forall_insert_at; auto.
    + simpl. constructor.
      * constructor; auto.
      * constructor. { assert (x <> c) by (intro; apply Hni; left; auto). lia. }
        eapply Forall_impl; [|exact Hall]. simpl; intros; lia.
Qed.

Lemma bisect_found l c : ssorted l -> In c l -> nth_error l (bisect_left l c) = Some c.
Proof.
  induction l as [|x l IH]; intros Hs Hin; [inversion Hin|].
  apply StronglySorted_inv in Hs. destruct Hs as [Hs Hall]. simpl.
  destruct (Z.ltb_spec x c).
  - simpl. apply IH; auto. destruct Hin; [lia|auto].
  - simpl. destruct Hin as [->|Hin]; auto.
    rewrite Forall_forall in Hall. specialize (Hall _ Hin). lia.
Qed.
Print Assumptions insert_bisect_sorted.
