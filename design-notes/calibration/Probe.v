From Coq Require Import ZArith List Bool Lia.
Import ListNotations.
Open Scope Z_scope.

Inductive tree :=
| Leaf (v : Z)
| Node (es : list (Z * tree)).

(* nested fixpoint over list *)
Fixpoint count (t : tree) : nat :=
  match t with
  | Leaf v => if Z.eqb v 0 then 0%nat else 1%nat
  | Node es => (fix go (l : list (Z * tree)) : nat :=
                 match l with
                 | [] => 0%nat
                 | (_, t') :: l' => (count t' + go l')%nat
                 end) es
  end.

Fixpoint and_merge (fuel : nat) (a b : list (Z * Z)) : list (Z * (Z * Z)) :=
  match fuel with
  | O => []
  | S f =>
    match a, b with
    | (ca, pa) :: a', (cb, pb) :: b' =>
      if Z.eqb ca cb then (ca, (pa, pb)) :: and_merge f a' b'
      else if Z.ltb ca cb then and_merge f a' b
      else and_merge f a b'
    | _, _ => []
    end
  end.

Fixpoint and_merge2 (a : list (Z*Z)) : list (Z*Z) -> list (Z * (Z*Z)) :=
  fix inner (b : list (Z*Z)) :=
  match a, b with
  | (ca, pa) :: a', (cb, pb) :: b' =>
      if Z.eqb ca cb then (ca, (pa, pb)) :: and_merge2 a' b'
      else if Z.ltb ca cb then and_merge2 a' b
      else inner b'
  | _, _ => []
  end.

Eval vm_compute in and_merge2 [(1,10);(3,30);(5,50)] [(3,7);(4,8);(5,9)].
Require Import ExtrOcamlBasic.
Extraction "probe.ml" count and_merge2.
