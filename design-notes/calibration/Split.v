From Coq Require Import ZArith List Bool Lia ZifyBool.
Open Scope Z_scope.

Lemma div_le_iff a b k : 0 < b -> (a / b <= k <-> a < (k + 1) * b).
Proof.
  intros Hb. pose proof (Z.div_mod a b ltac:(lia)). pose proof (Z.mod_pos_bound a b Hb).
  split; intros; nia.
Qed.
Lemma le_div_iff a b k : 0 < b -> (k <= a / b <-> k * b <= a).
Proof.
  intros Hb. pose proof (Z.div_mod a b ltac:(lia)). pose proof (Z.mod_pos_bound a b Hb).
  split; intros; nia.
Qed.

Lemma part_range c step pre post k :
  0 < step -> 0 <= pre -> 0 <= post ->
  let s := k * step in
  let first := (c - post) / step * step in
  let last := (c + pre) / step * step in
  (s - pre <= c < s + step + post) <-> (first <= s <= last).
Proof.
  intros Hs Hpre Hpost s first last. subst s first last.
  pose proof (div_le_iff (c - post) step k Hs) as A.
  pose proof (le_div_iff (c + pre) step k Hs) as B.
  split; intros H.
  - split.
    + assert ((c - post) / step <= k) by (apply A; nia). nia.
    + assert (k <= (c + pre) / step) by (apply B; nia). nia.
  - destruct H as [H1 H2].
    assert ((c - post) / step <= k) as H3 by nia.
    assert (k <= (c + pre) / step) as H4 by nia.
    apply A in H3. apply B in H4. nia.
Qed.
Print Assumptions part_range.
