open Probe
let rec z_of_int n = if n = 0 then Z0 else if n > 0 then Zpos (pos_of_int n) else Zneg (pos_of_int (-n))
and pos_of_int n = if n = 1 then XH else if n land 1 = 0 then XO (pos_of_int (n lsr 1)) else XI (pos_of_int (n lsr 1))
let rec int_of_pos = function XH -> 1 | XO p -> 2 * int_of_pos p | XI p -> 2 * int_of_pos p + 1
let int_of_z = function Z0 -> 0 | Zpos p -> int_of_pos p | Zneg p -> - int_of_pos p
let () =
  let n = Scanf.scanf " %d" (fun x -> x) in
  for _ = 1 to n do
    let la = Scanf.scanf " %d" (fun x -> x) in
    let a = List.init la (fun _ -> Scanf.scanf " %d %d" (fun c p -> (z_of_int c, z_of_int p))) in
    let lb = Scanf.scanf " %d" (fun x -> x) in
    let b = List.init lb (fun _ -> Scanf.scanf " %d %d" (fun c p -> (z_of_int c, z_of_int p))) in
    let r = and_merge2 a b in
    print_string (String.concat " " (List.map (fun (c,(p,q)) -> Printf.sprintf "%d:%d:%d" (int_of_z c) (int_of_z p) (int_of_z q)) r));
    print_newline ()
  done
