import warnings; warnings.simplefilter("ignore")
import random, copy
from fibertree import Fiber, Tensor, Payload
R = random.Random(6)
bad={}
def report(k,m): bad.setdefault(k,[]).append(m)
def rtree(depth, n=4):
    cs=[];ps=[]
    for c in range(n):
        r=R.random()
        if r<0.35: continue
        if depth==1:
            cs.append(c); ps.append(0 if r<0.5 else R.randint(1,3))
        else:
            if r<0.45: cs.append(c); ps.append(Fiber([],[]))
            else: cs.append(c); ps.append(rtree(depth-1,n))
    return Fiber(cs,ps)
def content(f,pre=()):
    out={}
    for c,p in zip(f.coords,f.payloads):
        if isinstance(p,Fiber): out.update(content(p,pre+(c,)))
        elif p.value!=0: out[pre+(c,)]=p.value
    return out
def snap(f): return (list(f.coords),[snap(p) if isinstance(p,Fiber) else p.value for p in f.payloads])
for it in range(3000):
    d=R.randint(1,3); a=rtree(d); b=rtree(d) if R.random()<0.6 else copy.deepcopy(a)
    if R.random()<0.3 and d>=1:
        # perturb b with explicit zeros
        try: b.getPayloadRef(*[R.randint(0,3) for _ in range(d)])
        except Exception as e: report("ref-exc",repr(e))
    sa,sb=snap(a),snap(b)
    try:
        e1=(a==b); e2=(b==a)
    except Exception as e: report("eq-exc",(sa,sb,repr(e))); continue
    exp=(content(a)==content(b))
    if e1!=exp or e2!=exp: report("eq",(sa,sb,e1,e2,exp))
    if snap(a)!=sa or snap(b)!=sb: report("eq-mutates",(sa,sb))
    if a.isEmpty()!=(content(a)=={}): report("isEmpty",(sa,))
    if a.countValues()!=len(content(a)): report("count",(sa,a.countValues(),len(content(a))))
    ne=a.nonEmpty()
    if content(ne)!=content(a): report("nonEmpty",(sa,snap(ne)))
    def canon(f):
        for c,p in zip(f.coords,f.payloads):
            if isinstance(p,Fiber):
                if len(p.coords)==0 or not canon(p): return False
            elif p.value==0: return False
        return True
    if not canon(ne): report("nonEmpty-canon",(sa,snap(ne)))
    # C04 on top-level
    pa=[c for c,p in zip(a.coords,a.payloads) if not Payload.isEmpty(p)]; pb=[c for c,p in zip(b.coords,b.payloads) if not Payload.isEmpty(p)]
    try:
        if [c for c,_ in a&b]!=sorted(set(pa)&set(pb)): report("and",(sa,sb))
        got=[(c,p.value[0]) for c,p in a|b]; exp=[(c,("A" if c in pa else "")+("B" if c in pb else "")) for c in sorted(set(pa)|set(pb))]
        if got!=exp: report("or",(sa,sb,got,exp))
        if [c for c,_ in a^b]!=sorted(set(pa)^set(pb)): report("xor",(sa,sb))
        if [c for c,_ in a-b]!=sorted(set(pa)-set(pb)): report("sub",(sa,sb))
    except Exception as e: report("merge-exc",(sa,sb,repr(e)))
# C13 roundtrip
def rnest(shape,pz):
    if len(shape)==1: return [0 if R.random()<pz else R.choice([1,2,2.5,-1]) for _ in range(shape[0])]
    return [rnest(shape[1:],pz) for _ in range(shape[0])]
for it in range(1500):
    D=R.randint(1,4); shape=[R.randint(1,3) for _ in range(D)]; nest=rnest(shape,R.choice([0.3,0.7,1.0]))
    try:
        t=Tensor.fromUncompressed(["A","B","C","D"][:D], nest)
        if t.getShape()!=shape: report("fromU-shape",(nest,t.getShape()))
        back=t.getRoot().uncompress()
        if back!=nest: report("roundtrip",(nest,back))
    except Exception as e: report("roundtrip-exc",(nest,repr(e)))
for k,v in bad.items(): print(k,len(v),v[0])
print("done")
