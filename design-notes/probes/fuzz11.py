import warnings; warnings.simplefilter("ignore")
import random, copy, itertools, os, io, contextlib, csv
from fibertree import Fiber, Tensor, Payload, Metrics
os.chdir("/root/scratch")
R = random.Random(11)
bad={}
def report(k,m): bad.setdefault(k,[]).append(m)
def rn(shape,pz=0.5):
    if len(shape)==1: return [0 if R.random()<pz else R.randint(1,5) for _ in range(shape[0])]
    return [rn(shape[1:],pz) for _ in range(shape[0])]
def content(f,pre=()):
    out={}
    for c,p in zip(f.coords,f.payloads):
        if isinstance(p,Fiber): out.update(content(p,pre+(c,)))
        elif p.value!=0: out[pre+(c,)]=p.value
    return out
def snap(f): return (list(f.coords),[snap(p) if isinstance(p,Fiber) else p.value for p in f.payloads])
def mirror_ok(t):
    lv=[[t.getRoot()]]
    for i in range(1,len(t.ranks)): lv.append([p for f in lv[-1] for p in f.payloads if isinstance(p,Fiber)])
    return all(sorted(map(id,r.getFibers()))==sorted(map(id,l)) for r,l in zip(t.ranks,lv))
def present(f): return [c for c,p in zip(f.coords,f.payloads) if not Payload.isEmpty(p)]
# ---- C05 populate with random bodies, destination pre-populated incl explicit zeros/empty subfibers
for it in range(2500):
    D=R.randint(1,3); n=4
    Z=Tensor.fromUncompressed(["M","K","N"][:D], rn([n]*D,R.choice([0.4,0.8,1.0])))
    for _ in range(R.randint(0,3)): Z.getPayloadRef(*[R.randint(0,n-1) for _ in range(R.randint(1,D))])
    A=Tensor.fromUncompressed(["M","K","N"][:D], rn([n]*D,R.choice([0.3,0.6,1.0])))
    for _ in range(R.randint(0,2)): A.getPayloadRef(*[R.randint(0,n-1) for _ in range(R.randint(1,D))])
    spec=content(Z.getRoot()); asnap=snap(A.getRoot()); z0=snap(Z.getRoot())
    offered=[]
    def pop(z,a,d,pre):
        seen=[]
        for c,(zr,ar) in z<<a:
            seen.append(c)
            if d==1:
                cur=spec.get(pre+(c,),0)
                if zr.value!=cur: report("ref-current",(pre+(c,),zr.value,cur))
                ch=R.random()
                if ch<0.35: zr+=ar; nv=cur+ar.value
                elif ch<0.5: zr<<=0; nv=0
                elif ch<0.65: zr<<=R.randint(1,3); nv=zr.value
                else: nv=cur
                if nv==0: spec.pop(pre+(c,),None)
                else: spec[pre+(c,)]=nv
                offered.append(pre+(c,))
            else:
                if R.random()<0.8: pop(zr,ar,d-1,pre+(c,))
        if seen!=present(a): report("offers",(seen,present(a)))
    try: pop(Z.getRoot(),A.getRoot(),D,())
    except Exception as e: report("populate-exc",(z0,asnap,repr(e))); continue
    if content(Z.getRoot())!=spec: report("result",(z0,asnap,content(Z.getRoot()),spec))
    if snap(A.getRoot())!=asnap: report("source-mutated",(asnap,))
    if not mirror_ok(Z): report("mirror",(z0,asnap))
    # residue: offered leaf points absent before and zero after must be absent
    def has(f,p):
        for c in p[:-1]:
            if c not in f.coords: return False
            f=f.payloads[f.coords.index(c)]
        return p[-1] in f.coords
    for p in offered:
        if p not in spec and has(Z.getRoot(),p): report("residue",(z0,asnap,p,snap(Z.getRoot())))
# ---- C16: trace stamps sorted for kernels
def read(fn):
    with open(fn) as f: rows=list(csv.reader(f))
    return rows[0], [list(map(int,r)) for r in rows[1:]]
for it in range(150):
    M,K,N=[R.randint(1,4) for _ in range(3)]
    A=Tensor.fromUncompressed(["M","K"],rn([M,K],0.5)); B=Tensor.fromUncompressed(["K","N"],rn([K,N],0.5)); Z=Tensor(rank_ids=["M","N"],shape=[M,N])
    snapA=snap(A.getRoot()); snapB=snap(B.getRoot())
    for th in (2,3,1000):
        Z=Tensor(rank_ids=["M","N"],shape=[M,N])
        pref="tmp/f11_%d"%th
        for fn in os.listdir("tmp"):
            if fn.startswith("f11_%d-"%th): os.remove("tmp/"+fn)
        Metrics.beginCollect(pref); Metrics.setNumCachedUses(th)
        types=[("M","iter"),("K","iter"),("N","iter"),("K","intersect_0"),("K","intersect_1"),("N","populate_read_0"),("N","populate_write_0"),("N","populate_1"),("M","populate_1"),("M","populate_write_0"),("M","populate_read_0")]
        for r,ty in types: Metrics.trace(r,ty)
        try:
            for m,(z_n,a_k) in Z.getRoot() << A.getRoot():
                for k,(a_val,b_n) in a_k & B.getRoot():
                    for n,(z_ref,b_val) in z_n << b_n:
                        z_ref += a_val*b_val
        except Exception as e:
            report("c16-exc",(repr(e),)); Metrics.endCollect(); continue
        Metrics.endCollect()
        for r,ty in types:
            fn="%s-%s-%s.csv"%(pref,r,ty)
            if not os.path.exists(fn): continue
            if os.path.getsize(fn)==0:
                report('empty-trace-file:'+ty,(fn,snapA,snapB,th)); continue
            hdr,rows=read(fn); nr=(len(hdr)-1)//2
            stamps=[tuple(x[:nr]) for x in rows]
            if any(a>b for a,b in zip(stamps,stamps[1:])): report("unsorted:"+ty,(fn,stamps[:8]))
            if ty=="iter" and any(a>=b for a,b in zip(stamps,stamps[1:])): report("iter-not-strict",(fn,))
    Metrics.setNumCachedUses(1000)
    for r,ty in types:
        fs=["tmp/f11_%d-%s-%s.csv"%(th,r,ty) for th in (2,3,1000)]
        if all(os.path.exists(f) for f in fs):
            cs=[open(f).read() for f in fs]
            if not (cs[0]==cs[1]==cs[2]): report("flush-dependent",(r,ty))
for k,v in sorted(bad.items()): print(k,len(v),str(v[0])[:400])
print("done")
