import warnings; warnings.simplefilter("ignore")
from fibertree import Fiber, Tensor, Payload
a = Fiber([1,2,4,6],[1,0,4,6]); b = Fiber([2,4,5,6],[2,4,5,6]); c = Fiber([4,6,7],[40,60,70])
print("and", [(k, p) for k,p in a & b])
print("or", [(k, p) for k,p in a | b])
print("xor", [(k, p) for k,p in a ^ b])
print("sub", [(k, p) for k,p in a - b])
print("int3", [(k, p) for k,p in Fiber.intersection(a,b,c)])
print("uni3", [(k, p) for k,p in Fiber.union(a,b,c)])
print("lf", [(k, p) for k,p in Fiber.intersection(a,b,c, style="leader-follower")])
x = a & b
print("repeat", [k for k,_ in x], [k for k,_ in x], x.getActive(), x.getRankAttrs().getId(), x.getDefault())
e = Fiber([],[])
print("empty", list(a & e), list(e & a), list(a | e), list(e ^ e))
# tuple arity
t2 = Fiber([(1,2),(1,5),(2,3)],[12,15,23]); t1 = Fiber([1,3],[100,300])
print("t1&t2", [(k,p) for k,p in t1 & t2]); print("t2&t1", [(k,p) for k,p in t2 & t1])
for nm,fn in [("e&t2",lambda: list(e & t2)),("t2&e",lambda: list(t2 & e))]:
    try: print(nm, fn())
    except Exception as ex: print(nm,"ERR", type(ex).__name__, ex)
# identity
r = [(k,p) for k,p in a & b]; print(r[0][1].value[0] is a.payloads[2], r[0][1].value[1] is b.payloads[1])
# interior payloads
A = Fiber([0,1,2],[Fiber([1],[1]), Fiber([],[]), Fiber([0],[0])]); B = Fiber([0,1,2],[Fiber([1],[1]), Fiber([2],[2]), Fiber([0],[5])])
print("interior and", [k for k,_ in A & B], "or", [(k,p.value[0]) for k,p in A | B])
