import warnings; warnings.simplefilter("ignore")
import io, contextlib
from fibertree import Fiber, Tensor, Payload, Codec
# C12 U-format eq
A = Tensor.fromUncompressed(["K"], [1,0,3,0]); B = Tensor.fromUncompressed(["K"], [1,0,3,0]); A.setFormat("K","U")
print("U==C", A == B, B == A, A == A)
# C20 bitvector with imposed shape
t = Tensor.fromUncompressed(["M","K"], [[1,0,2],[0,0,0],[0,3,0]])
for desc in ["BB","BU","BC","UB","CB"]:
    codec = Codec(tuple(desc), [True]*2)
    out = codec.get_output_dict(t.getRankIds()); ot=[[],[],[]]
    try:
        with contextlib.redirect_stdout(io.StringIO()):
            codec.encode(-1, t.getRoot(), t.getRankIds(), out, ot, shape=[4,5])
        print(desc, out)
    except BaseException as e: print(desc, "ERR", type(e).__name__, e)
