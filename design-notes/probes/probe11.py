import warnings; warnings.simplefilter("ignore")
from fibertree import Fiber, Tensor, Payload, Metrics
# shapes: estimated vs authoritative
t = Tensor(rank_ids=["M","K"])            # no shape
print(t.getShape(), t.getShape(authoritative=True))
t.getPayloadRef(2,5); print(t.getShape(), t.getShape(authoritative=True), t.getRoot().getActive(), t.getRoot().payloads[0].getActive())
t.getPayloadRef(4,1); print(t.getShape(), [r.getAttrs().getShape() for r in t.ranks])
u = Tensor.fromFiber(["M","K"], Fiber([0,3],[Fiber([1],[1]),Fiber([7],[1])])); print(u.getShape(), u.getShape(authoritative=True), [r.getAttrs().getEstimatedShape() for r in u.ranks])
v = Tensor.fromUncompressed(["M","K"], [[1,0],[0,2]]); print(v.getShape(authoritative=True)); v.getPayloadRef(5,9); print(v.getShape(), v.getShape(authoritative=True))
# saved pos semantic
f = Fiber([1,3,5,7],[1,1,1,1])
for c,sp in [(5,0),(5,1),(4,1),(9,2),(0,0)]:
    p = f.getPayload(c, start_pos=sp); print("getPayload",c,sp,"->",p, "saved",f.getSavedPos())
print(f.getPosition(5, start_pos=1), f.getSavedPos(), f.getPosition(4, start_pos=1), f.getSavedPos())
# union of 3 with nested fibers & default
a = Fiber([1],[Fiber([2],[3])]); b = Fiber([2],[Fiber([2],[4])])
for c,p in a|b: print(c, p.value[0], p.value[1], p.value[2], type(p.value[2]).__name__)
