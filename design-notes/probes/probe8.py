import warnings; warnings.simplefilter("ignore")
from fibertree import Fiber, Tensor, Payload
t = Tensor.fromUncompressed(["M","K"], [[1,0,2.5],[0,0,0],[0,3,0]], name="A")
t.dump("/root/scratch/tmp/t.yaml"); print(open("/root/scratch/tmp/t.yaml").read())
u = Tensor.fromYAMLfile("/root/scratch/tmp/t.yaml"); print(u == t, u.getName(), u.getShape(), u.getRankIds())
v = Tensor("/root/scratch/tmp/t.yaml"); print(v == t, repr(v.getName()), v.getShape())
z = Tensor.fromUncompressed([], 5, name="S"); z.dump("/root/scratch/tmp/z.yaml"); print(open("/root/scratch/tmp/z.yaml").read())
try:
    w = Tensor.fromYAMLfile("/root/scratch/tmp/z.yaml"); print(w.getRoot(), w.getName(), w.getShape(), w==z)
except Exception as e: print("ERR rank0", type(e).__name__, e)
f = t.flattenRanks(); f.dump("/root/scratch/tmp/f.yaml"); print(open("/root/scratch/tmp/f.yaml").read()[:300])
try:
    g = Tensor.fromYAMLfile("/root/scratch/tmp/f.yaml"); print(g == f, g.getRankIds(), g.getShape(), g.getRoot().coords)
except BaseException as e: print("ERR flat", type(e).__name__, e)
# fiber
fb = t.getRoot(); fb.dump("/root/scratch/tmp/fb.yaml"); h = Fiber.fromYAMLfile("/root/scratch/tmp/fb.yaml"); print(h == fb)
# random
a = Tensor.fromRandom(["M","K"], [3,4], [1.0,1.0], seed=3); b = Tensor.fromRandom(["M","K"], [3,4], [1.0,1.0], seed=3); print(a==b, a.countValues())
