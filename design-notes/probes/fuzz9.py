import warnings; warnings.simplefilter("ignore")
import random, copy, itertools, os
from fibertree import Fiber, Tensor, Payload, Metrics
os.chdir("/root/scratch")
R = random.Random(9)
bad={}
def report(k,m): bad.setdefault(k,[]).append(m)
def rn(shape,pz=0.5):
    if len(shape)==1: return [0 if R.random()<pz else R.randint(1,5) for _ in range(shape[0])]
    return [rn(shape[1:],pz) for _ in range(shape[0])]
def content(f,pre=()):
    out={}
    for c,p in zip(f.coords,f.payloads):
        if isinstance(p,Fiber): out.update(content(p,pre+(c,)))
        elif p.value!=0: out[pre+(c,)]=p.value
    return out
def canon(f):
    for c,p in zip(f.coords,f.payloads):
        if isinstance(p,Fiber):
            if len(p.coords)==0 or not canon(p): return False
        elif p.value==0: return False
    return True
def mirror_ok(t):
    lv=[[t.getRoot()]]
    for i in range(1,len(t.ranks)): lv.append([p for f in lv[-1] for p in f.payloads if isinstance(p,Fiber)])
    return all(sorted(map(id,r.getFibers()))==sorted(map(id,l)) for r,l in zip(t.ranks,lv))
# matmul Z[m,n] = sum_k A[m,k] B[k,n], all 6 loop orders
def kernel(order, A, B, M,K,N, collect=None):
    ra={"m":"M","k":"K","n":"N"}
    a=A.swizzleRanks([ra[v] for v in order if v in "mk"]); b=B.swizzleRanks([ra[v] for v in order if v in "kn"])
    Z=Tensor(rank_ids=[ra[v] for v in order if v in "mn"], shape=[{"m":M,"n":N}[v] for v in order if v in "mn"])
    def rec(i, za, aa, bb):
        if i==3:
            za += aa*bb; return
        v=order[i]
        if v=="m":
            for m,(z2,a2) in za << aa: rec(i+1,z2,a2,bb)
        elif v=="n":
            for n,(z2,b2) in za << bb: rec(i+1,z2,aa,b2)
        else:
            for k,(a2,b2) in aa & bb: rec(i+1,za,a2,b2)
    rec(0,Z.getRoot(),a.getRoot(),b.getRoot())
    return Z
for it in range(300):
    M,K,N=[R.randint(1,4) for _ in range(3)]
    an=rn([M,K],R.choice([0.3,0.7,1.0])); bn=rn([K,N],R.choice([0.3,0.7]))
    A=Tensor.fromUncompressed(["M","K"],an); B=Tensor.fromUncompressed(["K","N"],bn)
    dense={(m,n):sum(an[m][k]*bn[k][n] for k in range(K)) for m in range(M) for n in range(N)}
    dense={p:v for p,v in dense.items() if v!=0}
    for order in itertools.permutations("mkn"):
        try:
            Z=kernel(order,A,B,M,K,N)
        except Exception as e: report("kernel-exc",(order,an,bn,repr(e))); continue
        zc=content(Z.getRoot())
        if order.index("m")>order.index("n"): zc={(p[1],p[0]):v for p,v in zc.items()}
        if zc!=dense: report("kernel",(order,an,bn,zc,dense))
        if not canon(Z.getRoot()): report("kernel-residue",(order,an,bn,str(Z)))
        if not mirror_ok(Z): report("kernel-mirror",(order,an,bn))
        # metrics transparency + counts
        Metrics.beginCollect("tmp/f9")
        for r in "MKN": Metrics.trace(r)
        try:
            Z2=kernel(order,A,B,M,K,N)
        except Exception as e:
            report("kernel-metrics-exc",(order,an,bn,repr(e))); Metrics.endCollect(); continue
        Metrics.endCollect(); d=Metrics.dump()
        if not (Z2==Z) or content(Z2.getRoot())!=content(Z.getRoot()): report("transparent",(order,an,bn))
        muls=sum(1 for m in range(M) for k in range(K) for n in range(N) if an[m][k]!=0 and bn[k][n]!=0)
        got=d.get("Compute",{}).get("payload_mul",0)
        if got!=muls: report("mulcount",(order,an,bn,got,muls))
        if d.get("Compute",{}).get("payload_update",0)!=muls: report("updcount",(order,an,bn,d,muls))
for k,v in sorted(bad.items()): print(k,len(v),str(v[0])[:400])
print("done")
