import warnings; warnings.simplefilter("ignore")
import random, io, contextlib, math
from fibertree import Fiber, Tensor, Payload, Metrics, Codec
from fibertree.model import *
R = random.Random(2)
bad={}
def report(k,m): bad.setdefault(k,[]).append(m)
def rcoords(n=8,p=0.5): return [c for c in range(n) if R.random()<p]
# ---- C19 two-finger / skip-ahead / leader-follower through real traces, per-fiber and one-shot
def merge_steps(a,b):
    i=j=n=0
    while i<len(a) and j<len(b):
        n+=1
        if a[i]==b[j]: i+=1;j+=1
        elif a[i]<b[j]: i+=1
        else: j+=1
    return n
def skip_runs(a,b):
    i=j=n=0; cur=None
    while i<len(a) and j<len(b):
        if a[i]==b[j]: n+=1;cur=None;i+=1;j+=1
        elif a[i]<b[j]:
            if cur!=0: cur=0;n+=1
            i+=1
        else:
            if cur!=1: cur=1;n+=1
            j+=1
    return n
for it in range(1500):
    k=R.randint(1,4)
    pairs=[(rcoords(),rcoords()) for _ in range(k)]
    for oneshot in (False,True):
        tf=TwoFingerIntersector(); sa=SkipAheadIntersector(); lf=LeaderFollowerIntersector()
        Metrics.beginCollect()
        Metrics.trace("K","intersect_0",consumable=True); Metrics.trace("K","intersect_1",consumable=True)
        Metrics.registerRank("J")
        try:
            for jx,(a,b) in enumerate(pairs):
                Metrics.addUse("J", jx, jx)
                fa=Fiber(a,[1]*len(a)); fa.getRankAttrs().setId("K"); fb=Fiber(b,[1]*len(b)); fb.getRankAttrs().setId("K")
                for _ in fa & fb: pass
                if not oneshot:
                    t0=Metrics.consumeTrace("K","intersect_0"); t1=Metrics.consumeTrace("K","intersect_1")
                    tf.addTraces(t0,t1); sa.addTraces(t0,t1); lf.addTraces(t0)
                Metrics.incIter("J")
            if oneshot:
                t0=Metrics.consumeTrace("K","intersect_0"); t1=Metrics.consumeTrace("K","intersect_1")
                tf.addTraces(t0,t1); sa.addTraces(t0,t1); lf.addTraces(t0)
        except Exception as e:
            report("c19-exc",(pairs,oneshot,repr(e)))
            Metrics.traces={}; Metrics.endCollect(); continue
        Metrics.endCollect()
        exp=sum(merge_steps(a,b) for a,b in pairs); exps=sum(skip_runs(a,b) for a,b in pairs)
        if tf.getNumIntersects()!=exp: report("twofinger",(pairs,oneshot,tf.getNumIntersects(),exp))
        if sa.getNumIntersects()!=exps: report("skipahead",(pairs,oneshot,sa.getNumIntersects(),exps))
for k,v in bad.items(): print(k,len(v),v[0])
print("done c19")
for k,v in bad.items():
    print(k, "per-fiber mismatches:", sum(1 for m in v if m[1] is False), "one-shot:", sum(1 for m in v if m[1] is True))
    pf=[m for m in v if m[1] is False]
    if pf: print("  e.g.", pf[0])
