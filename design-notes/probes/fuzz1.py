import warnings; warnings.simplefilter("ignore")
import random, itertools, traceback
from fibertree import Fiber, Tensor, Payload
R = random.Random(1)
def rfiber(n=8, pz=0.2):
    cs=[]; ps=[]
    for c in range(n):
        r=R.random()
        if r<0.45: continue
        cs.append(c); ps.append(0 if r<0.45+pz else R.randint(1,9))
    return Fiber(cs, ps, shape=n)
bad = {}
def report(k, msg):
    bad.setdefault(k, []).append(msg)
# ---- C08 splitUniform with halos
for it in range(3000):
    n=R.randint(1,9); f=rfiber(n); step=R.randint(1,n+1); pre=R.randint(0,3); post=R.randint(0,3); rel=R.random()<0.3
    try:
        s=f.splitUniform(step, pre_halo=pre, post_halo=post, relativeCoords=rel)
    except Exception as e:
        report("uniform-exc", (f.coords,[p.value for p in f.payloads],step,pre,post,repr(e))); continue
    elems=[(c,p.value) for c,p in zip(f.coords,f.payloads) if p.value!=0]
    exp={}
    for part in range(0, n+step, step):
        if part>=n: break
        mem=[(c - (part if rel else 0),v) for c,v in elems if part-pre<=c<part+step+post]
        if mem: exp[part]=mem
    got={c:[(cc,pp.value) for cc,pp in zip(p.coords,p.payloads)] for c,p in zip(s.coords,s.payloads)}
    if got!=exp: report("uniform", (f.coords,[p.value for p in f.payloads],step,pre,post,rel,got,exp))
    for c,p in zip(s.coords,s.payloads):
        if p.getActive()!=(max(c,0),min(c+step,n)): report("uniform-active",(f.coords,step,c,p.getActive()))
# ---- C08 splitNonUniform with halos
for it in range(3000):
    n=R.randint(1,9); f=rfiber(n); k=R.randint(0,4); splits=sorted(R.sample(range(0,n+1),min(k,n+1))); pre=R.randint(0,2); post=R.randint(0,2)
    try:
        s=f.splitNonUniform(splits, pre_halo=pre, post_halo=post)
    except Exception as e:
        report("nonuniform-exc", (f.coords,[p.value for p in f.payloads],splits,pre,post,repr(e))); continue
    elems=[(c,p.value) for c,p in zip(f.coords,f.payloads) if p.value!=0]
    exp={}
    bs=splits+[float('inf')]
    for i,sp in enumerate(splits):
        lo,hi=sp,bs[i+1]
        if hi<=0 or lo>=n: continue
        mem=[(c,v) for c,v in elems if lo-pre<=c<hi+post]
        if mem: exp[sp]=mem
    got={c:[(cc,pp.value) for cc,pp in zip(p.coords,p.payloads)] for c,p in zip(s.coords,s.payloads)}
    if got!=exp: report("nonuniform", (f.coords,[p.value for p in f.payloads],splits,pre,post,got,exp))
# ---- C08 splitEqual / splitUnEqual (no halos)
for it in range(3000):
    n=R.randint(1,9); f=rfiber(n); step=R.randint(1,5)
    try: s=f.splitEqual(step)
    except Exception as e: report("equal-exc",(f.coords,[p.value for p in f.payloads],step,repr(e))); continue
    elems=[(c,p.value) for c,p in zip(f.coords,f.payloads) if p.value!=0]
    chunks=[elems[i:i+step] for i in range(0,len(elems),step)]
    got=[[(cc,pp.value) for cc,pp in zip(p.coords,p.payloads)] for p in s.payloads]
    if got!=chunks: report("equal",(f.coords,[p.value for p in f.payloads],step,got,chunks))
    ub=[0]+[ch[0][0] for ch in chunks[1:]] if chunks else []
    if list(s.coords)!=ub: report("equal-upper",(f.coords,[p.value for p in f.payloads],step,s.coords,ub))
    sizes=[R.randint(1,3) for _ in range(R.randint(1,3))]
    try: s=f.splitUnEqual(sizes)
    except Exception as e: report("unequal-exc",(f.coords,[p.value for p in f.payloads],sizes,repr(e))); continue
    ch=[]; i=0
    for sz in sizes:
        if i>=len(elems): break
        ch.append(elems[i:i+sz]); i+=sz
    if i<len(elems): ch.append(elems[i:])
    got=[[(cc,pp.value) for cc,pp in zip(p.coords,p.payloads)] for p in s.payloads]
    if got!=ch: report("unequal",(f.coords,[p.value for p in f.payloads],sizes,got,ch))
for k,v in bad.items(): print(k, len(v), v[0])
print("done")
