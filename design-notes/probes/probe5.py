import warnings; warnings.simplefilter("ignore")
import os, itertools
from fibertree import Fiber, Tensor, Payload, Metrics
from fibertree.model import *
os.chdir("/root/scratch")
A = Tensor(rank_ids=["M","K"], shape=[4,8])
fmt = Format(A, {"K": {"format":"C","cbits":32,"pbits":32}, "M": {"format":"U","pbits":32}})
def write_trace(fn, rows):
    with open(fn,"w") as f:
        f.write("M_pos,K_pos,M,K,fiber_pos\n")
        for r in rows: f.write(",".join(map(str,r))+"\n")
# accesses: (m_pos,k_pos,m,k,pos)
rows = [(0,0,0,1,0),(0,1,0,5,1),(1,0,1,1,0),(1,1,1,5,1),(1,2,1,6,2)]
# note point includes M coordinate: obj = (m, line(pos))
write_trace("tmp/t_read.csv", rows)
for evict in ["root","M","K"]:
  for cap in [0, 32, 64, 1000]:
    b = [{"tensor":"A","rank":"K","type":"payload","evict-on":evict}]
    print("buffet", evict, cap, Traffic.buffetTraffic(b, {"A":fmt}, {("A","K","payload","read"):"tmp/t_read.csv"}, cap, 32))
for cap in [0,32,64,96,1000]:
    b = [{"tensor":"A","rank":"K","type":"payload"}]
    print("cache", cap, Traffic.cacheTraffic(b, {"A":fmt}, {("A","K","payload","read"):"tmp/t_read.csv"}, cap, 32))
# tensor without M rank -> point masks out M
B = Tensor(rank_ids=["K"], shape=[8]); fb = Format(B, {"K":{"pbits":32}})
for cap in [0,32,64,96,1000]:
    b = [{"tensor":"B","rank":"K","type":"payload"}]
    print("cacheB", cap, Traffic.cacheTraffic(b, {"B":fb}, {("B","K","payload","read"):"tmp/t_read.csv"}, cap, 32))
print(sorted(os.listdir("tmp"))[-6:])
