import warnings; warnings.simplefilter("ignore")
from fibertree import Fiber, Tensor, Payload
def T():
    t = Tensor.fromUncompressed(["M","K","N"], [[[1,0],[0,2]],[[0,0],[0,0]],[[3,4],[0,0]]])
    # add explicit zeros and empty subfibers through normal mutation
    t.getPayloadRef(1,0,1)          # creates path with default leaf
    t.getPayloadRef(0,0,1)          # explicit zero leaf
    t.getPayloadRef(2,1)            # empty subfiber
    return t
t = T(); print(t)
def content(t):
    out = {}
    def rec(f, pre):
        for c,p in zip(f.coords, f.payloads):
            if isinstance(p, Fiber): rec(p, pre+(c,))
            elif p.value != 0: out[pre+(c,)] = p.value
    rec(t.getRoot(), ()); return out
print(content(t))
for name, fn in [
  ("swizzle KMN", lambda t: t.swizzleRanks(["K","M","N"])),
  ("swizzle NKM", lambda t: t.swizzleRanks(["N","K","M"])),
  ("swap0", lambda t: t.swapRanks()),
  ("swap1", lambda t: t.swapRanks(depth=1)),
  ("flatten0", lambda t: t.flattenRanks()),
  ("flatten1", lambda t: t.flattenRanks(depth=1)),
  ("flatten0x2", lambda t: t.flattenRanks(levels=2)),
  ("flat-unflat", lambda t: t.flattenRanks().unflattenRanks()),
  ("flat1-unflat1", lambda t: t.flattenRanks(depth=1).unflattenRanks(depth=1)),
  ("flatx2-unflatx2", lambda t: t.flattenRanks(levels=2).unflattenRanks(levels=2)),
  ("split-flatabs", lambda t: t.splitUniform(1, depth=1).flattenRanks(depth=1, coord_style="absolute")),
  ("merge rel", lambda t: t.mergeRanks(depth=0, coord_style="relative")),
  ("split eq d2", lambda t: t.splitEqual(1, depth=2)),
]:
    try:
        r = fn(T()); print(name, r.getRankIds(), r.getShape(), content(r), [len(x.getFibers()) for x in r.ranks])
    except BaseException as e:
        import traceback; print(name, "ERR", type(e).__name__, e)
e = Tensor(rank_ids=["M","K"], shape=[2,2])
for name, fn in [("e swizzle", lambda t: t.swizzleRanks(["K","M"])), ("e swap", lambda t: t.swapRanks()), ("e flatten", lambda t: t.flattenRanks()), ("e split", lambda t: t.splitUniform(2)), ("e flat-unflat", lambda t: t.flattenRanks().unflattenRanks())]:
    try: r = fn(e); print(name, r.getRankIds(), r.getShape(), r.getRoot())
    except BaseException as ex: print(name, "ERR", type(ex).__name__, ex)
