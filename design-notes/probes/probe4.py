import warnings; warnings.simplefilter("ignore")
import os
from fibertree import Fiber, Tensor, Payload, Metrics
from fibertree.model import *
os.chdir("/root/scratch")
A = Tensor.fromUncompressed(["M","K"], [[1,0,2,3],[0,0,0,0],[0,3,0,1]])
B = Tensor.fromUncompressed(["K","N"], [[1,1,0],[0,2,0],[0,0,0],[5,0,6]])
Z = Tensor(rank_ids=["M","N"], shape=[3,3])
Metrics.beginCollect("tmp/p4")
for r,t in [("M","iter"),("K","iter"),("N","iter"),("K","intersect_0"),("K","intersect_1"),("N","populate_read_0"),("N","populate_write_0"),("N","populate_1"),("M","populate_read_0"),("M","populate_write_0"),("M","populate_1")]:
    Metrics.trace(r, type_=t)
for m,(z_n,a_k) in Z.getRoot() << A.getRoot():
    for k,(a_val,b_n) in a_k & B.getRoot():
        for n,(z_ref,b_val) in z_n << b_n:
            z_ref += a_val*b_val
Metrics.endCollect()
print(Z); print(Metrics.dump())
for fn in sorted(os.listdir("tmp")):
    if fn.startswith("p4"):
        print("==", fn); print(open("tmp/"+fn).read())
