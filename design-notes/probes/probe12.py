import warnings; warnings.simplefilter("ignore")
from fibertree import Fiber, Tensor, Payload, Metrics
A = Tensor.fromUncompressed(["M","K"], [[1,0],[0,0],[0,2]]); B = Tensor.fromUncompressed(["M","K"], [[0,0],[3,0],[0,4]])
print([len(r.getFibers()) for r in A.ranks], [len(r.getFibers()) for r in B.ranks])
for c,p in A.getRoot() | B.getRoot(): pass
print("after |", [len(r.getFibers()) for r in A.ranks], [len(r.getFibers()) for r in B.ranks])
print(A == B)
print("after ==", [len(r.getFibers()) for r in A.ranks], [len(r.getFibers()) for r in B.ranks])
for c,p in A.getRoot() ^ B.getRoot(): pass
print("after ^", [len(r.getFibers()) for r in A.ranks], [len(r.getFibers()) for r in B.ranks])
print(A.getRoot().uncompress())
print("after uncompress", [len(r.getFibers()) for r in A.ranks], [len(r.getFibers()) for r in B.ranks])
C = A.getRoot() + B.getRoot() if False else None
