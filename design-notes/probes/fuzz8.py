import warnings; warnings.simplefilter("ignore")
import random, copy, itertools
from fibertree import Fiber, Tensor, Payload, Metrics
R = random.Random(8)
bad={}
def report(k,m): bad.setdefault(k,[]).append(m)
def rn(shape,pz=0.5):
    if len(shape)==1: return [0 if R.random()<pz else R.randint(1,5) for _ in range(shape[0])]
    return [rn(shape[1:],pz) for _ in range(shape[0])]
def content(f,pre=()):
    out={}
    for c,p in zip(f.coords,f.payloads):
        if isinstance(p,Fiber): out.update(content(p,pre+(c,)))
        elif p.value!=0: out[pre+(c,)]=p.value
    return out
def flat(x):
    if isinstance(x,tuple): 
        r=()
        for y in x: r+=flat(y)
        return r
    return (x,)
names=["A","B","C","D"]
for it in range(800):
    D=R.randint(2,4); shape=[R.randint(1,3) for _ in range(D)]; ids=names[:D]
    t=Tensor.fromUncompressed(ids, rn(shape, R.choice([0.3,0.6,1.0])))
    t.setDefault(0); fmts={r:R.choice("CU") for r in ids}
    c0=content(t.getRoot())
    # swizzle
    perm=ids[:]; R.shuffle(perm)
    try:
        s=t.swizzleRanks(perm); idx=[ids.index(r) for r in perm]
        exp={tuple(p[i] for i in idx):v for p,v in c0.items()}
        if content(s.getRoot())!=exp: report("swizzle",(shape,perm,c0,content(s.getRoot())))
        if s.getShape()!=[shape[i] for i in idx]: report("swizzle-shape",(shape,perm,s.getShape()))
        if s.getRankIds()!=perm: report("swizzle-ids",(perm,s.getRankIds()))
        back=s.swizzleRanks(ids)
        if not (back==t): report("swizzle-inv",(shape,perm))
    except Exception as e: report("swizzle-exc",(shape,perm,c0,repr(e)))
    # swap at depth d
    d=R.randint(0,D-2)
    try:
        s=t.swapRanks(depth=d)
        exp={p[:d]+(p[d+1],p[d])+p[d+2:]:v for p,v in c0.items()}
        if content(s.getRoot())!=exp: report("swap",(shape,d,c0,content(s.getRoot())))
    except Exception as e: report("swap-exc",(shape,d,c0,repr(e)))
    # flatten / unflatten
    lv=R.randint(1,D-1-d) if D-1-d>=1 else 1
    for style in ("tuple","pair","linear"):
        try:
            f=t.flattenRanks(depth=d, levels=lv, coord_style=style)
            def comb(p):
                seg=p[d:d+lv+1]
                if style=="tuple": c=tuple(seg)
                elif style=="pair":
                    c=seg[0]
                    # nested from the bottom: merge deeper first → (c_d, (c_d+1, ...))? determine empirically
                    c=None
                else:
                    c=seg[0]
                    for k in range(1,len(seg)): c=c*shape[d+k]+seg[k]
                return p[:d]+(c,)+p[d+lv+1:]
            if style!="pair":
                exp={comb(p):v for p,v in c0.items()}
                if content(f.getRoot())!=exp: report("flatten-"+style,(shape,d,lv,c0,content(f.getRoot())))
            if style!="linear":
                u=f.unflattenRanks(depth=d, levels=lv)
                if content(u.getRoot())!=c0: report("unflatten-"+style,(shape,d,lv,c0,content(u.getRoot())))
                if u.getRankIds()!=ids: report("unflatten-ids-"+style,(ids,u.getRankIds()))
                if c0 and u.getShape()!=shape: report("unflatten-shape-"+style,(shape,u.getShape()))
        except BaseException as e: report("flatten-exc-"+style,(shape,d,lv,c0,repr(e)))
    # split then flatten absolute
    try:
        step=R.randint(1,3)
        sp=t.splitUniform(step, depth=d)
        exp={p[:d]+(p[d]//step*step,)+p[d:]:v for p,v in c0.items()}
        if content(sp.getRoot())!=exp: report("splitdeep",(shape,d,step,c0,content(sp.getRoot())))
        fa=sp.flattenRanks(depth=d, coord_style="absolute")
        if content(fa.getRoot())!=c0: report("split-flatabs",(shape,d,step,c0,content(fa.getRoot())))
        if sp.getRankIds()!=ids[:d]+[ids[d]+".1",ids[d]+".0"]+ids[d+1:]: report("split-ids",(sp.getRankIds(),))
        if sp.getShape()!=shape[:d]+[shape[d],shape[d]]+shape[d+1:]: report("split-shape",(shape,sp.getShape()))
    except BaseException as e: report("split-exc",(shape,d,c0,repr(e)))
for k,v in sorted(bad.items()): print(k,len(v),v[0])
print("done")
