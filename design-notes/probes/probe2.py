import warnings; warnings.simplefilter("ignore")
import io, contextlib
from fibertree import Fiber, Tensor, Payload, CoordPayload, Rank, Codec
# (e) lshift with pre-existing explicit zero in z, untouched
z = Fiber([1,2,5],[0,7,0]); a = Fiber([1,3,5],[1,1,1])
seen=[]
for c,(zr,av) in z << a:
    seen.append((c, zr.value))
    if c==5: zr <<= 9
print("lshift seen", seen, "z after", z.coords, z.payloads)
# 2-level tensor populate leaving untouched
Z = Tensor(rank_ids=["M","N"]); A = Tensor.fromUncompressed(["M","N"], [[1,0],[0,2],[3,3]])
for m,(z_n,a_n) in Z.getRoot() << A.getRoot():
    for n,(zr,av) in z_n << a_n:
        if m==1: zr += av
print(Z, [len(r.getFibers()) for r in Z.ranks])
# getPayload at prefix missing
T = Tensor.fromUncompressed(["M","N"], [[1,0],[0,0],[3,3]])
p = T.getPayload(1); print("prefix missing ->", p, type(p).__name__, p.getOwner() and p.getOwner().getId(), [len(r.getFibers()) for r in T.ranks])
print("leaf missing ->", T.getPayload(1,1), T.getPayload(0,1), T.getPayload(1,1, default=None, allocate=False))
# uncompress
print(T.getRoot().uncompress(), T.getShape())
T0 = Tensor.fromUncompressed(["M","N"], [[0,0],[0,0]]); print("all zero:", T0, T0.getShape())
# eq with explicit zeros
print(Fiber([1,2],[0,3]) == Fiber([2],[3]), Fiber([1],[Fiber([],[])]) == Fiber([],[]))
# codec
t = Tensor.fromUncompressed(["M","K"], [[1,0,2],[0,0,0],[0,3,0]])
for desc in ["UU","CC","UC","CU","BB","CB","BC"]:
    codec = Codec(tuple(desc), [True]*2)
    out = codec.get_output_dict(t.getRankIds()); ot=[[],[],[]]
    with contextlib.redirect_stdout(io.StringIO()):
        codec.encode(-1, t.getRoot(), t.getRankIds(), out, ot)
    print(desc, out)
