import warnings; warnings.simplefilter("ignore")
import random
from fibertree import Fiber, Tensor, Payload
R = random.Random(5)
bad={}
def report(k,m): bad.setdefault(k,[]).append(m)
def rf(n):
    cs=[];ps=[]
    for c in range(n):
        r=R.random()
        if r<0.4: continue
        cs.append(c); ps.append(0 if r<0.55 else R.randint(1,9))
    return cs,ps
for it in range(4000):
    n=R.randint(1,8); cs,ps=rf(n); f=Fiber(cs,ps,shape=n)
    el=[(c,v) for c,v in zip(cs,ps)]
    lo=R.randint(-2,n+2); hi=R.randint(-2,n+3); st=R.randint(1,3)
    try:
        got=[(c,p.value) for c,p in f.iterRange(lo,hi)]
        exp=[(c,v) for c,v in el if lo<=c<hi and v!=0]
        if got!=exp: report("iterRange",(cs,ps,lo,hi,got,exp))
        got=[(c,p.value) for c,p in f.iterRangeShape(lo,hi,st)]
        d=dict(el); exp=[(c,d.get(c,0)) for c in range(lo,hi,st)]
        if got!=exp: report("iterRangeShape",(cs,ps,lo,hi,st,got,exp))
    except Exception as e: report("iter-exc",(cs,ps,lo,hi,st,repr(e)))
    # start_pos legal
    for sp in range(len(cs)):
        if all(c<lo for c in cs[:sp]):
            try:
                got=[(c,p.value) for c,p in f.iterRange(lo,hi,start_pos=sp)]
                exp=[(c,v) for c,v in el if lo<=c<hi and v!=0]
                if got!=exp: report("iterRange-sp",(cs,ps,lo,hi,sp,got,exp))
            except Exception as e: report("iter-sp-exc",(cs,ps,lo,hi,sp,repr(e)))
    # getPayload with legal start_pos
    for c in range(-1,n+1):
        for sp in range(len(cs)):
            if sp==0 or cs[sp]<=c:
                try:
                    a=f.getPayload(c,start_pos=sp); b=f.getPayload(c)
                    if a!=b: report("getPayload-sp",(cs,ps,c,sp,a,b))
                except Exception as e: report("getPayload-sp-exc",(cs,ps,c,sp,repr(e)))
    # project
    k=R.choice([-3,-2,-1,1,2,3]); b=R.randint(-4,4)
    iv=None
    if R.random()<0.5:
        x=R.randint(-10,20); iv=(x,x+R.randint(0,12))
    try:
        pr=f.project(lambda c:k*c+b, interval=iv)
        got=[(c,p.value) for c,p in pr]
        exp=sorted([(k*c+b,v) for c,v in el if v!=0 and (iv is None or iv[0]<=k*c+b<iv[1])])
        if got!=exp: report("project",(cs,ps,k,b,iv,got,exp))
        ar=pr.getActive()
        for c,_ in got:
            if not (ar[0]<=c<ar[1]): report("project-active",(cs,ps,k,b,iv,ar,c))
    except Exception as e: report("project-exc",(cs,ps,k,b,iv,repr(e)))
    # ref iteration inserts exactly visited
    g=Fiber(list(cs),list(ps),shape=n)
    lo2=max(lo,0); 
    try:
        vis=[c for c,_ in g.iterRangeShapeRef(lo2,hi,st)]
        if sorted(set(cs)|set(vis))!=g.coords: report("shapeRef",(cs,lo2,hi,st,g.coords))
    except Exception as e: report("shapeRef-exc",(cs,lo2,hi,st,repr(e)))
for k,v in bad.items(): print(k,len(v),v[0])
print("done c07")
