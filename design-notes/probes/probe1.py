import warnings; warnings.simplefilter("ignore")
from fibertree import Fiber, Tensor, Payload, CoordPayload, Rank
def show(t): print(t)

# C11: CoordPayload <<=
cp = CoordPayload(1, 4)
x = cp
x <<= 6
print("cp <<= 6 ->", x, cp.payload)
p = Payload(8); q = p; q /= 2; print("payload /=", p, q, p is q)
try:
    print(CoordPayload(1,4) / 2)
except Exception as e: print("cp / 2 err", type(e).__name__, e)

# C01: setitem negative pos
f = Fiber([1,3,5],[1,1,1])
try:
    f[-1] = CoordPayload(0, 9)
    print("neg setitem", f.coords)
except Exception as e: print("neg setitem err", type(e).__name__)

# updatePayloads index drift
f = Fiber([1,3,5],[0,2,3])
f.updatePayloads(lambda i,c,p: Payload(p.value*10))
print("updatePayloads drift", f.coords, f.payloads)

# updateCoords depth>0 returns after first
t = Tensor.fromUncompressed(["M","K"], [[1,2],[3,4]])
t2 = t.updateCoords(lambda i,c,p: c+10, depth=1)
print("updateCoords depth1", t2)

# _calcShape off by one
f = Fiber([0,1],[Fiber([0],[1]), Fiber([0,5],[1,1])])
print("estimate shape", f.getShape(), f.estimateShape())

# clear in tensor leaves stale rank fibers
t = Tensor.fromUncompressed(["M","K"], [[1,2],[3,4]])
t.getRoot().clear()
print("after clear rank K fibers:", len(t.ranks[1].getFibers()))
t = Tensor.fromUncompressed(["M","K"], [[1,2],[3,4]])
r = t.getRoot()
r <<= Fiber([0],[Fiber([1],[7])])
print("after ilshift rank K fibers:", len(t.ranks[1].getFibers()), t)

# unflatten default
t = Tensor.fromUncompressed(["M","K"], [[1,2],[3,4]], default=0)
t.setDefault(5)
fl = t.flattenRanks()
print("flat default", fl.getDefault(), "unflat default", fl.unflattenRanks().getDefault())
sw = t.swapRanks()
print("swap shape auth", sw.getShape(authoritative=True), t.getShape(authoritative=True))
