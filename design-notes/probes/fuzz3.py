import warnings; warnings.simplefilter("ignore")
import random, io, contextlib, math, itertools, os
from fibertree import Fiber, Tensor, Payload, Metrics, Codec
from fibertree.model import *
R = random.Random(3)
bad={}
def report(k,m): bad.setdefault(k,[]).append(m)
def rnest(shape, pz=0.5):
    if len(shape)==1: return [0 if R.random()<pz else R.randint(1,9) for _ in range(shape[0])]
    return [rnest(shape[1:],pz) for _ in range(shape[0])]
def content(f, pre=()):
    out={}
    for c,p in zip(f.coords,f.payloads):
        if isinstance(p,Fiber): out.update(content(p,pre+(c,)))
        elif p.value!=0: out[pre+(c,)]=p.value
    return out
def nest_content(n, pre=()):
    out={}
    for i,x in enumerate(n):
        if isinstance(x,list): out.update(nest_content(x,pre+(i,)))
        elif x!=0: out[pre+(i,)]=x
    return out
# ---- C20: decode by layout
def decode(desc, shape, out, ranks):
    # returns content dict; walk per rank arrays with cursors
    cur={r:{"c":0,"p":0} for r in ranks}
    def rec(d, nfib_index_unused):
        r=ranks[d].lower(); fmt=desc[d]; leaf=(d==len(ranks)-1)
        coords=out["coords_"+r]; pays=out["payloads_"+r]
        elems=[]
        if fmt=="U":
            for i in range(shape[d]): elems.append(i)
        elif fmt=="C":
            pass
        return elems
    return None
# Simplified decode: reconstruct recursively using occupancies as segment ends.
def decode2(desc, shape, out, ranks):
    D=len(ranks)
    pos={("c",d):0 for d in range(D)}; pos.update({("p",d):0 for d in range(D)})
    res={}
    # number of elements in fiber at depth d is determined by: U: shape[d]; C: from parent's occupancy (segment end); B: shape[d] bits
    def fiber(d, pre, nelem):
        r=ranks[d].lower(); fmt=desc[d]; leaf=(d==D-1)
        C=out["coords_"+r]; P=out["payloads_"+r]
        if fmt=="U": cs=list(range(shape[d]))
        elif fmt=="C":
            cs=C[pos[("c",d)]:pos[("c",d)]+nelem]; pos[("c",d)]+=nelem
        elif fmt=="B":
            bits=C[pos[("c",d)]:pos[("c",d)]+shape[d]]; pos[("c",d)]+=shape[d]
            cs=[i for i,b in enumerate(bits) if b]
        for c in cs:
            if leaf:
                v=P[pos[("p",d)]]; pos[("p",d)]+=1
                if v!=0: res[pre+(c,)]=v
            else:
                nxt=desc[d+1]
                if nxt in "CB":
                    # payload = cumulative occupancy (segment end) within this fiber... relative to fiber start
                    end=P[pos[("p",d)]]; pos[("p",d)]+=1
                    start=fiber.prev_end.get((d,pre),0)
                    fiber.prev_end[(d,pre)]=end
                    fiber(d+1, pre+(c,), end-start)
                else:
                    fiber(d+1, pre+(c,), None)
    fiber.prev_end={}
    n0=None
    if desc[0] in "CB": n0=out["payloads_root"][0]
    fiber(0,(),n0)
    return res
for it in range(600):
    D=R.randint(1,3); shape=[R.randint(1,4) for _ in range(D)]; ranks=["M","K","N"][:D]
    nest=rnest(shape, R.choice([0.3,0.6,1.0]))
    t=Tensor.fromUncompressed(ranks, nest)
    for desc in itertools.product("UCB", repeat=D):
        codec=Codec(tuple(desc),[True]*D); out=codec.get_output_dict(ranks); ot=[[] for _ in range(D+1)]
        try:
            with contextlib.redirect_stdout(io.StringIO()):
                codec.encode(-1, t.getRoot(), ranks, out, ot)
        except Exception as e:
            report("c20-enc-exc",(nest,desc,repr(e))); continue
        try: got=decode2(desc, shape, out, ranks)
        except Exception as e: report("c20-dec-exc",(nest,desc,out,repr(e))); continue
        if got!=nest_content(nest): report("c20",(nest,desc,out,got))
for k,v in bad.items(): print(k,len(v),v[0])
print("done c20")
