import warnings; warnings.simplefilter("ignore")
import random, copy, itertools, os, io, contextlib
from fibertree import Fiber, Tensor, Payload, Metrics, TensorImage
from fibertree.model import Format
os.chdir("/root/scratch")
R = random.Random(10)
bad={}
def report(k,m): bad.setdefault(k,[]).append(m)
def rn(shape,pz=0.5):
    if len(shape)==1: return [0 if R.random()<pz else R.randint(1,5) for _ in range(shape[0])]
    return [rn(shape[1:],pz) for _ in range(shape[0])]
def content(f,pre=(),dflt=0):
    out={}
    for c,p in zip(f.coords,f.payloads):
        if isinstance(p,Fiber): out.update(content(p,pre+(c,),dflt))
        elif p.value!=dflt: out[pre+(c,)]=p.value
    return out
def snap(f): return (list(f.coords),[snap(p) if isinstance(p,Fiber) else p.value for p in f.payloads])
def tsnap(t): return (snap(t.getRoot()), [[id(f) for f in r.getFibers()] for r in t.ranks], t.getRankIds(), t.getShape())
def dirty(t, D, n, k=3):
    for _ in range(R.randint(0,k)):
        t.getPayloadRef(*[R.randint(0,n-1) for _ in range(R.randint(1,D))])
# ---- C03: map refinement on owned tensors with handles
for it in range(1500):
    D=R.randint(1,3); n=4; dflt=R.choice([0,0,7])
    t=Tensor.fromUncompressed(["M","K","N"][:D], rn([n]*D, 0.6) if dflt==0 else [[dflt]*n for _ in range(n)] if D==2 else rn([n]*D,0.6), default=dflt) if False else Tensor.fromUncompressed(["M","K","N"][:D], rn([n]*D,0.6))
    spec=content(t.getRoot()); handles=[]
    for step in range(R.randint(1,10)):
        op=R.choice(["get","getdef","ref","wr","acc","prefix","pos"])
        pt=tuple(R.randint(0,n) for _ in range(D))
        before=tsnap(t)
        try:
            if op=="get":
                v=t.getPayload(*pt)
                if v.value!=spec.get(pt,0): report("get",(pt,v.value,spec.get(pt,0)))
                if tsnap(t)!=before: report("get-mutates",(pt,))
            elif op=="getdef":
                v=t.getPayload(*pt, default=99, allocate=False)
                exp=spec.get(pt,None)
                # absent => 99 ; explicit zero present => 0
                if pt in spec and v.value!=spec[pt]: report("getdef",(pt,v,spec[pt]))
                if tsnap(t)!=before: report("getdef-mutates",(pt,))
            elif op=="ref":
                h=t.getPayloadRef(*pt); handles.append((pt,h))
                if h.value!=spec.get(pt,0): report("ref-val",(pt,h.value,spec.get(pt,0)))
                if content(t.getRoot())!=spec: report("ref-disturbs",(pt,))
            elif op in("wr","acc") and handles:
                p,h=R.choice(handles); v=R.randint(0,4)
                if op=="wr": h<<=v; nv=v
                else: h+=v; nv=spec.get(p,0)+v
                # handle may be stale if element was removed – we never remove here
                if nv==0: spec.pop(p,None)
                else: spec[p]=nv
                if content(t.getRoot())!=spec: report("write-through",(p,op,v,content(t.getRoot()),spec))
            elif op=="prefix" and D>1:
                k=R.randint(1,D-1); sub=t.getPayload(*pt[:k])
                exp={q[k:]:v for q,v in spec.items() if q[:k]==pt[:k]}
                if content(sub)!=exp: report("prefix",(pt[:k],content(sub),exp))
                if tsnap(t)!=before: report("prefix-mutates",(pt[:k],))
            elif op=="pos":
                f=t.getRoot(); c=pt[0]; p=f.getPosition(c)
                exp=f.coords.index(c) if c in f.coords else None
                if p!=exp: report("pos",(c,p,exp))
        except Exception as e: report("c03-exc:"+op,(pt,repr(e)))
# ---- C10: observers leave tree + rank lists unchanged
obs={
 "str": lambda t: str(t), "repr": lambda t: repr(t), "fmt": lambda t: f"{t.getRoot():n*}",
 "eq": lambda t: t==copy.deepcopy(t), "iter": lambda t: list(t.getRoot()), "count": lambda t: t.countValues(),
 "isEmpty": lambda t: t.getRoot().isEmpty(), "shape": lambda t: (t.getShape(), t.getShape(authoritative=True), t.getRoot().getShape()),
 "uncompress": lambda t: t.getRoot().uncompress(), "nonEmpty": lambda t: t.getRoot().nonEmpty(),
 "dump": lambda t: t.dump("/root/scratch/tmp/o.yaml"), "dict": lambda t: t.getRoot().fiber2dict(),
 "footprint": lambda t: (Format(t,{}).getTensor(), Format(t,{r:{"format":"U"} for r in t.getRankIds()}).getSubTree()),
 "image": lambda t: TensorImage(t).im.tobytes(), "image-u": lambda t: TensorImage(t, style="uncompressed").im.tobytes(),
 "active": lambda t: t.getRoot().getActive(), "minmax": lambda t:(t.getRoot().minCoord(), t.getRoot().maxCoord()),
 "or": lambda t: list(t.getRoot() | copy.deepcopy(t).getRoot()), "and": lambda t: list(t.getRoot() & copy.deepcopy(t).getRoot()),
 "iterShape": lambda t: list(t.getRoot().iterShape()), "split": lambda t: t.splitUniform(2), "swizzle": lambda t: t.swizzleRanks(list(reversed(t.getRankIds()))),
 "flatten": lambda t: t.flattenRanks() if len(t.ranks)>1 else None, "add": lambda t: t.getRoot()+t.getRoot() if len(t.ranks)==1 else None, "mul": lambda t: t.getRoot()*2 if len(t.ranks)==1 else None,
 "updateCoords": lambda t: t.updateCoords(lambda i,c,p:c+1), "deepcopy": lambda t: copy.deepcopy(t),
}
for it in range(150):
    D=R.randint(1,3); n=3
    t=Tensor.fromUncompressed(["M","K","N"][:D], rn([n]*D,0.5), name="T"); dirty(t,D,n)
    for name,fn in obs.items():
        before=tsnap(t)
        try:
            with contextlib.redirect_stdout(io.StringIO()):
                r1=fn(t)
            if name.startswith("image"):
                r2=fn(t)
                if r1!=r2: report("image-nondeterministic",(name,))
        except BaseException as e:
            report("c10-exc:"+name, (snap(t.getRoot()), repr(e)[:80])); continue
        if tsnap(t)!=before:
            a,b=before,tsnap(t)
            what="tree" if a[0]!=b[0] else "ranks" if a[1]!=b[1] else "attrs"
            report("c10-mutates:"+name+":"+what,(snap(t.getRoot()),))
for k,v in sorted(bad.items()): print(k,len(v),str(v[0])[:300])
print("done")
