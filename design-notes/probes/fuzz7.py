import warnings; warnings.simplefilter("ignore")
import random, copy
from fibertree import Fiber, Tensor, Payload, CoordPayload
from fibertree.core.fiber import CoordinateError
R = random.Random(7)
bad={}
def report(k,m):
    bad.setdefault(k,[]).append(m)
def snap(f): return (list(f.coords),[snap(p) if isinstance(p,Fiber) else ("B",p.value) if isinstance(p,Payload) else ("RAW",p) for p in f.payloads])
def wf(f, depth, path=()):
    errs=[]
    if len(f.coords)!=len(f.payloads): errs.append(("len",path))
    if any(not (a<b) for a,b in zip(f.coords,f.coords[1:])): errs.append(("order",path,list(f.coords)))
    for c,p in zip(f.coords,f.payloads):
        if depth==1:
            if not isinstance(p,Payload): errs.append(("leaf-not-box",path+(c,),type(p).__name__))
            elif isinstance(p.value,Payload): errs.append(("double-box",path+(c,)))
        else:
            if not isinstance(p,Fiber): errs.append(("interior-not-fiber",path+(c,),type(p).__name__))
            else: errs+=wf(p,depth-1,path+(c,))
    return errs
def mirror(t):
    errs=[]
    lv=[[t.getRoot()]]
    for i in range(1,len(t.ranks)):
        lv.append([p for f in lv[-1] for p in f.payloads if isinstance(p,Fiber)])
    for i,r in enumerate(t.ranks):
        got=r.getFibers()
        if sorted(map(id,got))!=sorted(map(id,lv[i])): errs.append(("rank",i,len(got),len(lv[i])))
        for f in lv[i]:
            if f.getOwner() is not r: errs.append(("owner",i))
    return errs
def rpoint(D,n): return [R.randint(0,n-1) for _ in range(D)]
def fibers_at(t,level):
    fs=[t.getRoot()]
    for _ in range(level): fs=[p for f in fs for p in f.payloads if isinstance(p,Fiber)]
    return fs
OPS=["ref","refw","iadd","get","append","setitem","clear","populate","shaperef","imulf","iaddf","eq","ilshift","updpay"]
for it in range(1500):
    D=R.randint(1,3); n=4
    def rn(shape): 
        if len(shape)==1: return [0 if R.random()<0.5 else R.randint(1,5) for _ in range(shape[0])]
        return [rn(shape[1:]) for _ in range(shape[0])]
    t=Tensor.fromUncompressed(["M","K","N"][:D], rn([n]*D))
    hist=[]
    for step in range(R.randint(1,8)):
        op=R.choice(OPS); hist.append(op)
        before=snap(t.getRoot())
        try:
            if op=="ref": t.getPayloadRef(*rpoint(D,n+1))
            elif op=="refw": p=t.getPayloadRef(*rpoint(D,n+1)); p<<=R.randint(0,3)
            elif op=="iadd": p=t.getPayloadRef(*rpoint(D,n+1)); p+=R.randint(-2,2)
            elif op=="get": t.getPayload(*rpoint(R.randint(1,D),n+1))
            elif op=="append":
                lvl=R.randint(0,D-1); fs=fibers_at(t,lvl)
                if fs:
                    f=R.choice(fs); c=R.randint(0,n+2)
                    f.append(c, R.randint(0,3) if lvl==D-1 else Fiber())
            elif op=="setitem":
                fs=fibers_at(t,D-1)
                fs=[f for f in fs if len(f)>0]
                if fs:
                    f=R.choice(fs); pos=R.randint(0,len(f)-1)
                    if R.random()<0.5: f[pos]=R.randint(0,3)
                    else: f[pos]=CoordPayload(R.randint(0,n+1), R.randint(0,3))
            elif op=="clear":
                lvl=R.randint(0,D-1); fs=fibers_at(t,lvl)
                if fs: R.choice(fs).clear()
            elif op=="populate":
                src=Tensor.fromUncompressed(["M","K","N"][:D], rn([n]*D))
                def pop(z,a,d):
                    for c,(zr,ar) in z<<a:
                        if d==1:
                            ch=R.random()
                            if ch<0.4: zr+=ar
                            elif ch<0.6: zr<<=0
                        else: pop(zr,ar,d-1)
                pop(t.getRoot(),src.getRoot(),D)
            elif op=="shaperef":
                fs=fibers_at(t,R.randint(0,D-1))
                if fs:
                    for _ in R.choice(fs).iterRangeShapeRef(0,R.randint(0,n),R.randint(1,2)): pass
            elif op=="imulf" and D==1:
                g=Fiber([c for c in range(n) if R.random()<0.5],[R.randint(0,3) for _ in range(n)][:0] or None) if False else Fiber.fromUncompressed(rn([n])) 
                r=t.getRoot(); r*=g
            elif op=="iaddf" and D==1:
                g=Fiber.fromUncompressed(rn([n])); r=t.getRoot(); r+=g
            elif op=="eq":
                t==copy.deepcopy(t)
            elif op=="ilshift":
                lvl=R.randint(0,D-1); fs=fibers_at(t,lvl)
                if fs:
                    f=R.choice(fs); src=Fiber.fromUncompressed(rn([n]*(D-lvl))); f<<=src
            elif op=="updpay":
                t.getRoot().updatePayloads(lambda i,c,p: p, depth=R.randint(0,D-1))
            rejected=False
        except (AssertionError, CoordinateError, IndexError) as e:
            rejected=True
            if snap(t.getRoot())!=before: report("reject-changed",(hist[:],type(e).__name__,str(e)[:40]))
        except Exception as e:
            report("exc:"+op+":"+type(e).__name__,(hist[:],str(e)[:60])); break
        e=wf(t.getRoot(),D)
        if e: report("wf:"+op+":"+e[0][0],(hist[:],e[0])); break
        m=mirror(t)
        if m: report("mirror:"+op,(hist[:],m[0])); break
for k,v in sorted(bad.items()): print(k,len(v),v[0])
print("done")
