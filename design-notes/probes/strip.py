import ast, sys
src = open(sys.argv[1]).read()
lo = int(sys.argv[2]) if len(sys.argv) > 2 else 1
hi = int(sys.argv[3]) if len(sys.argv) > 3 else 10**9
tree = ast.parse(src)
skip = set()
for node in ast.walk(tree):
    if isinstance(node, (ast.FunctionDef, ast.ClassDef, ast.Module, ast.AsyncFunctionDef)):
        b = node.body
        if b and isinstance(b[0], ast.Expr) and isinstance(getattr(b[0], 'value', None), ast.Constant) and isinstance(b[0].value.value, str):
            for l in range(b[0].lineno, b[0].end_lineno + 1):
                skip.add(l)
for i, line in enumerate(src.split('\n'), 1):
    if i < lo or i > hi or i in skip: continue
    s = line.strip()
    if not s or s.startswith('#'): continue
    print(f"{i}\t{line}")
