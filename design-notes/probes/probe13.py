import warnings; warnings.simplefilter("ignore")
from fibertree import Fiber, Tensor, Payload
def ids(f, acc=None):
    acc = set() if acc is None else acc
    acc.add(id(f))
    for p in f.payloads:
        if isinstance(p, Fiber): ids(p, acc)
        else: acc.add(id(p))
    return acc
f = Fiber([0,2],[Fiber([1,3],[5,6]), Fiber([0],[7])])
ops = {
 "splitUniform": lambda f: f.splitUniform(2),
 "splitEqual": lambda f: f.splitEqual(1),
 "flatten": lambda f: f.flattenRanks(),
 "swap": lambda f: f.swapRanks(),
 "merge": lambda f: f.mergeRanks(style="absolute"),
 "nonEmpty": lambda f: f.nonEmpty(),
 "add": lambda f: f.payloads[0] + f.payloads[0],
 "mul2": lambda f: f.payloads[0] * 2,
 "deepcopy": lambda f: __import__("copy").deepcopy(f),
}
for n,fn in ops.items():
    r = fn(f); print(n, "shared objs:", len(ids(f) & ids(r)))
fl = f.flattenRanks(); un = fl.unflattenRanks(); print("unflatten shared with its operand:", len(ids(fl) & ids(un)))
T = Tensor.fromUncompressed(["M","K"], [[0,5,0,6],[0,0,0,0],[7,0,0,0]])
for n,fn in {"T.split": lambda t: t.splitUniform(2), "T.swizzle": lambda t: t.swizzleRanks(["K","M"]), "T.flatten": lambda t: t.flattenRanks(), "T.unflatten": lambda t: t.flattenRanks().unflattenRanks(), "T.updateCoords": lambda t: t.updateCoords(lambda i,c,p: c+1), "T.updatePayloads": lambda t: t.updatePayloads(lambda i,c,p: p, depth=1), "T.swap": lambda t: t.swapRanks()}.items():
    r = fn(T); print(n, "shared:", len(ids(T.getRoot()) & ids(r.getRoot())), "ranks shared:", len({id(x) for x in T.ranks} & {id(x) for x in r.ranks}))
Tf = T.flattenRanks(); Tu = Tf.unflattenRanks(); print("T.unflatten vs its operand:", len(ids(Tf.getRoot()) & ids(Tu.getRoot())))
