import warnings; warnings.simplefilter("ignore")
import random, os, itertools, functools
from fibertree import Fiber, Tensor, Payload, Metrics
from fibertree.model import *
os.chdir("/root/scratch")
R = random.Random(4)
bad={}
def report(k,m): bad.setdefault(k,[]).append(m)
B = Tensor(rank_ids=["K"], shape=[64]); fb = Format(B, {"K":{"pbits":32}})
def write_trace(fn, rows, hdr="M_pos,K_pos,M,K,fiber_pos"):
    with open(fn,"w") as f:
        f.write(hdr+"\n")
        for r in rows: f.write(",".join(map(str,r))+"\n")
def gen_trace(nm, nk, npos):
    rows=[]
    for mp in range(nm):
        kp=0
        for _ in range(R.randint(0,nk)):
            pos=R.randint(0,npos-1)
            rows.append((mp,kp,mp*2,pos,pos)); kp+=1
    return rows
def opt_misses(seq, cap):
    # brute force optimal with bypass: state = frozenset of cached
    @functools.lru_cache(None)
    def go(i, cached):
        if i==len(seq): return 0
        x=seq[i]
        if x in cached: return go(i+1,cached)
        best=1+go(i+1,cached)  # bypass
        if len(cached)<cap: best=min(best,1+go(i+1,cached|{x}))
        else:
            for y in cached: best=min(best,1+go(i+1,(cached-{y})|{x}))
        return best
    return go(0,frozenset())
for it in range(400):
    rows=gen_trace(R.randint(1,3), 4, R.randint(1,5))
    if not rows: continue
    write_trace("tmp/f_read.csv", rows)
    for line_elems in (1,2):
        line_sz=32*line_elems
        seq=[r[4]//line_elems for r in rows]
        for capl in (0,1,2,3,10):
            try:
                tr,ov=Traffic.cacheTraffic([{"tensor":"B","rank":"K","type":"payload"}], {"B":fb}, {("B","K","payload","read"):"tmp/f_read.csv"}, capl*line_sz, line_sz)
            except Exception as e:
                report("cache-exc",(rows,line_elems,capl,repr(e))); continue
            exp=opt_misses(tuple(seq),capl)*line_sz
            if tr["B"]["read"]!=exp: report("cache",(rows,line_elems,capl,tr,exp))
        for evict in ("root","M","K"):
            try:
                tr,ov=Traffic.buffetTraffic([{"tensor":"B","rank":"K","type":"payload","evict-on":evict}], {"B":fb}, {("B","K","payload","read"):"tmp/f_read.csv"}, 10**6, line_sz)
            except Exception as e:
                report("buffet-exc",(rows,line_elems,evict,repr(e))); continue
            if evict=="root": wins={(l,) for l in seq}
            elif evict=="M": wins={(r[0],l) for r,l in zip(rows,seq)}
            else: wins={(r[0],r[1],l) for r,l in zip(rows,seq)}
            exp=len(wins)*line_sz
            if tr["B"]["read"]!=exp: report("buffet",(rows,line_elems,evict,tr,exp))
    left=[f for f in os.listdir("tmp") if f.startswith("f_read") and f!="f_read.csv"]
    if left: report("tempfiles",left)
for k,v in bad.items(): print(k,len(v),v[0])
print("done c17")
