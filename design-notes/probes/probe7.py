import warnings; warnings.simplefilter("ignore")
from fibertree import Fiber, Tensor, Payload
f = Fiber([1,2,4,6,9],[1,0,4,6,9], shape=10)
print([(c,p.value) for c,p in f.iterRange(2,7)], [(c,p.value) for c,p in f.iterRangeShape(3,8,2)])
print([(c,p.value) for c,p in f.iterRange(2,7,start_pos=1)], f.getSavedPos())
print("proj inc", [(c,p.value) for c,p in f.project(lambda c: c+3)], f.project(lambda c: c+3).getActive())
print("proj dec", [(c,p.value) for c,p in f.project(lambda c: 10-c)], f.project(lambda c: 10-c).getActive())
print("proj dec interval", [(c,p.value) for c,p in f.project(lambda c: 10-c, interval=(2,7))], f.project(lambda c: 10-c, interval=(2,7)).getActive())
print("proj 2x", [(c,p.value) for c,p in f.project(lambda c: 2*c+1)], f.project(lambda c: 2*c+1).getActive())
print("prune", [(c,p.value) for c,p in f.prune(lambda i,c,p: c%2==0)])
g = Fiber([1,2,4],[1,0,4], shape=6)
print("ref", [(c,p.value) for c,p in g.iterRangeShapeRef(0,6,2)], g.coords)
# lazy → eager
x = Fiber.fromLazy(f.project(lambda c: c+3)); print(x, x.getDefault())
# iterActive with active range set
s = f.splitUniform(5); lo = s.payloads[1]; print(lo.getActive(), [(c,p.value) for c,p in lo.iterActive()], [(c,p.value) for c,p in lo.iterActiveShape()])
# U format default iteration
T = Tensor.fromUncompressed(["K"], [1,0,3,0]); T.setFormat("K","U"); print([(c,p.value) for c,p in T.getRoot()])
