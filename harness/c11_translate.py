"""c11_translate — regenerate coq/Gen/C11PayloadOps.v and coq/Gen/C11CoordPayloadOps.v from the
Python source of class Payload (fibertree/core/payload.py) and class CoordPayload
(fibertree/core/coord_payload.py), with `ast` only.

Every operator method (__add__ __radd__ __iadd__ ... __eq__ ... __ilshift__) becomes a term of the
statement language of coq/Model/C11PyOps.v.  FAIL CLOSED: any statement or expression outside the
grammar below, any unknown dunder method, and any change to the four methods whose behaviour is
hard-wired in the Coq semantics (Payload.__new__/__init__/__setattr__, CoordPayload.__init__)
raises TranslateError; check.py then reports the proof obligation as broken.

Grammar (per method `def __x__(self, other)`):
  stmt := docstring | if isinstance(E, Payload|CoordPayload): stmts [else: stmts]
        | if Metrics.isCollecting(): (Metrics.incCount(consts) | if NAME != 0: Metrics.incCount(consts))+
        | NAME = E | E.value = E | E.payload = E | target OP= E
        | assert not isinstance(E, Payload|CoordPayload) | return [E]
  E    := self | other | NAME(local) | None | E.value | E.payload | E op E | E cmp E | Payload(E)
"""
import ast, os, hashlib

BINOPS = {ast.Add: "OAdd", ast.Sub: "OSub", ast.Mult: "OMul", ast.Div: "OTrueDiv",
          ast.FloorDiv: "OFloorDiv", ast.BitAnd: "OAnd", ast.BitOr: "OOr", ast.LShift: "OLshift"}
CMPOPS = {ast.Eq: "OEq", ast.NotEq: "ONe", ast.Lt: "OLt", ast.LtE: "OLe", ast.Gt: "OGt", ast.GtE: "OGe"}
ARITH = {"add": "OAdd", "sub": "OSub", "mul": "OMul", "truediv": "OTrueDiv", "floordiv": "OFloorDiv",
         "and": "OAnd", "or": "OOr", "lshift": "OLshift"}
CMP = {"eq": "OEq", "ne": "ONe", "lt": "OLt", "le": "OLe", "gt": "OGt", "ge": "OGe"}
CLASSES = {"Payload": "ClsPayload", "CoordPayload": "ClsCoordPayload"}
ATTRS = {"value": "AValue", "payload": "APayload"}

METHODS = {}
for n, o in ARITH.items():
    METHODS["__%s__" % n] = ("KNormal", o)
    METHODS["__r%s__" % n] = ("KReflected", o)
    METHODS["__i%s__" % n] = ("KInplace", o)
for n, o in CMP.items():
    METHODS["__%s__" % n] = ("KNormal", o)

# Python-2 operator names: not operator methods in Python 3; listed in the output, not translated
LEGACY = {"__div__", "__rdiv__", "__idiv__"}
# other operator-ish dunders that would change dispatch if they appeared: refuse
REFUSE = {"__getattr__", "__getattribute__", "__rshift__", "__rrshift__", "__irshift__", "__mod__",
          "__rmod__", "__imod__", "__pow__", "__rpow__", "__ipow__", "__xor__", "__rxor__", "__ixor__",
          "__matmul__", "__rmatmul__", "__imatmul__", "__neg__", "__pos__", "__abs__", "__invert__",
          "__coerce__", "__cmp__"}
# non-operator methods the semantics does not depend on
IGNORED = {
    "Payload": {"v", "__iter__", "__reversed__", "__bool__", "__int__", "isEmpty", "maybe_box",
                "is_payload", "contains", "get", "print", "__format__", "__str__", "__repr__",
                "__deepcopy__", "payload2dict"},
    "CoordPayload": {"__iter__", "__getitem__", "__setitem__", "__deepcopy__", "__repr__"},
}
# methods whose behaviour is hard-wired in C11PyOps.v: sha1 of ast.dump of the body without docstring
ANCHORED = {
    ("Payload", "__new__"): "1dfdea22502e31c3",
    ("Payload", "__init__"): "594f73c9d3b2e46f",
    ("Payload", "__setattr__"): "978ebbfe4af78cc3",
    ("CoordPayload", "__init__"): "925a59b46fbcc397",
}


class TranslateError(Exception):
    pass


def _body_nodoc(fn):
    b = fn.body
    if b and isinstance(b[0], ast.Expr) and isinstance(getattr(b[0], "value", None), ast.Constant) \
            and isinstance(b[0].value.value, str):
        b = b[1:]
    return b


def body_hash(fn):
    return hashlib.sha1("|".join(ast.dump(s) for s in _body_nodoc(fn)).encode()).hexdigest()[:16]


class MethodTranslator:
    def __init__(self, cls, name, fn):
        self.cls, self.name, self.fn = cls, name, fn
        self.locals = {}
        args = [a.arg for a in fn.args.args]
        if args != ["self", "other"] or fn.args.vararg or fn.args.kwarg or fn.args.kwonlyargs \
                or fn.args.defaults or fn.decorator_list:
            self.bad(fn, "signature must be (self, other)")

    def bad(self, node, why):
        raise TranslateError("%s.%s line %s: %s: %s" % (
            self.cls, self.name, getattr(node, "lineno", "?"), why,
            ast.dump(node)[:160] if isinstance(node, ast.AST) else node))

    def local(self, name, create=False):
        if name not in self.locals:
            if not create:
                self.bad(name, "use of an unassigned name")
            self.locals[name] = len(self.locals)
        return self.locals[name]

    def is_isinstance(self, e):
        return (isinstance(e, ast.Call) and isinstance(e.func, ast.Name) and e.func.id == "isinstance"
                and len(e.args) == 2 and not e.keywords and isinstance(e.args[1], ast.Name)
                and e.args[1].id in CLASSES)

    def exp(self, e):
        if isinstance(e, ast.Name):
            if e.id == "self":
                return "ESelf"
            if e.id == "other":
                return "EOther"
            return "(ELocal %d%%nat)" % self.local(e.id)
        if isinstance(e, ast.Constant) and e.value is None:
            return "ENone"
        if isinstance(e, ast.Attribute) and e.attr in ATTRS:
            return "(EAttr %s %s)" % (self.exp(e.value), ATTRS[e.attr])
        if isinstance(e, ast.BinOp) and type(e.op) in BINOPS:
            return "(EBin %s %s %s)" % (BINOPS[type(e.op)], self.exp(e.left), self.exp(e.right))
        if isinstance(e, ast.Compare) and len(e.ops) == 1 and type(e.ops[0]) in CMPOPS:
            return "(EBin %s %s %s)" % (CMPOPS[type(e.ops[0])], self.exp(e.left), self.exp(e.comparators[0]))
        if isinstance(e, ast.Call) and isinstance(e.func, ast.Name) and e.func.id == "Payload" \
                and len(e.args) == 1 and not e.keywords:
            return "(ENew %s)" % self.exp(e.args[0])
        self.bad(e, "expression outside the grammar")

    def target(self, t, create):
        if isinstance(t, ast.Name) and t.id not in ("self", "other"):
            return "(TLocal %d%%nat)" % self.local(t.id, create=create)
        if isinstance(t, ast.Attribute) and t.attr in ATTRS:
            return "(TAttr %s %s)" % (self.exp(t.value), ATTRS[t.attr])
        self.bad(t, "assignment target outside the grammar")

    def metrics_block(self, st):
        def is_count(s):
            return (isinstance(s, ast.Expr) and isinstance(s.value, ast.Call)
                    and isinstance(s.value.func, ast.Attribute) and s.value.func.attr == "incCount"
                    and isinstance(s.value.func.value, ast.Name) and s.value.func.value.id == "Metrics"
                    and all(isinstance(a, ast.Constant) for a in s.value.args) and not s.value.keywords)
        if st.orelse:
            self.bad(st, "else branch on a Metrics block")
        for s in st.body:
            if is_count(s):
                continue
            if isinstance(s, ast.If) and not s.orelse and isinstance(s.test, ast.Compare) \
                    and isinstance(s.test.left, ast.Name) and s.test.left.id in self.locals \
                    and len(s.test.ops) == 1 and isinstance(s.test.comparators[0], ast.Constant) \
                    and all(is_count(x) for x in s.body):
                continue
            self.bad(s, "statement outside the grammar inside a Metrics block")
        return "SMetrics"

    def stmts(self, body):
        out = []
        for st in body:
            if isinstance(st, ast.Expr) and isinstance(st.value, ast.Constant) and isinstance(st.value.value, str):
                continue
            if isinstance(st, ast.If):
                t = st.test
                if self.is_isinstance(t):
                    out.append("SIfInst %s %s %s %s" % (self.exp(t.args[0]), CLASSES[t.args[1].id],
                                                       self.block(st.body), self.block(st.orelse)))
                    continue
                if isinstance(t, ast.Call) and isinstance(t.func, ast.Attribute) and t.func.attr == "isCollecting" \
                        and isinstance(t.func.value, ast.Name) and t.func.value.id == "Metrics" and not t.args:
                    out.append(self.metrics_block(st))
                    continue
                self.bad(st, "if-test outside the grammar")
            if isinstance(st, ast.Assign) and len(st.targets) == 1:
                e = self.exp(st.value)
                out.append("SAssign %s %s" % (self.target(st.targets[0], True), e))
                continue
            if isinstance(st, ast.AugAssign) and type(st.op) in BINOPS:
                e = self.exp(st.value)
                out.append("SAug %s %s %s" % (self.target(st.target, False), BINOPS[type(st.op)], e))
                continue
            if isinstance(st, ast.Assert) and st.msg is None and isinstance(st.test, ast.UnaryOp) \
                    and isinstance(st.test.op, ast.Not) and self.is_isinstance(st.test.operand):
                c = st.test.operand
                out.append("SAssertNotInst %s %s" % (self.exp(c.args[0]), CLASSES[c.args[1].id]))
                continue
            if isinstance(st, ast.Return):
                out.append("SReturn %s" % (self.exp(st.value) if st.value is not None else "ENone"))
                continue
            self.bad(st, "statement outside the grammar")
        return out

    def block(self, body):
        items = self.stmts(body)
        return "[" + "; ".join(items) + "]" if items else "[]"

    def run(self):
        return self.block(self.fn.body)


def translate_class(path, clsname):
    """-> (list of (method name, (kind, op), coq term), legacy names, notes)"""
    src = open(path).read()
    mod = ast.parse(src, filename=path)
    cls = [n for n in mod.body if isinstance(n, ast.ClassDef) and n.name == clsname]
    if len(cls) != 1:
        raise TranslateError("class %s not found exactly once in %s" % (clsname, path))
    cls = cls[0]
    if cls.bases:
        raise TranslateError("class %s has base classes: inherited operators are outside the grammar" % clsname)
    if cls.decorator_list or cls.keywords:
        raise TranslateError("class %s: decorators/metaclass outside the grammar" % clsname)
    table, legacy, seen = [], [], set()
    for node in cls.body:
        if isinstance(node, ast.Expr) and isinstance(node.value, ast.Constant) and isinstance(node.value.value, str):
            continue
        if not isinstance(node, (ast.FunctionDef,)):
            raise TranslateError("class %s line %s: class-level statement outside the grammar: %s" % (
                clsname, getattr(node, "lineno", "?"), ast.dump(node)[:120]))
        name = node.name
        if name in seen:
            raise TranslateError("%s.%s defined twice" % (clsname, name))
        seen.add(name)
        if (clsname, name) in ANCHORED:
            h = body_hash(node)
            if h != ANCHORED[(clsname, name)]:
                raise TranslateError("%s.%s changed (body hash %s): its behaviour is hard-wired in "
                                     "Model/C11PyOps.v and must be re-modelled" % (clsname, name, h))
            continue
        if name == "__ilshift__":
            table.append((name, ("KInplace", "OLshift"), MethodTranslator(clsname, name, node).run()))
            continue
        if name in METHODS:
            table.append((name, METHODS[name], MethodTranslator(clsname, name, node).run()))
            continue
        if name in LEGACY:
            legacy.append(name)
            continue
        if name in IGNORED[clsname] and name not in REFUSE:
            continue
        if name.startswith("__") and name.endswith("__"):
            raise TranslateError("%s.%s: unknown special method; it may change operator dispatch" % (clsname, name))
        # an ordinary (non-dunder) helper method cannot be reached by operator dispatch
    missing = [k for k in ANCHORED if k[0] == clsname and k[1] not in seen]
    if missing:
        raise TranslateError("hard-wired methods missing: %r" % (missing,))
    return table, legacy


HEADER = """(* GENERATED by harness/c11_translate.py from %s — do not edit.
   Regenerated from $VERIF_REPO on every ./check C11; git-ignored. *)
From Coq Require Import ZArith List.
From FT Require Import Model.C11PyOps.
Import ListNotations.

"""


def emit(table, legacy, relpath, defname):
    out = [HEADER % relpath]
    out.append("Definition %s : mtable := [" % defname)
    rows = []
    for name, (kind, op), term in table:
        rows.append("  (* %s *)\n  ((%s, %s), %s)" % (name, kind, op, term))
    out.append(";\n".join(rows))
    out.append("].\n")
    out.append("(* Python-2 operator names present in the class (dead in Python 3, not translated): %s *)\n"
               % (", ".join(legacy) or "none"))
    out.append("Definition %s_legacy_count : nat := %d%%nat.\n" % (defname, len(legacy)))
    return "\n".join(out)


def write_if_changed(path, text):
    old = open(path).read() if os.path.exists(path) else None
    if old != text:
        os.makedirs(os.path.dirname(path), exist_ok=True)
        tmp = path + ".tmp%d" % os.getpid()
        open(tmp, "w").write(text)
        os.replace(tmp, path)


def pregen(repo, coqdir):
    jobs = [("fibertree/core/payload.py", "Payload", "payload_table", "C11PayloadOps.v"),
            ("fibertree/core/coord_payload.py", "CoordPayload", "coordpayload_table", "C11CoordPayloadOps.v")]
    texts = []
    for rel, cls, defname, fname in jobs:
        table, legacy = translate_class(os.path.join(repo, rel), cls)
        texts.append((os.path.join(coqdir, "Gen", fname), emit(table, legacy, rel, defname)))
    # write only when every class translated (fail closed: keep nothing half-new)
    for path, text in texts:
        write_if_changed(path, text)


if __name__ == "__main__":
    import sys
    repo = sys.argv[1] if len(sys.argv) > 1 else os.environ.get("VERIF_REPO", "/repo")
    if "--hashes" in sys.argv:
        for (cls, name) in ANCHORED:
            rel = "fibertree/core/payload.py" if cls == "Payload" else "fibertree/core/coord_payload.py"
            mod = ast.parse(open(os.path.join(repo, rel)).read())
            c = [n for n in mod.body if isinstance(n, ast.ClassDef) and n.name == cls][0]
            fn = [n for n in c.body if isinstance(n, ast.FunctionDef) and n.name == name][0]
            print(cls, name, body_hash(fn))
    else:
        pregen(repo, os.path.join(os.path.dirname(os.path.dirname(os.path.abspath(__file__))), "coq"))
        print("ok")
