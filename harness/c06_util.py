"""c06_util — einsum family, loop-nest source generator (library idiom) and a brute-force
dense reference used only for self-tests of the harness (the check's oracle is in Coq).

Encoding (shared with coq/Model/C06Kernel.v):
  base index variables are 0,1,2,...; the loop variable of an untiled variable v (and the
  lower, in-tile variable of a tiled one) is 2*v, the upper (tile) variable of a tiled v
  is 2*v+1.  A loop order is a list of loop variables.
  style 0: nested `a & b & c`; 1: Fiber.intersection(a, b, c) (two-finger, flattened);
  style 2: Fiber.intersection(..., style="leader-follower") with zero products filtered.
"""
import itertools

NAMES = ["M", "K", "N", "P"]


def lname(l):
    return NAMES[l // 2]


def rank_name(l, tiled):
    """rank id of loop variable l in a swizzled/split tensor"""
    v = l // 2
    if v in tiled:
        return NAMES[v] + (".1" if l % 2 else ".0")
    return NAMES[v]


def op_lvars(case, bs):
    return [l for l in case["order"] if l // 2 in bs]


def tiled_of(case):
    return {v: s for v, s in case["tiles"]}


def nest_source(case):
    """Python source of the loop nest in the library idiom.  Free names: Z, T (list of the
    transformed operand tensors), Fiber."""
    order = case["order"]
    ops = [op_lvars(case, bs) for bs in case["ops"]]
    zv = op_lvars(case, case["out"])
    style = case["style"]
    lines = ["z = Z.getRoot()"]
    cur = []
    for j in range(len(ops)):
        lines.append("x%d = T[%d].getRoot()" % (j, j))
        cur.append("x%d" % j)
    pos = [0] * len(ops)
    zpos = 0
    zcur = "z"
    ind = ""
    for d, l in enumerate(order):
        act = [j for j in range(len(ops)) if pos[j] < len(ops[j]) and ops[j][pos[j]] == l]
        assert act, "loop variable without operand"
        new = {j: "x%d_%d" % (j, d) for j in act}
        if len(act) == 1:
            expr = cur[act[0]]
            pat = new[act[0]]
        elif style == 0:
            expr = " & ".join(cur[j] for j in act)
            pat = new[act[0]]
            for j in act[1:]:
                pat = "(%s, %s)" % (pat, new[j])
        else:
            expr = "Fiber.intersection(%s%s)" % (
                ", ".join(cur[j] for j in act),
                ', style="leader-follower"' if style == 2 else "")
            pat = "(%s)" % ", ".join(new[j] for j in act)
        cvar = "c%d" % l
        if zpos < len(zv) and zv[zpos] == l:
            znew = "z_%d" % d
            if len(act) > 1 and style == 0:
                expr = "(%s)" % expr      # << binds tighter than &
            lines.append("%sfor %s, (%s, %s) in %s << %s:" % (ind, cvar, znew, pat, zcur, expr))
            zcur = znew
            zpos += 1
        else:
            lines.append("%sfor %s, %s in %s:" % (ind, cvar, pat, expr))
        for j in act:
            cur[j] = new[j]
            pos[j] += 1
        ind += "    "
    prod = " * ".join(cur)
    if style == 2:
        lines.append("%sp = %s" % (ind, prod))
        lines.append("%sif p != 0:" % ind)
        lines.append("%s    %s += p" % (ind, zcur))
    else:
        lines.append("%s%s += %s" % (ind, zcur, prod))
    return "\n".join(lines) + "\n"


def prepare(case):
    """build the real operand tensors (original rank order), split and swizzle them to the
    loop order; build the empty output.  returns (Z, [T_j])"""
    import ftutil as U
    from fibertree import Tensor
    tiled = tiled_of(case)
    shape = case["shape"]
    Ts = []
    for j, (bs, tree) in enumerate(zip(case["ops"], case["trees"])):
        # est: the operand's shape is not declared - Tensor.fromFiber(rank_ids, fiber) estimates it from
        # the stored coordinates (per rank, over all fibers of the rank)
        declared = not (case.get("est") or [False] * (j + 1))[j]
        T = U.build_tensor(tree, len(bs), [shape[v] for v in bs] if declared else None, 0,
                           rank_ids=[NAMES[v] for v in bs])
        for v in bs:
            if v in tiled:
                T = T.splitUniform(tiled[v], rankid=NAMES[v])
        want = [rank_name(l, tiled) for l in op_lvars(case, bs)]
        T = T.swizzleRanks(want)
        Ts.append(T)
    zv = op_lvars(case, case["out"])
    Z = Tensor(rank_ids=[rank_name(l, tiled) for l in zv], shape=[shape[l // 2] for l in zv])
    return Z, Ts


def run_nest(case):
    from fibertree import Fiber
    Z, Ts = prepare(case)
    src = nest_source(case)
    env = {"Z": Z, "T": Ts, "Fiber": Fiber}
    exec(compile(src, "<c06-nest>", "exec"), env)
    return Z, Ts


# ---------------------------------------------------------------- brute force (self-test only)

def lit_get(tree, pt):
    t = tree
    for c in pt:
        if isinstance(t, int):
            return 0
        for cc, s in t:
            if cc == c:
                t = s
                break
        else:
            return 0
    return t if isinstance(t, int) else 0


def brute_dense(case):
    """{tiled output point (loop order): value != 0}"""
    shape = case["shape"]
    tiled = tiled_of(case)
    allv = sorted({v for bs in case["ops"] for v in bs})
    zv = op_lvars(case, case["out"])
    res = {}
    for vals in itertools.product(*[range(shape[v]) for v in allv]):
        env = dict(zip(allv, vals))
        p = 1
        for bs, tree in zip(case["ops"], case["trees"]):
            p *= lit_get(tree, [env[v] for v in bs])
        if p:
            pt = tuple((env[l // 2] // tiled[l // 2]) * tiled[l // 2] if l % 2 else env[l // 2] for l in zv)
            res[pt] = res.get(pt, 0) + p
    return {k: v for k, v in res.items() if v}
