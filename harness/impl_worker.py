"""impl_worker — runs one shard of cases of one property against the implementation imported
from /repo's current working tree.  usage: impl_worker.py PROP IN.json OUT.json

Every case is run under its own alarm; an exception that escapes the property module's own
handling, or a time-out, becomes the observation [-1, code] so that it is compared (and
differs) like any other behaviour."""
import sys, os, json, signal, io, contextlib, importlib, traceback

HERE = os.path.dirname(os.path.abspath(__file__))
REPO = os.environ.get("VERIF_REPO", "/repo")
sys.path.insert(0, HERE)
sys.path.insert(0, REPO)

ERR_TIMEOUT = 98
ERR_UNCAUGHT = 99


class _Timeout(BaseException):   # not an Exception: property modules catch Exception around API calls
    pass


def _alarm(signum, frame):
    raise _Timeout()


def main():
    prop, fin, fout = sys.argv[1], sys.argv[2], sys.argv[3]
    per_case = int(os.environ.get("VERIF_CASE_TIMEOUT", "20"))
    mod = importlib.import_module("props." + prop.lower())  # prop = module name under props/
    import fibertree  # noqa: F401  (fail early and loudly if /repo does not import)
    assert os.path.realpath(fibertree.__file__).startswith(os.path.realpath(REPO)), fibertree.__file__
    cases = json.load(open(fin))
    import ftutil as U
    signal.signal(signal.SIGALRM, _alarm)
    out = []
    notes = []
    timeouts = 0
    for i, case in enumerate(cases):
        sink = io.StringIO()
        if timeouts >= 3:
            # a tree that hangs on case after case: do not spend len(cases) x timeout on it;
            # the remaining cases are reported as timed out (a failure like any other)
            out.append([-1, ERR_TIMEOUT])
            notes.append([i, "not run: 3 cases of this shard already timed out"])
            continue
        try:
            signal.alarm(per_case)
            U.set_mode(mod, case)
            with contextlib.redirect_stdout(sink):
                obs = U.norm_obs(mod.run_impl(case))
            signal.alarm(0)
        except _Timeout:
            obs = [-1, ERR_TIMEOUT]
            notes.append([i, "timeout"])
            timeouts += 1
        except BaseException as e:  # incl. SystemExit from the YAML loaders
            signal.alarm(0)
            obs = [-1, ERR_UNCAUGHT]
            notes.append([i, "".join(traceback.format_exception_only(type(e), e)).strip()[:300]])
        out.append(obs)
    json.dump({"obs": out, "notes": notes}, open(fout, "w"))


if __name__ == "__main__":
    main()
