#!/venv/bin/python
"""check.py — single entry point of the verification machinery.

    ./check Cxx [--tier quick|thorough] [--replay FILE]
    ./check --setup

One run = (1) build the Coq development (full .vo build, incremental), (2) audit the
property file (theorem names present, Print Assumptions closed, no Admitted/Axiom/...),
(3) correspondence + oracle: generate cases, run them on the implementation imported from
/repo's working tree, evaluate the Gallina model and the Coq-defined property oracle on the
same cases inside coqc (vm_compute), (4) verdicts, evidence.  See DESIGN.md section 5."""
import sys, os, json, time, random, hashlib, subprocess, importlib, re, glob, fcntl, shutil
import argparse, threading
from concurrent.futures import ThreadPoolExecutor

VERIF = os.path.dirname(os.path.dirname(os.path.abspath(__file__)))
HARNESS = os.path.join(VERIF, "harness")
COQ = os.path.join(VERIF, "coq")
BUILD = os.path.join(VERIF, "build")
REPO = os.environ.get("VERIF_REPO", "/repo")
# runs against another tree than /repo (developers' worktrees, seeded changes) must not
# overwrite the committed evidence or litter /verif/replays
SCRATCH = os.environ.get("VERIF_SCRATCH") == "1" or os.path.realpath(REPO) != "/repo"
PY = "/venv/bin/python"
sys.path.insert(0, HARNESS)
import coqlit  # noqa: E402

FORBIDDEN = re.compile(
    r"\b(Admitted|admit|Axiom|Axioms|Parameter|Parameters|Conjecture|Conjectures|"
    r"Admit Obligations|bypass_check|native_compute)\b|Unset\s+Guard|Unset\s+Positivity|"
    r"Unset\s+Universe|type-in-type|impredicative-set")
ALLOWED_AXIOMS = []   # DESIGN.md section 7: none expected


def log(*a):
    print(*a, flush=True)


def sh(cmd, timeout, cwd=None, env=None):
    try:
        p = subprocess.run(cmd, cwd=cwd, env=env, timeout=timeout, stdout=subprocess.PIPE,
                           stderr=subprocess.STDOUT, text=True)
        return p.returncode, p.stdout
    except subprocess.TimeoutExpired as e:
        out = e.stdout if isinstance(e.stdout, str) else (e.stdout or b"").decode("utf8", "replace")
        return 124, out + "\n[timeout after %ss]" % timeout


# ----------------------------------------------------------------------------- build

def coq_sources():
    fs = []
    for d in ("Model", "Gen", "Proofs", "Properties"):
        fs += sorted(glob.glob(os.path.join(COQ, d, "*.v")))
    return [os.path.relpath(f, COQ) for f in fs]


def write_coqproject():
    txt = "-Q . FT\n" + "\n".join(coq_sources()) + "\n"
    p = os.path.join(COQ, "_CoqProject")
    old = open(p).read() if os.path.exists(p) else None
    if old != txt or not os.path.exists(os.path.join(COQ, "Makefile")):
        open(p, "w").write(txt)
        rc, out = sh(["coq_makefile", "-f", "_CoqProject", "-o", "Makefile"], 120, cwd=COQ)
        if rc != 0:
            raise RuntimeError("coq_makefile failed:\n" + out)


class Lock:
    def __enter__(self):
        os.makedirs(BUILD, exist_ok=True)
        self.f = open(os.path.join(BUILD, ".lock"), "w")
        fcntl.flock(self.f, fcntl.LOCK_EX)
        return self

    def __exit__(self, *a):
        fcntl.flock(self.f, fcntl.LOCK_UN)
        self.f.close()


def build(targets=None, pregen=None):
    """full .vo build (never -vos).  returns (ok, log)"""
    with Lock():
        if pregen is not None:
            pregen()
        write_coqproject()
        cmd = ["make", "-j16", "-k"] + (targets or [])
        rc, out = sh(cmd, 3000, cwd=COQ)
        return rc == 0, out


def vo_exists(rel):
    """the .vo exists AND is up to date with respect to its sources (make -q)"""
    vo = rel[:-2] + ".vo"
    if not os.path.exists(os.path.join(COQ, vo)):
        return False
    rc, _ = sh(["make", "-q", vo], 120, cwd=COQ)
    return rc == 0


# ----------------------------------------------------------------------------- audit

def transitive_sources(targets):
    """the .v files that the given .v targets depend on (transitively), from coq_makefile's
    dependency file; falls back to every source if it cannot be read"""
    dep = os.path.join(COQ, ".Makefile.d")
    if not os.path.exists(dep):
        return coq_sources()
    graph = {}
    for line in open(dep).read().replace("\\\n", " ").splitlines():
        if ":" not in line:
            continue
        lhs, rhs = line.split(":", 1)
        outs = [x for x in lhs.split() if x.endswith(".vo")]
        deps = [x[:-3] + ".v" for x in rhs.split() if x.endswith(".vo") and not x.startswith("/")]
        for o in outs:
            graph.setdefault(o[:-3] + ".v", set()).update(deps)
    seen, todo = set(), list(targets)
    while todo:
        t = todo.pop()
        if t in seen:
            continue
        seen.add(t)
        todo += list(graph.get(t, ()))
    have = set(coq_sources())
    return sorted(x for x in seen if x in have) or coq_sources()


def audit(mod, rundir, targets=None):
    """returns dict: theorems -> assumptions text, plus problems list"""
    problems = []
    # 1. forbidden constructs anywhere in what this property's theorems and checker depend on
    for rel in (transitive_sources(targets) if targets else coq_sources()):
        src = open(os.path.join(COQ, rel)).read()
        # strip comments (nested)
        src_nc = strip_comments(src)
        for m in FORBIDDEN.finditer(src_nc):
            problems.append("forbidden construct %r in coq/%s" % (m.group(0), rel))
    # 2. property theorems: present, statement, assumptions
    lines = ["From FT Require Import Properties.%s." % mod.ID]
    for k, t in enumerate(mod.THEOREMS):
        lines.append('Definition MARK_%d := tt. Check MARK_%d.' % (k, k))
        lines.append('Check %s.' % t)
        lines.append('Definition MARKA_%d := tt. Check MARKA_%d.' % (k, k))
        lines.append('Print Assumptions %s.' % t)
    lines.append('Definition MARK_END := tt. Check MARK_END.')
    name = "Audit_%s_%d" % (mod.ID, os.getpid())
    f = os.path.join(rundir, name + ".v")
    open(f, "w").write("\n".join(lines) + "\n")
    rc, out = sh(["coqc", "-Q", COQ, "FT", f], 900, cwd=rundir)
    res = {}
    if rc != 0:
        # find which theorems are missing/broken by auditing them one at a time
        for t in mod.THEOREMS:
            open(f, "w").write("From FT Require Import Properties.%s.\nCheck %s.\nPrint Assumptions %s.\n" % (mod.ID, t, t))
            rc1, out1 = sh(["coqc", "-Q", COQ, "FT", f], 900, cwd=rundir)
            if rc1 != 0:
                problems.append("theorem %s: %s" % (t, " ".join(out1.split())[-300:]))
            else:
                m = re.search(r"(?s):(.*?)(Closed under the global context|Axioms:.*)", out1)
                res[t] = {"statement": " ".join(m.group(1).split()), "assumptions": " ".join(m.group(2).split())}
    else:
        parts = re.split(r"MARKA?_(?:\d+|END)\s*:\s*unit\s*", out)
        # parts[0] = preamble, then (statement, assumptions) pairs
        for k, t in enumerate(mod.THEOREMS):
            stmt = " ".join(parts[1 + 2 * k].split())
            ass = " ".join(parts[2 + 2 * k].split())
            res[t] = {"statement": stmt, "assumptions": ass}
    for t, r in res.items():
        if not r["assumptions"].startswith("Closed under the global context"):
            axs = re.findall(r"^(\S+)\s*:", r["assumptions"].replace("Axioms:", "\n"), re.M)
            if not ALLOWED_AXIOMS or not all(a in ALLOWED_AXIOMS for a in axs):
                problems.append("theorem %s depends on axioms: %s" % (t, r["assumptions"][:300]))
    return res, problems, out


def strip_comments(src):
    out = []
    depth = 0
    i = 0
    n = len(src)
    while i < n:
        if src.startswith("(*", i):
            depth += 1
            i += 2
        elif src.startswith("*)", i) and depth > 0:
            depth -= 1
            i += 2
        else:
            if depth == 0:
                out.append(src[i])
            i += 1
    return "".join(out)


# ----------------------------------------------------------------------------- evaluation

def chash(case):
    return hashlib.sha1(json.dumps(case, sort_keys=True).encode()).hexdigest()


def run_worker(mod, cases, rundir, tag, timeout):
    fin = os.path.join(rundir, tag + ".in.json")
    fout = os.path.join(rundir, tag + ".out.json")
    json.dump(cases, open(fin, "w"))
    env = dict(os.environ)
    env["PYTHONPATH"] = REPO
    env["PYTHONHASHSEED"] = "0"
    env["VERIF_REPO"] = REPO
    env.update(getattr(mod, "IMPL_ENV", {}))
    cmd = [PY]
    if os.environ.get("VERIF_COVERAGE"):
        # measurement aid (tools/coverage.sh), never used by a registered check: which lines of
        # /repo's fibertree the implementation side of this property's streams executes
        cmd += ["-m", "coverage", "run", "-p", "--data-file=" + os.path.join(os.environ["VERIF_COVERAGE"], ".coverage"),
                "--include=" + os.path.join(REPO, "fibertree", "*")]
        timeout *= 4
    rc, out = sh(cmd + [os.path.join(HARNESS, "impl_worker.py"), getattr(mod, "MODNAME", mod.ID.lower()), fin, fout], timeout,
                 cwd=rundir, env=env)
    if rc == 0 and os.path.exists(fout):
        r = json.load(open(fout))
        return r["obs"], r["notes"], None
    return None, [], "worker rc=%s: %s" % (rc, out[-800:])


_RETRY_BUDGET = 2    # re-runs of timed-out cases per check run (a tree that really hangs stays bounded)


def impl_observations(mod, cases, rundir, tag):
    """observations of the implementation; a shard that dies or hangs is re-run case by case"""
    per = int(getattr(mod, "CASE_TIMEOUT", 20))
    obs, notes, err = run_worker(mod, cases, rundir, tag, timeout=max(120, per * 4 + len(cases)))
    if obs is not None:
        # a per-case alarm that fired on a busy machine is not a behaviour of the tree: the first few
        # timed-out cases of a shard are run again, alone, with three times the limit; only a case that
        # times out again keeps the time-out observation (a tree that really hangs still costs a bounded
        # amount: at most 2 such re-runs per check run)
        global _RETRY_BUDGET
        redo = [i for i, o in enumerate(obs) if o == [-1, 98]][:max(0, _RETRY_BUDGET)]
        for i in redo:
            _RETRY_BUDGET -= 1
            env_per = os.environ.get("VERIF_CASE_TIMEOUT")
            os.environ["VERIF_CASE_TIMEOUT"] = str(per * 3)
            try:
                o, n, e = run_worker(mod, [cases[i]], rundir, "%s_retry%d" % (tag, i), timeout=per * 3 + 45)
            finally:
                if env_per is None:
                    os.environ.pop("VERIF_CASE_TIMEOUT", None)
                else:
                    os.environ["VERIF_CASE_TIMEOUT"] = env_per
            if o is not None and o[0] != [-1, 98]:
                obs[i] = o[0]
                notes = [x for x in notes if x[0] != i] + [[i, "timed out under load, re-run alone: completed"]]
        return obs, notes
    if len(cases) == 1:
        return [[-1, 97]], [[0, "worker died: " + (err or "")[-200:]]]
    # the shard died or hung: find culprits one case at a time, but only among the first few
    # cases (a tree that hangs on everything must not cost len(cases) x timeout); the rest of
    # the shard is reported as not run, which is a failure of the check like any other
    obs, notes = [], []
    budget = 8
    for i, c in enumerate(cases):
        if budget <= 0:
            obs.append([-1, 97])
            notes.append([i, "not run: the worker of this shard died or hung (%s)" % (err or "")[-120:]])
            continue
        o, n, e = run_worker(mod, [c], rundir, "%s_%d" % (tag, i), timeout=per * 2 + 30)
        if o is None:
            o, n = [[-1, 97]], [[0, "worker died: " + (e or "")[-200:]]]
            budget -= 1
        elif o[0] == [-1, 98]:
            budget -= 1
        obs.append(o[0])
        notes += [[i, x[1]] for x in n]
    return obs, notes


def coq_eval(mod, body, rundir, tag, timeout=900):
    name = "Cases_%s_%s" % (mod.ID, re.sub(r"\W", "_", tag))
    f = os.path.join(rundir, name + ".v")
    hdr = ["From Coq Require Import ZArith List Bool.", "Import ListNotations.",
           "Open Scope Z_scope.", mod.COQ_IMPORTS]
    open(f, "w").write("\n".join(hdr) + "\n" + body + "\n")
    rc, out = sh(["bash", "-c", "ulimit -s unlimited 2>/dev/null; exec coqc -Q %s FT %s" % (COQ, f)],
                 timeout, cwd=rundir)
    for ext in (".vo", ".glob", ".vok", ".vos"):
        try:
            os.remove(os.path.join(rundir, name + ext))
        except OSError:
            pass
    return rc, out


def parse_zlist(out):
    """parse the result of `Eval vm_compute in (... : list Z)`"""
    m = re.search(r"=\s*(\[.*?\])\s*(%Z)?\s*:\s*list Z", out, re.S)
    if not m:
        return None
    return [int(x) for x in re.findall(r"-?\d+", m.group(1))]


def eval_shard(mod, cases, rundir, tag):
    """returns list of dict(case, obs, verdict, region, note) — one per case"""
    obs, notes = impl_observations(mod, cases, rundir, tag)
    notes_by = {}
    for i, n in notes:
        notes_by.setdefault(i, n)
    if hasattr(mod, "case_to_coq2"):
        items = ["  (%s, %s)" % (mod.case_to_coq2(c, o), coqlit.V(o)) for c, o in zip(cases, obs)]
    else:
        items = ["  (%s, %s)" % (mod.case_to_coq(c), coqlit.V(o)) for c, o in zip(cases, obs)]
    body = "Definition the_cases : list (%s * V) := [\n%s\n].\n" % (mod.CASE_TYPE, ";\n".join(items))
    body += "Eval vm_compute in (run_cases %s the_cases).\n" % mod.CHECKER
    rc, out = coq_eval(mod, body, rundir, tag)
    res = [dict(case=c, obs=o, verdict=0, region=0, note=notes_by.get(i)) for i, (c, o) in enumerate(zip(cases, obs))]
    zs = parse_zlist(out) if rc == 0 else None
    if zs is None:
        # the model side could not be evaluated: every case of the shard is undecided
        for r in res:
            r["verdict"] = -1
            r["note"] = "coqc failed on the cases file: " + out[-500:]
        return res
    for j in range(0, len(zs), 3):
        i, v, reg = zs[j:j + 3]
        res[i]["verdict"] = v
        res[i]["region"] = reg
    return res


def model_observation(mod, case, rundir, tag="modelobs", obs=None):
    lit = mod.case_to_coq2(case, obs) if (hasattr(mod, "case_to_coq2") and obs is not None) else mod.case_to_coq(case)
    body = "Eval vm_compute in (V_flat (model %s %s)).\n" % (mod.CHECKER, lit)
    rc, out = coq_eval(mod, body, rundir, tag)
    zs = parse_zlist(out) if rc == 0 else None
    if zs is None:
        return None
    try:
        return coqlit.unflat(zs)
    except Exception:
        return None


def evaluate(mod, cases, rundir, tag, shard=None, workers=16):
    shard = shard or getattr(mod, "SHARD", 250)
    shards = [cases[i:i + shard] for i in range(0, len(cases), shard)]
    results = [None] * len(shards)

    def job(k):
        results[k] = eval_shard(mod, shards[k], rundir, "%s_%d" % (tag, k))

    with ThreadPoolExecutor(max_workers=workers) as ex:
        list(ex.map(job, range(len(shards))))
    out = []
    for r in results:
        out += r
    return out


# ----------------------------------------------------------------------------- known findings

def load_known(prop):
    p = os.path.join(VERIF, "known_findings.json")
    if not os.path.exists(p):
        return []
    return [k for k in json.load(open(p)) if k.get("property") == prop]


# ----------------------------------------------------------------------------- shrinking

def shrink(mod, item, rundir, bit, budget_s=60):
    """greedy shrink of a failing case, keeping `verdict & bit` set; uses mod.shrinks"""
    if not hasattr(mod, "shrinks"):
        return item
    t0 = time.time()
    cur = item
    rounds = 0
    while time.time() - t0 < budget_s and rounds < 40:
        rounds += 1
        cands = list(mod.shrinks(cur["case"]))[:200]
        if not cands:
            break
        res = evaluate(mod, cands, rundir, "shrink%d" % rounds, shard=50)
        better = [r for r in res if r["verdict"] > 0 and (r["verdict"] & bit) and r["region"] == cur["region"]]
        if not better:
            break
        cur = min(better, key=lambda r: len(json.dumps(r["case"])))
        cur["mod"] = mod
    return cur


# ----------------------------------------------------------------------------- main check

def write_replay(mod, kind, item, extra=None):
    rdir = os.path.join(BUILD, "scratch-replays") if SCRATCH else os.path.join(VERIF, "replays")
    os.makedirs(rdir, exist_ok=True)
    h = chash(item["case"])[:12] if item else hashlib.sha1(json.dumps(extra, sort_keys=True).encode()).hexdigest()[:12]
    path = os.path.join(rdir, "%s-%s-%s.json" % (mod.ID, kind, h))
    doc = {"property": mod.ID, "kind": kind, "module": getattr(mod, "MODNAME", mod.ID.lower())}
    if item:
        doc.update(case=item["case"], impl_observation=item["obs"], verdict=item["verdict"],
                   region=item["region"], note=item.get("note"))
        if hasattr(mod, "repro_py"):
            try:
                doc["python_repro"] = mod.repro_py(item["case"])
            except Exception as e:  # pragma: no cover
                doc["python_repro"] = "unavailable: %r" % (e,)
    if extra:
        doc.update(extra)
    json.dump(doc, open(path, "w"), indent=1)
    return path


def validate_evidence(path):
    schema = "/root/.vp/EVIDENCE.schema.json"
    if not os.path.exists(schema) or not shutil.which("python3-vt"):
        return True, "schema or validator not available; not validated"
    code = ("import json,jsonschema,sys; jsonschema.validate(json.load(open(sys.argv[1])),"
            "json.load(open(sys.argv[2])))")
    rc, out = sh(["python3-vt", "-c", code, path, schema], 120)
    return rc == 0, out[-500:]


def run_check(prop, tier, replay=None):
    t0 = time.time()
    seed = int(os.environ.get("VERIF_SEED", "20261001"))
    mod = importlib.import_module("props." + prop.lower())
    rundir = os.path.join(BUILD, "run", "%s-%s-%d" % (prop, tier, os.getpid()))
    os.makedirs(rundir, exist_ok=True)
    keep_rundir = False
    violations = []        # (replay path, suffix)
    known_lines = []
    broken = []            # descriptions of broken obligations / correspondence

    # ---- 1. build (only what this property needs: its property file and checker modules,
    #         with their dependencies; ./check --setup builds everything)
    mods = [mod] + [importlib.import_module("props." + m) for m in getattr(mod, "EXTRA", [])]
    all_check_vo = []
    for m_ in mods:
        all_check_vo += list(getattr(m_, "CHECK_VO", []))
    prop_vo = "Properties/%s.v" % prop
    needed = [prop_vo] + all_check_vo
    targets = [n[:-2] + ".vo" for n in needed]
    pregen_err = None

    def pregen_safe():
        nonlocal pregen_err
        if hasattr(mod, "pregen"):
            try:
                mod.pregen(REPO, COQ)
            except Exception as e:
                pregen_err = "translator aborted: %r" % (e,)
    ok, blog = build(targets=targets, pregen=pregen_safe)
    if pregen_err:
        broken.append(pregen_err)
    if not ok:
        missing = [n for n in needed if not vo_exists(n)]
        if missing:
            m = re.findall(r"(File \"[^\"]+\", line \d+.*?\n(?:.*\n){0,6}?Error:.*?(?:\n.*){0,4})", blog)
            broken.append("proof obligation no longer checks: %s did not build. %s" %
                          (", ".join(missing), (m[0] if m else blog[-800:])[:1200]))
    # ---- 2. audit
    thm, problems, audit_out = ({}, [], "")
    if vo_exists(prop_vo):
        thm, problems, audit_out = audit(mod, rundir, targets=needed)
        for p in problems:
            broken.append("audit: " + p)
    obligations = len(mod.THEOREMS)
    discharged = sum(1 for t in mod.THEOREMS if t in thm and thm[t]["assumptions"].startswith("Closed"))

    # ---- 3. streams
    rng = random.Random("%d/%s/%s" % (seed, prop, tier))
    checker_ok = all(vo_exists(v) for v in all_check_vo)
    stats = dict(evaluations=0, agree=0, disagreements=0, oracle_false=0, undecided=0, known=0)
    distinct = set()
    samples = []
    streams_info = []
    all_results = []
    known = load_known(prop)
    known_by_region = {k["region"]: k for k in known if k.get("status") == "known"}
    dist = {}

    if replay:
        doc = json.load(open(replay))
        rmod = next((m_ for m_ in mods if getattr(m_, "MODNAME", m_.ID.lower()) == doc.get("module")), mod)
        stream_list = [(rmod, "replay", [doc["case"]] if "case" in doc else [], False)]
    else:
        corpus = []
        for f in sorted(glob.glob(os.path.join(VERIF, "corpus", prop, "*.json"))):
            d = json.load(open(f))
            corpus += d["cases"] if "cases" in d else [d["case"]]
        stream_list = ([(mod, "corpus", corpus, False)] if corpus else [])
        for m_ in mods:
            stream_list += [(m_, n_, c_, e_) for (n_, c_, e_) in m_.streams(tier, rng)]

    if not checker_ok:
        broken.append("model/checker .vo missing (%s): the correspondence cannot be evaluated" %
                      ", ".join(v for v in all_check_vo if not vo_exists(v)))
    else:
        for smod, name, cases, exhaustive in stream_list:
            if not cases:
                continue
            res = evaluate(smod, cases, rundir, name)
            n_bad = 0
            for r in res:
                stats["evaluations"] += 1
                h = chash(r["case"])
                r["mod"] = smod
                if h not in distinct and smod.nontrivial(r["case"]):
                    distinct.add(h)
                if hasattr(smod, "describe"):
                    for k, v in smod.describe(r["case"]).items():
                        dist.setdefault(k, {}).setdefault(str(v), 0)
                        dist[k][str(v)] += 1
                if r["verdict"] == 0:
                    stats["agree"] += 1
                    if len(samples) < 3 and smod.nontrivial(r["case"]):
                        samples.append({"stream": name, "case": r["case"], "impl_observation": r["obs"],
                                        "model_observation": "equal to impl_observation (V_eqb)"})
                else:
                    n_bad += 1
                r["stream"] = name
            streams_info.append({"stream": name, "cases": len(cases), "exhaustive": bool(exhaustive),
                                 "nonzero_verdicts": n_bad})
            all_results += [r for r in res if r["verdict"] != 0]

    # ---- 4. verdicts
    failing = []     # property fails on the implementation's observation
    disagree = []    # behaviour differs from the model, oracle true
    for r in all_results:
        v = r["verdict"]
        if v < 0:
            stats["undecided"] += 1
            broken.append("cases file could not be evaluated (stream %s): %s" % (r["stream"], (r.get("note") or "")[:300]))
            continue
        if v & 1:
            stats["oracle_false"] += 1
            if r["region"] in known_by_region:
                stats["known"] += 1
                k = known_by_region[r["region"]]
                k.setdefault("_hits", []).append(r)
                continue
            failing.append(r)
        elif v & 2:
            stats["disagreements"] += 1
            disagree.append(r)
        elif v & 4 and r["region"] not in known_by_region:
            broken.append("model observation fails the oracle although the theorem says it cannot (case %s)" % chash(r["case"])[:12])

    for k in known:
        if k.get("status") == "known" and k.get("_hits"):
            known_lines.append("KNOWN-FINDING: property=%s %s: %s (reproduced on %d case(s) this run)" %
                               (prop, k["id"], k["what_fails"], len(k["_hits"])))

    if failing:
        keep_rundir = False
        first = min(failing, key=lambda r: len(json.dumps(r["case"])))
        fm = first.get("mod", mod)
        small = shrink(fm, first, rundir, 1, budget_s=45 if tier == "quick" else 240)
        small["model_observation"] = model_observation(fm, small["case"], rundir, obs=small["obs"])
        path = write_replay(fm, "fails", small, {"model_observation": small["model_observation"],
                                                 "failing_cases_this_run": len(failing)})
        violations.append((path, ""))
    elif disagree or broken:
        # a broken proof/correspondence is not by itself a violation: search first
        found = None
        if checker_ok and hasattr(mod, "search"):
            budget = 40 if tier == "quick" else 600
            ts = time.time()
            rnd = 0
            while time.time() - ts < budget and not found:
                rnd += 1
                cands = mod.search([r["case"] for r in disagree[:20]], rng, rnd)
                if not cands:
                    break
                res = evaluate(mod, cands, rundir, "search%d" % rnd)
                stats["evaluations"] += len(res)
                bad = [r for r in res if r["verdict"] > 0 and (r["verdict"] & 1) and r["region"] not in known_by_region]
                if bad:
                    found = min(bad, key=lambda r: len(json.dumps(r["case"])))
        if found:
            small = shrink(mod, found, rundir, 1)
            small["model_observation"] = model_observation(mod, small["case"], rundir, obs=small["obs"])
            path = write_replay(mod, "fails", small, {"model_observation": small["model_observation"],
                                                      "found_by": "search after a broken correspondence/proof"})
            violations.append((path, ""))
        else:
            extra = {"broken": broken[:10]}
            item = None
            if disagree:
                item = min(disagree, key=lambda r: len(json.dumps(r["case"])))
                im = item.get("mod", mod)
                item = shrink(im, item, rundir, 2, budget_s=30)
                item["model_observation"] = model_observation(im, item["case"], rundir, obs=item["obs"])
                extra["correspondence"] = ("implementation and model (%s) differ on this case; the property "
                                           "oracle is still true on the implementation's observation" % im.CHECKER)
                extra["model_observation"] = item["model_observation"]
                extra["first_difference"] = first_diff(item["obs"], item["model_observation"])
                extra["disagreeing_cases_this_run"] = len(disagree)
            path = write_replay(item.get("mod", mod) if item else mod, "broken", item, extra)
            violations.append((path, " no-failing-input-found"))

    # ---- 5. thorough: independent re-check
    coqchk_out = None
    if tier == "thorough" and vo_exists(prop_vo) and not replay:
        rc, out = sh(["coqchk", "-silent", "-o", "-Q", COQ, "FT", "FT.Properties.%s" % prop], 3000, cwd=COQ)
        coqchk_out = out[-1500:]
        if rc != 0:
            broken.append("coqchk failed: " + out[-500:])
            if not violations:
                path = write_replay(mod, "broken", None, {"broken": broken})
                violations.append((path, " no-failing-input-found"))

    # ---- 6. evidence + verdict lines
    wall = time.time() - t0
    if not replay:
        ev = {
            "property_id": prop, "tier": tier, "seed": seed, "level": "proof",
            "coverage": {
                "obligations": obligations, "discharged": discharged,
                "checker_cmd": "make -C coq (coqc 8.16.1, full .vo build) + coqc Audit_%s.v (Check / Print Assumptions of every property theorem)%s" % (prop, "; coqchk -o FT.Properties.%s" % prop if tier == "thorough" else ""),
                "trusted_base": mod.TRUSTED,
                "theorems": thm,
                "evaluations": stats["evaluations"],
                "distinct_nontrivial": len(distinct),
                "rule": mod.RULE,
                "samples": samples if samples else [{"note": "no agreeing non-trivial case this run"}],
                "traces_validated_against_impl": stats["agree"],
                "disagreements_checked": stats["disagreements"],
                "oracle_false": stats["oracle_false"],
                "known_findings_reproduced": stats["known"],
                "streams": streams_info,
                "exhaustive": any(s["exhaustive"] for s in streams_info),
                "distribution": dist,
                "broken": broken,
                "coqchk": coqchk_out,
                "explanation": getattr(mod, "EXPLANATION", ""),
            },
            "assumptions": mod.ASSUMPTIONS,
            "wall_s": round(wall, 2),
            "violations": len(violations),
        }
        edir = os.path.join(BUILD, "scratch-evidence") if SCRATCH else os.path.join(VERIF, "evidence")
        os.makedirs(edir, exist_ok=True)
        evp = os.path.join(edir, prop + ".json")
        json.dump(ev, open(evp, "w"), indent=1)
        okv, msg = validate_evidence(evp)
        if not okv:
            log("evidence file does not validate: " + msg)

    for l in known_lines:
        log(l)
    log("%s tier=%s seed=%d: theorems %d/%d closed; %d cases (%d distinct non-trivial), %d agree, "
        "%d differ from model, %d fail the property (%d in known regions); %.1fs" %
        (prop, tier, seed, discharged, obligations, stats["evaluations"], len(distinct), stats["agree"],
         stats["disagreements"], stats["oracle_false"], stats["known"], wall))
    for b_ in broken[:5]:
        log("  broken: " + b_[:400].replace("\n", " | "))
    if not keep_rundir:
        shutil.rmtree(rundir, ignore_errors=True)
    if violations:
        for path, suffix in violations:
            log("VIOLATION property=%s replay=%s%s" % (prop, path, suffix))
        return 1
    return 0


def first_diff(a, b, path=()):
    if type(a) != type(b) or not isinstance(a, list):
        return None if a == b else {"at": list(path), "impl": a, "model": b}
    for i, (x, y) in enumerate(zip(a, b)):
        d = first_diff(x, y, path + (i,))
        if d:
            return d
    if len(a) != len(b):
        return {"at": list(path), "impl_len": len(a), "model_len": len(b)}
    return None


def setup():
    def pregen_all():
        for f in sorted(glob.glob(os.path.join(HARNESS, "props", "c*.py"))):
            mod = importlib.import_module("props." + os.path.basename(f)[:-3])
            if hasattr(mod, "pregen"):
                try:
                    mod.pregen(REPO, COQ)
                except Exception as e:
                    print("pregen of %s failed: %r" % (mod.ID, e))
    ok, out = build(pregen=pregen_all)
    print(out[-3000:])
    if not ok:
        # every check rebuilds and verifies the .vo files it needs (make -k builds the rest);
        # a file that does not build is reported by the check that depends on it
        print("setup: some Coq files did not build (see above); the checks that need them will report it")
    return 0


def main():
    ap = argparse.ArgumentParser()
    ap.add_argument("prop", nargs="?")
    ap.add_argument("--tier", default=os.environ.get("VERIF_TIER", "quick"), choices=["quick", "thorough"])
    ap.add_argument("--replay")
    ap.add_argument("--setup", action="store_true")
    a = ap.parse_args()
    if a.setup:
        sys.exit(setup())
    if not a.prop:
        ap.error("property id required")
    try:
        rc = run_check(a.prop.upper(), a.tier, a.replay)
    except SystemExit:
        raise
    except BaseException as e:   # the machinery itself broke on this tree: the property is not shown to hold
        import traceback
        tb = traceback.format_exc()
        print(tb)
        rdir = os.path.join(BUILD, "scratch-replays") if SCRATCH else os.path.join(VERIF, "replays")
        os.makedirs(rdir, exist_ok=True)
        path = os.path.join(rdir, "%s-broken-harness.json" % a.prop.upper())
        json.dump({"property": a.prop.upper(), "kind": "broken",
                   "broken": ["the check itself raised %s while deciding this tree" % type(e).__name__],
                   "traceback": tb[-4000:]}, open(path, "w"), indent=1)
        print("VIOLATION property=%s replay=%s no-failing-input-found" % (a.prop.upper(), path))
        rc = 1
    sys.exit(rc)


if __name__ == "__main__":
    main()
