"""C06 — kernel results do not depend on the dataflow used to compute them
(fibertree/core/iterators.py `&`, `<<`, Fiber.intersection; tensor.py swizzleRanks, splitUniform;
payload.py `+=`, `*`)."""
import itertools
import coqlit as L
import ftutil as U
import c06_util as K

ID = "C06"
THEOREMS = ["C06_intersection", "C06_skipped_zero", "C06_level_populate", "C06_level_reduce",
            "C06_kernel", "C06_fubini", "C06_tabulate", "C06_dense_content", "C06_loop_order",
            "C06_tiling", "C06_styles", "C06_model_meets_spec"]
COQ_IMPORTS = "From FT Require Import Model.Base Model.Obs Model.C06Kernel Model.C06Check."
CHECK_VO = ["Model/C06Check.v"]
CHECKER = "c06_checker"
CASE_TYPE = "c06_case"
SHARD = 150

RULE = ("case = (einsum: output variables + 1-3 operands over 1-3 index variables, from a named family "
        "(dot, matrix-vector, matrix-matrix, elementwise, outer, reductions, 3-operand chains, transposes) "
        "or random; operand trees in their own rank order with values in -3..3 incl. explicit zeros, empty "
        "sub-fibers, several explicit-default-only sub-fibers per fiber, ragged rows and empty operands; each "
        "operand with a declared or an estimated shape (est, implementation side only); a loop order = permutation of the loop variables; a set of uniformly "
        "tiled variables with steps 1..shape+1; intersection style nested-&/Fiber.intersection/leader-follower); "
        "run_impl builds real tensors, applies splitUniform and swizzleRanks, generates and execs the Python "
        "loop nest in the library idiom; observation = raw snapshot of the output tree + content of every "
        "transformed operand. distinct = distinct canonical JSON; non-trivial = every operand non-empty")
TRUSTED = ["Coq 8.16.1 kernel (coqc); vm_compute used; native_compute not used",
           "Print Assumptions of every C06 theorem: Closed under the global context (no axioms)",
           "hand-written Gallina model coq/Model/C06Kernel.v of the loop-nest idiom (populate, intersection, "
           "+= at the bottom), tied to /repo by the differential correspondence check of this run",
           "harness: harness/check.py, harness/props/c06.py, harness/c06_util.py (nest source generator), CPython 3.12",
           "swizzleRanks and splitUniform are modelled by their content (re-tabulation), compared on content"]
ASSUMPTIONS = ["integer values (float addition is not associative; the property is false for floats)",
               "operands are well-formed fibers (C01): strictly ascending coordinates inside the shape, uniform depth",
               "the output tensor starts empty; the nest's body touches the output only through the offered reference"]
EXPLANATION = ("theorems: one loop level = sum over the variable of the recursive result (reduce and populate "
               "levels); kernel theorem by induction over the loop order for any number of operands/variables and "
               "all three intersection styles; Fubini for any loop order; tabulated swizzle/split; tile variables "
               "summed out (C06_tiling, any set of tiled variables, any step > 0); oracle = content of the observed "
               "output tree equals the dense result enumerated over the output index space from the *original* operands")

FAMILY = {
    "dot":        ([], [[0], [0]]),
    "dot3":       ([], [[0], [0], [0]]),
    "matvec":     ([0], [[0, 1], [1]]),
    "vecmat":     ([1], [[0], [0, 1]]),
    "matvec_T":   ([1], [[0, 1], [0]]),
    "matmul":     ([0, 2], [[0, 1], [1, 2]]),
    "matmul_T":   ([0, 2], [[1, 0], [2, 1]]),
    "elem1":      ([0], [[0], [0]]),
    "elem2":      ([0, 1], [[0, 1], [0, 1]]),
    "elem2_T":    ([0, 1], [[0, 1], [1, 0]]),
    "elem3":      ([0, 1, 2], [[0, 1, 2], [0, 1, 2]]),
    "elem1x3":    ([0], [[0], [0], [0]]),
    "outer":      ([0, 1], [[0], [1]]),
    "scale_rows": ([0, 1], [[0, 1], [0]]),
    "sum1":       ([], [[0]]),
    "sum_rows":   ([0], [[0, 1]]),
    "sum_cols":   ([1], [[0, 1]]),
    "sum_all2":   ([], [[0, 1]]),
    "sum_mid3":   ([0, 2], [[0, 1, 2]]),
    "sum_all3":   ([], [[0, 1, 2]]),
    "copy2":      ([0, 1], [[0, 1]]),
    "transpose":  ([1, 0], [[0, 1]]),
    "chain3":     ([0], [[0, 1], [1, 2], [2]]),
    "bilinear":   ([], [[0], [0, 1], [1]]),
    "mttkrp_ish": ([0, 2], [[0, 1], [1, 2], [1]]),
    "batched":    ([0, 1], [[0, 1, 2], [0, 2]]),
}


def loop_orders(allv, tiled):
    """all permutations of the loop variables with the tile variable before the in-tile one"""
    lv = []
    for v in allv:
        lv.append(2 * v)
        if v in tiled:
            lv.append(2 * v + 1)
    for p in itertools.permutations(lv):
        if all(p.index(2 * v + 1) < p.index(2 * v) for v in tiled):
            yield list(p)


def zero_all(t):
    """the same stored coordinates, every leaf an explicit default"""
    if isinstance(t, int):
        return 0
    return [[c, zero_all(s)] for c, s in t]


def zero_rows(rng, t, shapes, q):
    """turn sub-fibers (at every level) into sub-fibers that store only explicit default payloads
    (never zero-length), each with probability q: several of them per fiber, with live siblings"""
    if isinstance(t, int) or not t or isinstance(t[0][1], int):
        return t
    out = []
    for c, s in t:
        if rng.random() < q:
            z = zero_all(s)
            while not U.content(z, None) and len(shapes) > 1:      # zero-length somewhere: store explicit zeros
                z = zero_all(U.gen_fiber(rng, len(shapes) - 1, shapes[1:], 0, p_absent=0.4, p_zero=0.0, p_emptysub=0.0))
            out.append([c, z])
        else:
            out.append([c, zero_rows(rng, s, shapes[1:], q)])
    return out


def ragged(rng, depth, shapes):
    """rows of increasing reach: the first sub-fiber of every fiber is the shortest, so a shape
    estimated from the first fiber alone would be too small"""
    if depth == 1:
        n = rng.randint(1, shapes[0])
        return [[c, rng.choice([-3, -2, -1, 1, 2, 3])] for c in range(n) if rng.random() < 0.8 or c == n - 1]
    rows = []
    reach = 1
    for c in range(shapes[0]):
        if rng.random() < 0.25:
            continue
        if depth == 2:
            r = min(reach, shapes[1])           # this row reaches exactly coordinate r - 1
            sub = [e for e in ragged(rng, 1, [r]) if e[0] < r - 1] + [[r - 1, rng.choice([-2, -1, 1, 3])]]
        else:
            sub = ragged(rng, depth - 1, shapes[1:])
        rows.append([c, sub])
        reach += 1
    return rows


def gen_operand(rng, depth, shapes, kind=None):
    kind = kind or rng.choice(["plain"] * 5 + ["zero_rows"] * 3 + ["ragged"] * 2)
    if kind == "ragged":
        return ragged(rng, depth, shapes)
    t = U.gen_fiber(rng, depth, shapes, 0, vals=(-3, 3), p_absent=rng.choice([0.0, 0.2, 0.2, 0.5, 0.8]))
    if kind == "zero_rows":
        t = zero_rows(rng, t, shapes, rng.choice([0.3, 0.5, 0.7]))
    return t


def lit_of(points, nranks):
    """{point tuple: value} -> tree literal (coordinates ascending)"""
    if nranks == 0:
        return points[()]
    heads = sorted({p[0] for p in points})
    return [[h, lit_of({p[1:]: v for p, v in points.items() if p[0] == h}, nranks - 1)] for h in heads]


def gen_cancel_case(rng, name):
    """engineered exact cancellation: an output of rank >= 2, a contracted variable k placed OUTSIDE the
    output variables in the loop order, and operands such that for several values of the outermost
    output variable m the contributions of k = 0 and k = 1 are (a, -a) for every element of the output
    row while k >= 2 contributes nothing: the row is created (populate pass k = 0), then returns to
    exactly zero (pass k = 1) as a PRE-EXISTING sub-fiber, while other rows live on / are created later"""
    out, ops = FAMILY[name]
    allv = sorted({v for bs in ops for v in bs})
    contracted = [v for v in allv if v not in out]
    assert len(out) >= 2 and contracted
    k = rng.choice(contracted)
    shape = [rng.randint(2, 4) for _ in range(max(allv) + 1)]
    tiles = [[v, rng.randint(1, shape[v] + 1)] for v in allv if rng.random() < 0.35]
    tiled = {v for v, _ in tiles}
    orders = list(loop_orders(allv, tiled))
    klead = 2 * k + 1 if k in tiled else 2 * k
    outside = [o for o in orders if o[0] == klead]
    order = rng.choice(outside if rng.random() < 0.8 else orders)
    m = next(l // 2 for l in order if l // 2 in out)          # root rank of the output as produced
    sel = set(rng.sample(range(shape[m]), rng.randint(1, max(1, shape[m] - 1))))
    with_k = [j for j, bs in enumerate(ops) if k in bs]
    A = rng.choice(with_k)
    p_absent = rng.choice([0.0, 0.0, 0.2, 0.4])

    def val():
        return rng.choice([-3, -2, -1, 1, 2, 3])

    trees = []
    for j, bs in enumerate(ops):
        pts = {}
        if k not in bs:
            for p in itertools.product(*[range(shape[v]) for v in bs]):
                if rng.random() >= p_absent:
                    pts[p] = val()
        else:
            ki = bs.index(k)
            rest = [v for v in bs if v != k]
            for q in itertools.product(*[range(shape[v]) for v in rest]):
                def at(kk):
                    return q[:ki] + (kk,) + q[ki:]
                cancels = j == A and (m not in bs or q[rest.index(m)] in sel)
                if rng.random() >= p_absent:
                    base = val()
                    pts[at(0)] = base
                    if cancels:
                        pts[at(1)] = -base
                    elif j != A:
                        pts[at(1)] = base           # the other factors repeat at k = 1
                    elif rng.random() >= p_absent:
                        pts[at(1)] = val()
                for kk in range(2, shape[k]):
                    if not cancels and rng.random() >= max(p_absent, 0.3):
                        pts[at(kk)] = val()
        trees.append(lit_of(pts, len(bs)) if pts else [])
    return {"name": name, "out": list(out), "ops": [list(b) for b in ops], "shape": shape,
            "trees": trees, "order": order, "tiles": tiles, "style": rng.choice([0, 0, 1, 2]),
            "est": [rng.random() < 0.2 for _ in ops]}


def gen_case(rng, name=None, tile_p=None, style=None, kind=None, est_p=None):
    if name is None:
        name = rng.choice(list(FAMILY) + ["random"] * 6)
    if name == "random":
        nv = rng.randint(1, 3)
        nops = rng.randint(1, 3)
        while True:
            ops = []
            for _ in range(nops):
                k = rng.randint(1, nv)
                ops.append(rng.sample(range(nv), k))
            used = sorted({v for bs in ops for v in bs})
            if used == list(range(nv)):
                break
        out = [v for v in rng.sample(range(nv), nv) if rng.random() < 0.5]
    else:
        out, ops = FAMILY[name]
    allv = sorted({v for bs in ops for v in bs})
    shape = [rng.randint(1, 4) for _ in range(max(allv) + 1)]
    if tile_p is None:
        tile_p = rng.choice([0.0, 0.0, 0.3, 0.6])
    tiles = [[v, rng.randint(1, shape[v] + 1)] for v in allv if rng.random() < tile_p]
    tiled = {v for v, _ in tiles}
    orders = list(loop_orders(allv, tiled))
    order = rng.choice(orders)
    trees = []
    for bs in ops:
        if rng.random() < 0.06:
            trees.append([])
        else:
            trees.append(gen_operand(rng, len(bs), [shape[v] for v in bs], kind))
    if style is None:
        style = rng.choice([0, 0, 1, 2])
    if est_p is None:
        est_p = rng.choice([0.0, 0.0, 0.5, 1.0])
    # est[j]: operand j is built without a declared shape (estimated from its coordinates); not part
    # of the Coq case - the content of a tensor does not depend on how its shape became known
    est = [rng.random() < est_p for _ in ops]
    return {"name": name, "out": list(out), "ops": [list(b) for b in ops], "shape": shape,
            "trees": trees, "order": order, "tiles": tiles, "style": style, "est": est}


def all_orders_cases(rng, name, tiles_choice, style):
    """one operand draw, every loop order"""
    base = gen_case(rng, name, tile_p=0.0, style=style)
    allv = sorted({v for bs in base["ops"] for v in bs})
    tiles = [[v, rng.randint(1, base["shape"][v] + 1)] for v in tiles_choice if v in allv]
    out = []
    for o in loop_orders(allv, {v for v, _ in tiles}):
        c = dict(base)
        c["tiles"] = tiles
        c["order"] = o
        out.append(c)
    return out


def streams(tier, rng):
    n = 700 if tier == "quick" else 8000
    yield ("random", [gen_case(rng) for _ in range(n)], False)
    # every loop order of every family member on one operand draw each (untiled, nested &)
    cases = []
    for name in FAMILY:
        for c in all_orders_cases(rng, name, [], 0):
            cases.append(c)
    yield ("all-loop-orders", cases, False)
    # tiling: every family member, one tiled variable, every step 1..shape+1, one order each
    cases = []
    for name in FAMILY:
        base = gen_case(rng, name, tile_p=0.0)
        allv = sorted({v for bs in base["ops"] for v in bs})
        for v in allv:
            for step in range(1, base["shape"][v] + 2):
                c = dict(base)
                c["tiles"] = [[v, step]]
                c["order"] = rng.choice(list(loop_orders(allv, {v})))
                c["style"] = rng.choice([0, 1, 2])
                cases.append(c)
    if tier == "quick":
        cases = rng.sample(cases, min(len(cases), 160))
    yield ("all-tile-sizes", cases, False)
    # lower-layer histories: (a) operands with several explicit-default-only sub-fibers per fiber,
    # a rank below the root tiled (splitUniform(depth >= 1) goes through updatePayloadsBelow);
    # (b) operands without a declared shape whose rows reach farther and farther (the first row is
    # the shortest), tiled and/or swizzled (active ranges come from the estimated rank shapes)
    deep = [n for n, (_, ops) in FAMILY.items() if any(len(b) >= 2 for b in ops)]
    cases = []
    for i in range(90 if tier == "quick" else 1500):
        name = deep[i % len(deep)]
        ops = FAMILY[name][1]
        below = sorted({v for b in ops if len(b) >= 2 for v in b[1:]})
        c = gen_case(rng, name, tile_p=0.0, kind="zero_rows", est_p=rng.choice([0.0, 0.0, 1.0]))
        v = rng.choice(below)
        c["tiles"] = [[v, rng.randint(1, c["shape"][v] + 1)]]
        allv = sorted({v for b in ops for v in b})
        c["order"] = rng.choice(list(loop_orders(allv, {v})))
        cases.append(c)
    yield ("zero-rows-tiled-below-root", cases, False)
    cases = []
    for i in range(90 if tier == "quick" else 1500):
        name = deep[i % len(deep)]
        c = gen_case(rng, name, tile_p=rng.choice([0.0, 0.5, 1.0]), kind="ragged", est_p=1.0)
        cases.append(c)
    yield ("estimated-shape-ragged", cases, False)
    # (c) exact cancellation of whole output rows that already exist (reduction outside the output
    # ranks, possibly tiled): the populate pass meets a pre-existing sub-fiber that has become empty
    canc = [n for n, (out, ops) in FAMILY.items()
            if len(out) >= 2 and any(v not in out for b in ops for v in b)]
    cases = [gen_cancel_case(rng, canc[i % len(canc)]) for i in range(120 if tier == "quick" else 2000)]
    yield ("cancelling-rows-reduction-outside", cases, False)
    if tier == "thorough":
        cases = []
        for name in ["matmul", "chain3", "elem2_T", "batched", "mttkrp_ish"]:
            for st in (0, 1, 2):
                for tc in ([], [0], [1], [0, 1], [0, 1, 2]):
                    cases += all_orders_cases(rng, name, tc, st)
        yield ("orders-x-tilings-x-styles", cases, False)


def two_zero_rows(t):
    """some fiber holds >= 2 non-zero-length sub-fibers that store only explicit defaults"""
    if isinstance(t, int) or not t or isinstance(t[0][1], int):
        return False
    n = sum(1 for _, s in t if s and U.is_empty_lit(s, 0) and U.has_explicit_default(s, 0))
    return n >= 2 or any(two_zero_rows(s) for _, s in t)


def nontrivial(case):
    return all(bool(t) for t in case["trees"])


def describe(case):
    return {"family": case["name"], "n_ops": len(case["ops"]),
            "n_loopvars": len(case["order"]), "n_tiled": len(case["tiles"]), "style": case["style"],
            "rank0_out": not case["out"],
            "empty_operand": any(U.is_empty_lit(t, 0) for t in case["trees"]),
            "explicit_zero": any(U.has_explicit_default(t, 0) for t in case["trees"]),
            "empty_subfiber": any(U.has_empty_sub(t, 0) for t in case["trees"]),
            "estimated_shape": any(case.get("est") or []),
            "two_zero_rows": any(two_zero_rows(t) for t in case["trees"]),
            "reduction_outside_output": bool(case["out"]) and case["order"][0] // 2 not in case["out"]}


def case_to_coq(c):
    ops = L.lst(L.tup(L.lst(L.nat(v) for v in bs), L.tree(t)) for bs, t in zip(c["ops"], c["trees"]))
    return "(Build_c06_case %s %s %s %s %s %s)" % (
        L.lst(L.nat(v) for v in c["out"]), ops, L.zlist(c["shape"]),
        L.lst(L.nat(l) for l in c["order"]),
        L.lst(L.tup(L.nat(v), L.z(s)) for v, s in c["tiles"]), L.z(c["style"]))


def run_impl(case):
    from fibertree import Payload
    Z, Ts = K.run_nest(case)
    root = Z.getRoot()
    if isinstance(root, Payload) or isinstance(root, int):
        zs = int(Payload.get(root))
    else:
        zs = U.snap(root)
    return [zs, [U.content(U.snap(T.getRoot()), 0) for T in Ts]]


def repro_py(case):
    return ("import sys; sys.path.insert(0,'/verif/harness'); import c06_util as K, ftutil as U\n"
            "case = %r\nprint(K.nest_source(case))\nZ, Ts = K.run_nest(case)\n"
            "print('output  :', Z.getRoot())\nprint('expected:', sorted(K.brute_dense(case).items()))\n" % (case,))


def shrinks(case):
    import copy
    for j, t in enumerate(case["trees"]):
        for i in range(len(t)):
            c = copy.deepcopy(case)
            del c["trees"][j][i]
            yield c
        for i, (co, s) in enumerate(t):
            if not isinstance(s, int):
                for k in range(len(s)):
                    c = copy.deepcopy(case)
                    del c["trees"][j][i][1][k]
                    yield c
    if case["tiles"]:
        for i, (v, s) in enumerate(case["tiles"]):
            c = copy.deepcopy(case)
            del c["tiles"][i]
            c["order"] = [l for l in c["order"] if l != 2 * v + 1]
            yield c
    if case["style"] != 0:
        c = copy.deepcopy(case)
        c["style"] = 0
        yield c


def search(disagreeing, rng, rnd):
    out = []
    for c in disagreeing[:20]:
        for _ in range(10):
            out.append(gen_case(rng, c.get("name"), style=c["style"]))
    out += [gen_case(rng) for _ in range(150)]
    return out
