"""C08 — splitting partitions a fiber losslessly at exactly the specified boundaries
(fibertree/core/fiber.py split family, Tensor._splitGeneric)."""
import copy
import itertools
import coqlit as L
import ftutil as U
import c08_util as C

ID = "C08"
COQ_IMPORTS = "From FT Require Import Model.Base Model.Obs Model.C08Split Model.C08SplitCheck."
CHECK_VO = ["Model/C08SplitCheck.v"]
CHECKER = "c08_checker"
CASE_TYPE = "c08_case"
SHARD = 150
CASE_TIMEOUT = 20


THEOREMS = ["C08_member_iff", "C08_member_iff_halo", "C08_partitions", "C08_partition_members",
            "C08_upper_ascending", "C08_lossless", "C08_relative", "C08_ranges_tile", "C08_ranges_nested",
            "C08_nonuniform_model", "C08_iter_active", "C08_equal_bounds", "C08_unequal_bounds",
            "C08_position_model", "C08_uniform_bounds", "C08_uniform_bounds_ascending",
            "C08_uniform_candidates", "C08_uniform_model", "C08_resplit_wf", "C08_skipped_lossless",
            "C08_rankid_overrides", "C08_tensor_ids",
            "C08_model_meets_spec"]

RULE = ("case = (split kind uniform/nonuniform/equal/unequal/truediv/floordiv with its argument, halo sizes "
        "0-3, relativeCoords, operand tree of depth 1-3 incl. explicit defaults and empty sub-fibers, leaf "
        "default, shape given or estimated, optional explicit active range, split depth 0-2, fiber or tensor "
        "entry point, optional re-split of every partition); observation = upper fiber's active range and "
        "shape, per partition (start, raw lower tree, active range, shape), nested per depth, plus rank ids / "
        "shape / default for tensors. distinct = distinct canonical JSON; non-trivial = at least one non-empty "
        "element at the split level")
TRUSTED = ["Coq 8.16.1 kernel (coqc; coqchk in the thorough tier); vm_compute used; native_compute not used",
           "Print Assumptions of every C08 theorem: Closed under the global context (no axioms)",
           "hand-written Gallina model coq/Model/C08Split.v of the split family of fibertree/core/fiber.py "
           "(with the proposed S18 fix), tied to the working tree by the differential correspondence check of "
           "this run (sampled + exhaustive small scope in thorough)",
           "harness: harness/check.py, harness/props/c08.py, harness/c08_util.py, CPython 3.12",
           "format C at every rank (the splitters iterate with __iter__, which is iterOccupancy for format C)"]
ASSUMPTIONS = ["well-formed operands: strictly ascending non-negative integer coordinates, positive shape, "
               "non-empty active range, step > 0, strictly ascending split list, positive sizes (non-empty list), "
               "halos >= 0",
               "default None is modelled by a sentinel default that never occurs as a payload (nothing but an empty fiber "
               "is empty); build histories (read -> grow -> split, value representations of harness/ftutil) are not "
               "part of the Coq case: every history ending in the same tree must give the same observation",
               "depth > 0 goes through updatePayloadsBelow (S4 and S29 fixed in HEAD): all-default sub-fibers at "
               "the split level are emptied and left unsplit; the oracle expects exactly that",
               "deepcopy of the operand is value-preserving (property C10)"]
EXPLANATION = ("oracle = reference map: boundaries enumerated, each lower fiber = filter of the non-empty elements "
               "by 'partition range extended by halos contains the coordinate'; theorems: the single-pass bucket "
               "code with search_start windows computes that map")

KINDS = ["uniform", "nonuniform", "equal", "unequal", "truediv", "floordiv"]


def gen_case(rng, kind=None, depth=None, tensor=None, resplit=None, nlev=None):
    kind = kind or rng.choice(KINDS)
    if tensor is None:
        tensor = rng.random() < 0.2
    if depth is None:
        depth = 0 if kind in ("truediv", "floordiv") else rng.choice([0, 0, 0, 1, 2])
    below = rng.choice([0, 0, 1])
    nlev = nlev or depth + 1 + below
    if nlev > 3:
        nlev = 3
        depth = min(depth, 2)
    shp = [rng.randint(1, 10) for _ in range(nlev)]
    if depth > 0:
        # S4 (fixed in HEAD) leaves empty payloads above the split level untouched: keep them rare but present
        tree = U.gen_fiber(rng, nlev, shp, 0, p_emptysub=rng.choice([0.0, 0.0, 0.0, 0.15]))
    else:
        tree = U.gen_fiber(rng, nlev, shp, 0)
    d = 0
    if tensor:
        shapes = [s + rng.choice([0, 0, 2]) for s in shp]
        active = None
    else:
        shapes = [None] * nlev
        if rng.random() < 0.5:
            shapes[0] = shp[0] + rng.choice([0, 0, 2])
        active = None
        if depth == 0 and rng.random() < 0.4:
            a0 = rng.randint(0, shp[0])
            a1 = rng.randint(a0 + 1, shp[0] + 2)
            active = [a0, a1]
    pre = rng.choice([0, 0, 1, 2, 3])
    post = rng.choice([0, 0, 1, 2, 3])
    rel = rng.random() < 0.3
    if kind in ("truediv", "floordiv"):
        pre = post = 0
        rel = False
    arg = gen_arg(rng, kind, shp[depth])
    rs = None
    if resplit is None:
        resplit = (depth == 0 and not tensor and rng.random() < 0.15)
    if resplit and depth == 0 and not tensor:
        k2 = rng.choice(["uniform", "nonuniform", "equal", "unequal"])
        rs = [k2, gen_arg(rng, k2, shp[0]), rng.choice([0, 0, 1]), rng.choice([0, 0, 1])]
        rel = False
    c = dict(kind=kind, tree=tree, d=d, shapes=shapes, active=active, arg=arg, pre=pre, post=post,
             rel=rel, depth=depth, tensor=bool(tensor), resplit=rs)
    if tensor and kind not in ("truediv", "floordiv"):
        name_rank(rng, c)
    return c


def name_rank(rng, c, by=None):
    """tensor entry: the rank to split (c["depth"] so far) is named by depth=, by rankid=, or by both
    with a depth= that may conflict (the rank id has to win)"""
    by = by or rng.choice(["depth", "rankid", "both", "both"])
    e = c["depth"]
    if by == "depth":
        return
    c["rankid"] = e
    if by == "rankid":
        c["depth"] = 0
        c["depth_kw"] = False
    else:
        c["depth"] = rng.randrange(len(c["shapes"]))
        c["depth_kw"] = True


def gen_arg(rng, kind, shape):
    if kind in ("uniform", "equal"):
        return rng.randint(1, 6)
    if kind == "nonuniform":
        return sorted(rng.sample(range(0, shape + 3), rng.randint(0, min(4, shape + 3))))
    if kind == "unequal":
        return [rng.randint(1, 3) for _ in range(rng.randint(1, 3))]
    return rng.randint(1, 4)


def s18_witnesses():
    base = dict(d=0, depth=0, tensor=False, resplit=None, rel=False)
    return [
        dict(base, kind="nonuniform", tree=[[0, 2], [2, 2], [4, 1]], shapes=[6], active=None, arg=[6], pre=2, post=1),
        dict(base, kind="nonuniform", tree=[[0, 2], [2, 2], [4, 1], [7, 3]], shapes=[8], active=None, arg=[6, 9], pre=2, post=1),
        dict(base, kind="nonuniform", tree=[[1, 5], [3, 1]], shapes=[None], active=[2, 4], arg=[0, 4], pre=1, post=0),
        dict(base, kind="nonuniform", tree=[[1, 5], [3, 1], [5, 2]], shapes=[None], active=[0, 3], arg=[3, 5], pre=1, post=2),
    ]


def exhaustive_small():
    """every occupancy pattern (absent / explicit default / value) over coordinates 0..4 x
    step 1..3 x halos 0..1 x active range variants, uniform and equal; every split list over 0..5 of
    length <= 2 for nonuniform"""
    cases = []
    base = dict(d=0, depth=0, tensor=False, resplit=None, rel=False)
    pats = list(itertools.product([None, 0, 7], repeat=5))
    for pat in pats:
        tree = [[c, v] for c, v in enumerate(pat) if v is not None]
        for i, (c, v) in enumerate(tree):
            if v:
                tree[i][1] = v + c
        for act in (None, [1, 4]):
            for pre, post in ((0, 0), (1, 0), (0, 1), (1, 1)):
                for step in (1, 2, 3):
                    cases.append(dict(base, kind="uniform", tree=tree, shapes=[5], active=act, arg=step, pre=pre, post=post))
                    cases.append(dict(base, kind="equal", tree=tree, shapes=[None], active=act, arg=step, pre=pre, post=post))
                for sp in ([], [0], [2], [5], [0, 3], [1, 2], [3, 6]):
                    cases.append(dict(base, kind="nonuniform", tree=tree, shapes=[5], active=act, arg=sp, pre=pre, post=post))
    return cases


def gen_none_default(rng, **kw):
    """T1: default None ("no empty value") over a tree that stores zeros: the tree is generated with
    explicit zeros (as for default 0) and the case's default is the sentinel"""
    c = gen_case(rng, **kw)
    nlev = len(c["shapes"])
    shp = [rng.randint(2, 10) for _ in range(nlev)]
    c["tree"] = U.gen_fiber(rng, nlev, shp, 0, p_zero=rng.choice([0.2, 0.4, 0.6]),
                            p_emptysub=rng.choice([0.0, 0.0, 0.15]) if C.eff(c) else None)
    if c["tensor"]:
        c["shapes"] = [x + rng.choice([0, 0, 2]) for x in shp]
    elif c["shapes"][0] is not None:
        c["shapes"][0] = shp[0] + rng.choice([0, 0, 2])
    if c["active"] is not None:
        a0 = rng.randint(0, shp[0])
        c["active"] = [a0, rng.randint(a0 + 1, shp[0] + 2)]
    if c["kind"] == "nonuniform":
        c["arg"] = gen_arg(rng, "nonuniform", shp[C.eff(c)])
    c["d"] = C.NONE_D
    return c


READS = ["active", "iter", "shape", "max", "and", "touch"]


def gen_history(rng):
    """T3/T4: read -> grow -> split.  The fibers at the split level (estimated shape, no explicit
    active range) are built from a prefix, queried read-only, grown, then split"""
    kind = rng.choice(["uniform", "nonuniform", "equal", "unequal", "truediv", "floordiv"])
    depth = 0 if kind in ("truediv", "floordiv") else rng.choice([0, 0, 1])
    c = gen_case(rng, kind=kind, depth=depth, tensor=False, resplit=False)
    nlev = len(c["shapes"])
    shp = [rng.randint(3, 10) for _ in range(nlev)]
    c["tree"] = U.gen_fiber(rng, nlev, shp, 0, p_absent=rng.choice([0.0, 0.2, 0.5]),
                            p_emptysub=0.0 if depth else None)
    if kind == "nonuniform":
        c["arg"] = gen_arg(rng, "nonuniform", shp[depth])
    c["active"] = None
    c["shapes"] = [None] * nlev
    if rng.random() < 0.15:
        c["shapes"][0] = shp[0] + rng.choice([0, 2])
    if rng.random() < 0.25:
        c["d"] = C.NONE_D
    c["hist"] = {"cut": rng.randint(0, 4), "reads": rng.sample(READS, rng.randint(1, 3)),
                 "grow": rng.choice(["append", "append", "ref"])}
    return c


def gen_rank_naming(rng):
    """tensor entry, 2-3 ranks, every rank as target, named by depth / rankid / both (agreeing and
    conflicting depth=, incl. the top rank whose index is 0)"""
    kind = rng.choice(["uniform", "nonuniform", "equal", "unequal"])
    nlev = rng.choice([2, 3, 3])
    e = rng.randrange(nlev)
    c = gen_case(rng, kind=kind, depth=e, tensor=True, resplit=False, nlev=nlev)
    assert len(c["shapes"]) == nlev
    for k in ("rankid", "depth_kw"):
        c.pop(k, None)
    c["depth"] = e
    name_rank(rng, c, by=rng.choice(["depth", "rankid", "both", "both", "both"]))
    return c


def streams(tier, rng):
    yield ("s18-witnesses", s18_witnesses(), False)
    n = 1500 if tier == "quick" else 20000
    yield ("random", [gen_case(rng) for _ in range(n)], False)
    m = 500 if tier == "quick" else 4000
    halo = []
    for _ in range(m):
        c = gen_case(rng, kind=rng.choice(["uniform", "nonuniform", "equal", "unequal"]), depth=0, tensor=False)
        c["pre"] = rng.randint(0, 3)
        c["post"] = rng.randint(0, 3)
        if c["pre"] == 0 and c["post"] == 0:
            c["pre"] = 1
        halo.append(c)
    yield ("halo-depth0", halo, False)
    k = 400 if tier == "quick" else 4000
    yield ("none-default", [gen_none_default(rng) for _ in range(k)], False)
    yield ("read-grow-split", [gen_history(rng) for _ in range(k)], False)
    yield ("tensor-rank-naming", [gen_rank_naming(rng) for _ in range(k)], False)
    if tier == "thorough":
        ex = exhaustive_small()
        yield ("exhaustive-0..4", ex, True)
        # the same occupancy patterns under default None: the stored 0 is a non-empty element
        sub = [dict(c, d=C.NONE_D) for c in ex
               if c["active"] is None and (c["arg"] in (2, [1, 2], [0, 3]))]
        yield ("exhaustive-0..4-default-None", sub, True)


def nontrivial(case):
    t = case["tree"]
    for _ in range(C.eff(case)):
        t = [x for _, s in t for x in (s if not isinstance(s, int) else [])]
    return any(not U.is_empty_lit(s, case["d"]) for _, s in t)


def describe(case):
    return {"kind": case["kind"], "depth": C.eff(case), "tensor": case["tensor"],
            "rank_named_by": ("depth" if case.get("rankid") is None else
                              "rankid" if not case.get("depth_kw", True) else
                              "both-agree" if case["depth"] == case["rankid"] else "both-conflict"),
            "halo": bool(case["pre"] or case["post"]), "rel": case["rel"],
            "explicit_active": case["active"] is not None, "resplit": case["resplit"] is not None,
            "none_default": case["d"] == C.NONE_D, "history": case.get("hist") is not None,
            "stored_zero": U.has_explicit_default(case["tree"], 0),
            "explicit_default": U.has_explicit_default(case["tree"], case["d"]),
            "empty_subfiber": U.has_empty_sub(case["tree"], case["d"])}


def _kind(kind, arg):
    if kind == "uniform":
        return "(KUniform %s)" % L.z(arg)
    if kind == "nonuniform":
        return "(KNonUniform %s)" % L.zlist(arg)
    if kind == "equal":
        return "(KEqual %s)" % L.z(arg)
    if kind == "unequal":
        return "(KUnEqual %s)" % L.zlist(arg)
    if kind == "truediv":
        return "(KTrueDiv %s)" % L.z(arg)
    if kind == "floordiv":
        return "(KFloorDiv %s)" % L.z(arg)
    raise KeyError(kind)


def case_to_coq(c):
    sp = "(Build_sparams %s %s %s %s)" % (_kind(c["kind"], c["arg"]), L.z(c["pre"]), L.z(c["post"]), L.b(c["rel"]))
    act = "None" if c["active"] is None else "(Some (%s, %s))" % (L.z(c["active"][0]), L.z(c["active"][1]))
    rs = "None"
    if c.get("resplit"):
        k2, a2, pre2, post2 = c["resplit"]
        rs = "(Some (Build_sparams %s %s %s false))" % (_kind(k2, a2), L.z(pre2), L.z(post2))
    return "(Build_c08_case %s %s %s %s %s %s %s %s %s)" % (
        sp, L.tree(c["tree"]), L.z(c["d"]), L.lst(L.opt(s, L.z) for s in c["shapes"]), act,
        L.nat(c["depth"]), L.opt(c.get("rankid"), L.nat), L.b(c["tensor"]), rs)


def run_impl(case):
    return C.run(case)


def repro_py(case):
    return ("import sys; sys.path.insert(0,'/verif/harness'); import c08_util as C\n"
            "print(C.run(%r))\n" % (case,))


def shrinks(case):
    t = case["tree"]
    for i in range(len(t)):
        c = copy.deepcopy(case)
        del c["tree"][i]
        yield c
    for key in ("pre", "post"):
        if case[key] > 0:
            c = copy.deepcopy(case)
            c[key] -= 1
            yield c
    if isinstance(case["arg"], list):
        for i in range(len(case["arg"])):
            c = copy.deepcopy(case)
            del c["arg"][i]
            if c["arg"] or case["kind"] == "nonuniform":
                yield c
    if case.get("resplit"):
        c = copy.deepcopy(case)
        c["resplit"] = None
        yield c
    if case["rel"]:
        c = copy.deepcopy(case)
        c["rel"] = False
        yield c
    if case.get("rankid") is not None and case.get("depth_kw", True) and case["depth"] != case["rankid"]:
        for dd in range(len(case["shapes"])):
            if dd != case["depth"] and dd != case["rankid"]:
                c = copy.deepcopy(case)
                c["depth"] = dd
                yield c
    if case.get("hist"):
        c = copy.deepcopy(case)
        h = c["hist"]
        if len(h["reads"]) > 1:
            h["reads"] = h["reads"][:-1]
            yield c
        c = copy.deepcopy(case)
        if c["hist"]["grow"] != "append":
            c["hist"]["grow"] = "append"
            yield c
    for i, (co, s) in enumerate(t):
        if not isinstance(s, int):
            for j in range(len(s)):
                c = copy.deepcopy(case)
                del c["tree"][i][1][j]
                yield c


def search(disagreeing, rng, rnd):
    out = []
    for c in disagreeing[:10]:
        for _ in range(20):
            out.append(gen_case(rng, kind=c["kind"], depth=C.eff(c), tensor=c["tensor"]))
    out += [gen_case(rng) for _ in range(200)]
    return out
