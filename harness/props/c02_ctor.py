"""C02, second stream: every constructor and every transform result is a tensor whose rank lists
mirror its tree (coq/Model/StoreCtorCheck.v).  Two-stage cases: the recipe is run on the
implementation, the result tree read back from the observation is the Coq case, the model
registers it the way setRoot/_addFiber does and the rank lists are compared as sorted path lists."""
import coqlit as L
import ftutil as U

ID = "C02"
MODNAME = "c02_ctor"
THEOREMS = []
COQ_IMPORTS = "From FT Require Import Model.Base Model.Obs Model.Store Model.StoreCheck Model.StoreCtorCheck."
CHECK_VO = ["Model/StoreCtorCheck.v"]
CHECKER = "ctor_checker"
CASE_TYPE = "ctor_case"
SHARD = 150

KINDS = ["copy-root", "copy-root", "fromFiber", "fromUncompressed", "fromRandom", "empty", "yaml", "deepcopy-mutated", "makePopulated",
         "splitUniform", "splitNonUniform", "splitEqual", "splitUnEqual", "swizzle", "swap", "flatten",
         "flatten-unflatten", "merge", "updateCoords", "updatePayloads", "copy-root", "append-read-default"]


def gen_case(rng):
    n = rng.choice([1, 2, 2, 3, 3])
    shapes = [rng.randint(2, 5) for _ in range(n)]
    kind = rng.choice(KINDS)
    if kind in ("swizzle", "swap", "flatten", "flatten-unflatten", "merge") and n == 1:
        n = 2
        shapes = [rng.randint(2, 5) for _ in range(n)]
    tree = U.gen_fiber(rng, n, shapes, 0)
    d = rng.choice([0, 0, 0, 7])
    if d != 0 and rng.random() < 0.7:
        _zero_some(rng, tree, n)
    return {"kind": kind, "n": n, "shapes": shapes, "tree": tree, "seed": rng.randint(0, 10 ** 6),
            "depth": rng.randint(0, n - 1), "arg": rng.randint(1, 4),
            # leaf default of the source: under a non-zero default the stored zeros are ordinary values
            # (and an unowned copy of such a fiber, which guesses default 0, sees them as empty)
            "d": d,
            "perm": rng.sample(range(n), n),
            "mut": [[rng.randint(0, max(0, shapes[i] - 1)) for i in range(rng.randint(1, n))]
                    for _ in range(rng.choice([0, 0, 1, 2, 3]))]}


def _zero_some(rng, t, n):
    """some leaf fibers hold zeros only (values, under a non-zero default)"""
    if n == 1:
        if rng.random() < 0.5:
            for e in t:
                e[1] = 0
        return
    for _, sub in t:
        _zero_some(rng, sub, n - 1)


def streams(tier, rng):
    k = 260 if tier == "quick" else 6000
    yield ("constructors-and-transforms", [gen_case(rng) for _ in range(k)], False)


def nontrivial(case):
    return bool(case["tree"])


def describe(case):
    return {"ctor_kind": case["kind"], "ctor_depth": case["n"]}


def _num(c):
    if isinstance(c, tuple):
        v = 0
        for x in c:
            v = v * 1000 + _num(x)
        return v
    return int(c)


def _snap(f):
    from fibertree import Fiber, Payload
    out = []
    for c, p in zip(f.coords, f.payloads):
        if isinstance(p, Fiber):
            out.append([_num(c), _snap(p)])
        else:
            k = 0
            while isinstance(p, Payload):
                p = p.value
                k += 1
            out.append([_num(c), int(p) if (k == 1 and float(p) == int(p)) else [-2, k]])
    return out


def state_obs(T):
    from fibertree import Fiber
    root = T.getRoot()
    ids = {}
    owners_ok = True

    def walk(f, path):
        nonlocal owners_ok
        ids[id(f)] = list(path)
        if len(path) >= len(T.ranks) or f.getOwner() is not T.ranks[len(path)]:
            owners_ok = False
        for c, p in zip(f.coords, f.payloads):
            if isinstance(p, Fiber):
                walk(p, path + [_num(c)])
    walk(root, [])
    ranks = []
    for r in T.ranks:
        es = [[ids[id(f)]] if id(f) in ids else [] for f in r.getFibers()]
        ranks.append(sorted(es, key=lambda e: (len(e) == 0, e)))
    ranks = [sorted(r, key=lambda e: (0, e[0]) if e else (-1, [])) for r in ranks]
    return [_snap(root), ranks, owners_ok]


def build(case):
    """returns (result tensor, source tensor or None)"""
    import copy, os, tempfile
    from fibertree import Tensor, Fiber
    n, kind = case["n"], case["kind"]
    ids = U.RANK_NAMES[:n]
    if kind == "yaml" and U.MODE["vkind"] == "sub":
        U.MODE["vkind"] = "int"     # YAML text represents plain scalars only (C13's domain)
    base = U.build_tensor(case["tree"], n, case["shapes"], case.get("d", 0))
    # the source carries a few reference insertions (stored-but-empty sub-fibers, explicit
    # defaults) as real use leaves behind
    for pt in case["mut"]:
        base.getPayloadRef(*pt[:n])
    if kind == "fromFiber":
        return base, None
    if kind == "fromUncompressed":
        nest = base.getRoot().uncompress(shape=case["shapes"]) if case["tree"] else None
        if nest is None:
            return Tensor.fromUncompressed(ids, _zeros(case["shapes"])), base
        return Tensor.fromUncompressed(ids, nest), base
    if kind == "fromRandom":
        return Tensor.fromRandom(ids, case["shapes"], [0.6] * n, 5, seed=case["seed"]), None
    if kind == "empty":
        return Tensor(rank_ids=ids, shape=case["shapes"]), None
    if kind == "makePopulated":
        return Tensor.makePopulated(ids, case["shapes"], initial=1), None
    if kind == "yaml":
        d = tempfile.mkdtemp(prefix="c02")
        f = os.path.join(d, "t.yaml")
        base.dump(f)
        T = Tensor.fromYAMLfile(f)
        os.remove(f)
        os.rmdir(d)
        return T, base
    if kind == "deepcopy-mutated":
        return copy.deepcopy(base), base
    if kind == "append-read-default":
        # the default fiber getPayload() hands out for an absent interior coordinate names the next rank as
        # its owner without being listed there; storing it (append) must list it (S49)
        if n >= 2:
            root = base.getRoot()
            c = (max(root.coords) + 1) if root.coords else 0
            f = root.getPayload(c)
            root.append(c, f)
            if n >= 3:
                f.getPayloadRef(case["arg"] % 3)
        return base, None
    if kind == "copy-root":
        # the root already belongs to `base`: setRoot must copy it and leave `base` intact
        return Tensor.fromFiber(rank_ids=ids, fiber=base.getRoot(), shape=case["shapes"]), base
    d = min(case["depth"], n - 1)
    if kind == "splitUniform":
        return base.splitUniform(case["arg"], depth=d), base
    if kind == "splitNonUniform":
        return base.splitNonUniform([0, case["arg"]], depth=d), base
    if kind == "splitEqual":
        return base.splitEqual(case["arg"], depth=d), base
    if kind == "splitUnEqual":
        return base.splitUnEqual([1, case["arg"]], depth=d), base
    if kind == "swizzle":
        return base.swizzleRanks([ids[i] for i in case["perm"]]), base
    d2 = min(case["depth"], n - 2)
    if kind == "swap":
        return base.swapRanks(depth=d2), base
    if kind == "flatten":
        return base.flattenRanks(depth=d2, levels=1), base
    if kind == "flatten-unflatten":
        return base.flattenRanks(depth=d2, levels=1).unflattenRanks(depth=d2, levels=1), base
    if kind == "merge":
        return base.mergeRanks(depth=d2, levels=1, coord_style="absolute"), base
    if kind == "updateCoords":
        return base.updateCoords(lambda i, c, p: c + 1, depth=d), base
    if kind == "updatePayloads":
        return base.updatePayloads(lambda i, c, p: p + 1, depth=n - 1), base
    raise ValueError(kind)


def _zeros(shapes):
    if len(shapes) == 1:
        return [0] * shapes[0]
    return [_zeros(shapes[1:]) for _ in range(shapes[0])]


def run_impl(case):
    T, S = build(case)
    if S is None:
        S = T
    return [[len(T.getRankIds())] + state_obs(T), [len(S.getRankIds())] + state_obs(S)]


def case_to_coq2(case, obs):
    # obs = [[n, tree, ranks, owners] of the result, the same of the source afterwards];
    # the Coq case is (n, result tree, n_src, source tree)
    bad = "(Build_ctor_case 0%nat (Node []) 0%nat (Node []))"
    if not isinstance(obs, list) or len(obs) != 2:
        return bad
    parts = []
    for o in obs:
        if not isinstance(o, list) or len(o) != 4 or not isinstance(o[1], list) or not isinstance(o[0], int):
            return bad
        parts += [L.nat(o[0]), L.tree(_lit(o[1]))]
    return "(Build_ctor_case %s)" % " ".join(parts)


def _lit(t):
    # observation snapshot -> tree literal accepted by coqlit.tree (bad leaves become 0: the
    # observation itself still carries the [-2, k] marker and fails to decode in the oracle)
    if isinstance(t, int):
        return t
    out = []
    for e in t:
        if isinstance(e, list) and len(e) == 2 and isinstance(e[0], int):
            sub = e[1]
            if isinstance(sub, list) and len(sub) == 2 and sub[0] == -2 and isinstance(sub[1], int):
                out.append([e[0], 0])
            else:
                out.append([e[0], _lit(sub)])
    return out


def case_to_coq(case):
    return "(Build_ctor_case 0%nat (Node []) 0%nat (Node []))"
