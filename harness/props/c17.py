"""C17 — buffer traffic models charge exactly what their policy implies (fibertree/model/traffic.py)."""
import copy
import itertools
import json
import os
import coqlit as L
import c17_util as U

ID = "C17"
THEOREMS = ["C17_combine", "C17_combine_sorted", "C17_filter", "C17_next_use", "C17_buffet_binding",
            "C17_schedule_interleaves", "C17_buffet_run_binding", "C17_buffet_machine",
            "C17_buffet_fills_writebacks", "C17_bounds", "C17_line_granular", "C17_cache_machine",
            "C17_schedule_is_sort", "C17_sort_binds", "C17_cache_refines_min", "C17_policy_bounds",
            "C17_cache_bounds", "C17_monotone", "C17_monotone_cases", "C17_monotone_pins_refuted",
            "C17_region2_needs_staging", "C17_region2_fails", "C17_region2_only_monotone",
            "C17_cache_tie_refuted",
            "C17_model_meets_spec", "C17_model_meets_spec_cache", "C17_model_meets_spec_no_cache"]
COQ_IMPORTS = "From FT Require Import Model.Base Model.Obs Model.C17Traffic Model.C17Check."
CHECK_VO = ["Model/C17Check.v"]
CHECKER = "c17_checker"
CASE_TYPE = "c17_case"
SHARD = 60
CASE_TIMEOUT = 30

RULE = ("case = (1-2 tensors over a 1-3 rank loop nest, each Format tensor built along one of six paths that must "
        "give the declared authoritative shape - declared directly, swizzleRanks from a source rotated left/right "
        "(3-cycles for 3 ranks), fromFiber of another tensor's root with/without restated shape, "
        "Tensor(rank_ids, shape).setRoot(other root) - with stored values in the shared value modes and optional "
        "read-only queries before use; positions, coordinates and stamps from small pools or pools of one to three "
        "digits mixed (rank shapes 2-6 or 11-120); the dictionaries handed to the traffic models (trace_fns, formats) "
        "in one of four insertion orders (as built, write traces first, reversed, shuffled); 1-3 bindings (tensor, rank, coord/payload/elem, element "
        "bits, evict-on root or an outer/own rank) each with a synthetic read and/or write trace cut from one "
        "random sparse loop-nest iteration (positions in and beyond the rank's shape), line size of 1-4 elements, "
        "a buffet capacity, 0-3 ascending cache capacities from 0 to unbounded, an input/filter trace pair); "
        "observation = filterTrace rows, _combineTraces rows per binding, buffetTraffic and cacheTraffic results "
        "(per tensor read/write bits, overflows, temporary files left). distinct = distinct JSON; "
        "non-trivial = some trace has >= 2 rows and a line is touched twice")
TRUSTED = ["Coq 8.16.1 kernel (coqc; coqchk in the thorough tier); vm_compute used; native_compute not used",
           "Print Assumptions of every C17 theorem: Closed under the global context (no axioms)",
           "hand-written Gallina model coq/Model/C17Traffic.v of fibertree/model/traffic.py (file I/O abstracted to "
           "row lists), tied to the working tree by the differential correspondence check of this run",
           "harness: harness/check.py, harness/props/c17.py, harness/c17_util.py (writes the CSV traces, builds "
           "Format objects, lists the temporary directory before/after), CPython 3.12",
           "every clause of the oracle is proved for the model outside the known-finding regions 1 and 2 "
           "(C17_model_meets_spec); optimality of the reference policy min_run is not proved (it is not an oracle "
           "clause); the Format tensors are built through fibertree itself along six construction paths"]
ASSUMPTIONS = ["trace files are well formed: rows of the rank's depth, non-negative integers, stamps non-decreasing",
               "bindings have distinct (tensor, rank, type) and bind a rank of their tensor, so objects of "
               "different bindings never collide in objs[tensor][type]",
               "Format.getElem is an input (element bits), property C18 covers Format"]
EXPLANATION = ("theorems: combine = stable sort; filter = membership filter; next-use scan = next access of the line; "
               "k-way merge = stable sort by (padded stamp, binding), an interleaving; buffet state machine (in-order "
               "drain) = (line, window) first-occurrence counts, lifted to the per-tensor observation "
               "(C17_buffet_fills_writebacks); cache state machine refines the furthest-next-use-with-bypass policy "
               "(C17_cache_machine) and, outside region 1, the model's per-tensor read bits equal the oracle's "
               "min_run on its own merged sequence and the run never raises (C17_cache_refines_min); bounds of the "
               "policy (C17_policy_bounds, C17_cache_bounds); monotonicity in the capacity without staging pins "
               "(C17_monotone, C17_monotone_cases), refuted with staging pins (C17_monotone_pins_refuted, region 2); "
               "line granularity; C17_model_meets_spec: outside the known-finding regions 1 (stamp ties) and 2 "
               "(staging pins at two or more capacities) the model meets the whole oracle, unconditionally")


# ------------------------------------------------------------------ generator

POOLS = [list(range(6)), list(range(6)),
         [0, 1, 2, 5, 9, 10, 11, 19, 20, 99, 100, 101, 119],      # one, two and three digits mixed
         [7, 8, 9, 10, 11, 12, 98, 99, 100, 110, 111]]


def gen_iterations(rng, Lr, pool=None):
    """a random sparse loop nest: list of (stamp, coords), stamps strictly increasing lexicographically;
    positions and coordinates come from `pool` (small numbers, or numbers of one to three digits)"""
    out = []
    pool = pool or list(range(6))

    def rec(d, st, co):
        if d == Lr:
            out.append((st, co))
            return
        n = rng.choice([1, 2, 2, 3, 4]) if d else rng.choice([1, 2, 3, 4])
        pos = sorted(rng.sample(pool, min(n, len(pool))))
        for p in pos:
            c = p if rng.random() < 0.5 else (p * 2 + rng.randint(0, 1))
            rec(d + 1, st + [p], co + [c])
    rec(0, [], [])
    if len(out) > 14:
        keep = sorted(rng.sample(range(len(out)), 14))
        out = [out[i] for i in keep]
    return out


def prefixes(iters, n):
    seen = []
    for st, co in iters:
        p = (tuple(st[:n]), tuple(co[:n]))
        if not seen or seen[-1] != p:
            if p not in seen:
                seen.append(p)
    return seen


def gen_trace(rng, pre, shape, style, p_keep, stage=False):
    rows = []
    for st, co in pre:
        if rng.random() > p_keep:
            continue
        if style == 0:
            pos = co[-1] % max(1, shape)
        elif style == 1:
            pos = rng.randint(0, max(0, shape - 1))
        else:
            pos = rng.randint(0, 3)
        if stage and rng.random() < 0.35:
            pos = shape + rng.randint(0, 3)
        rows.append([list(st), list(co), pos])
    return rows


def line_of(case, b, row):
    t = case["tensors"][b["t"]]
    mask = [k in t["ranks"] for k in range(b["r"] + 1)]
    pre = [c for c, m in zip(row[1], mask) if m][:-1]
    return (tuple(pre), row[2] // (case["line"] // b["foot"]))


def has_ties(case):
    for b in case["bindings"]:
        rows = sorted([(r[0], 0, i, r) for i, r in enumerate(b["read"] or [])] +
                      [(r[0], 1, i, r) for i, r in enumerate(b["write"] or [])])
        for x, y in zip(rows, rows[1:]):
            if x[0] == y[0] and line_of(case, b, x[3]) != line_of(case, b, y[3]):
                return True
    return False


def has_staging(case):
    """some binding with a write trace (the cache pins intermediate writes) has an access at a position
    beyond the shape of its rank: mirror of C17Check.has_staging"""
    for b in case["bindings"]:
        if b["write"] is None:
            continue
        t = case["tensors"][b["t"]]
        shape = t["shape"][t["ranks"].index(b["r"])]
        if any(r[2] >= shape for r in (b["read"] or []) + b["write"]):
            return True
    return False


def gen_case(rng, ties=None, nb=None):
    Lr = rng.choice([1, 2, 2, 3, 3])
    pool = rng.choice(POOLS)
    wide = len(pool) != 6
    iters = gen_iterations(rng, Lr, pool)
    nt = rng.choice([1, 1, 2])
    tensors = []
    for _ in range(nt):
        k = rng.randint(1, Lr)
        ranks = sorted(rng.sample(range(Lr), k))
        shape = [rng.choice([rng.randint(2, 6), rng.randint(11, 120)]) if wide else rng.randint(2, 6) for _ in ranks]
        # how the Format's tensor is built (c17_util.build_tensor) and what it stores; not part of the Coq case:
        # the authoritative shape is the declared one along every path
        pts = sorted({tuple(rng.randrange(s) for s in shape) for _ in range(rng.randint(1, 4))})
        tensors.append({"ranks": ranks, "shape": shape, "build": rng.choice([0, 1, 2, 3, 4, 5]),
                        "pts": [list(p) for p in pts]})
    line = rng.choice([32, 64, 128])
    nb = nb or rng.choice([1, 1, 2, 2, 3])
    bindings = []
    used = set()
    layout = {}
    for _ in range(nb):
        for _try in range(10):
            ti = rng.randrange(nt)
            r = rng.choice(tensors[ti]["ranks"])
            lay = layout.get((ti, r))
            ty = rng.choice([0, 1, 2]) if lay is None else (2 if lay == "i" else rng.choice([0, 1]))
            if (ti, r, ty) not in used:
                break
        else:
            continue
        used.add((ti, r, ty))
        layout[(ti, r)] = "i" if ty == 2 else "c"
        foot = rng.choice([f for f in (8, 16, 32, 64) if f <= line and line // f <= 4])
        shape = tensors[ti]["shape"][tensors[ti]["ranks"].index(r)]
        pre = prefixes(iters, r + 1)
        kind = rng.choice(["r", "r", "rw", "rw", "w"])
        style = rng.choice([0, 1, 2])
        rd = gen_trace(rng, pre, shape, style, rng.choice([1.0, 0.8, 0.5])) if "r" in kind else None
        wr = None
        if "w" in kind:
            wr = gen_trace(rng, pre, shape, style, rng.choice([1.0, 0.7, 0.4]), stage=rng.random() < 0.6)
            if rd is not None and rng.random() < 0.6:
                # in-place update: a write of an iteration step goes to the element read in that step
                byst = {tuple(x[0]): x[2] for x in rd}
                for w in wr:
                    if tuple(w[0]) in byst and rng.random() < 0.9:
                        w[2] = byst[tuple(w[0])]
        ev = rng.choice([None] + list(range(r + 1)))
        bindings.append({"t": ti, "r": r, "type": ty, "foot": foot, "evict": ev, "read": rd, "write": wr})
    if not bindings:
        return gen_case(rng, ties, nb)
    lines = [0, 1, 2, 3, 5, 1000]
    ncap = rng.choice([1, 2, 3])
    caps = sorted(rng.sample(lines, ncap))
    caps = [c * line + (rng.choice([0, 0, line // 2]) if c else 0) for c in caps]
    # "dorder": insertion order of the dictionaries handed to the traffic models (trace_fns, formats); a correct
    # implementation does not depend on it, the Coq case does not contain it (c17_util.reorder)
    case = {"L": Lr, "tensors": tensors, "bindings": bindings, "line": line,
            "bcap": rng.choice(lines) * line, "caps": caps, "fin": None, "ffil": None, "fn": 1, "ffn": 1,
            "dorder": rng.randrange(4)}
    if rng.random() < 0.5:
        gen_filter(rng, case)
    t = has_ties(case)
    if ties is None and t:
        case["caps"] = []          # the cache clause is a known finding there (region 1)
    elif ties is False and t:
        return gen_case(rng, ties, nb)
    elif ties is True and not t:
        return gen_case(rng, ties, nb)
    return case


def gen_shared(rng):
    """two bindings (coord and payload) of one tensor rank walking the same lines: one writes
    (partly into the staging area, so its lines are pinned), the other reads"""
    while True:
        case = gen_case(rng, nb=1)
        b0 = case["bindings"][0]
        if b0["type"] == 2:
            continue
        t = case["tensors"][b0["t"]]
        shape = t["shape"][t["ranks"].index(b0["r"])]
        rows = (b0["read"] or []) + (b0["write"] or [])
        rows = sorted({tuple(r[0]): r for r in rows}.values())
        if len(rows) < 2:
            continue
        b0["read"], b0["write"] = None, [[r[0], r[1], r[2] if rng.random() < 0.5 else shape + r[2] % 2] for r in rows]
        b1 = copy.deepcopy(b0)
        b1["type"] = 1 - b0["type"]
        b1["read"], b1["write"] = [[r[0], r[1], r[2]] for r in rows if rng.random() < 0.9], None
        if rng.random() < 0.5:
            b0, b1 = b1, b0
        case["bindings"] = [b0, b1]
        if not case["caps"]:
            case["caps"] = [rng.choice([1, 2, 3, 1000]) * case["line"]]
        if has_ties(case):
            continue
        return case


def gen_built(rng):
    """a 3-rank tensor with three different rank shapes, built by a 3-cycle swizzle or re-rooted from another
    tensor's fibers; one binding per case on a random rank with a pinned write trace whose positions straddle
    all three shapes (real storage below the bound rank's shape, staging area above)"""
    while True:
        case = gen_case(rng, nb=1)
        if case["L"] != 3:
            continue
        shape = rng.sample([2, 3, 4, 5, 6, 7], 3)
        pts = sorted({tuple(rng.randrange(s) for s in shape) for _ in range(rng.randint(2, 4))})
        case["tensors"] = [{"ranks": [0, 1, 2], "shape": shape, "build": rng.choice([1, 2, 3, 4, 5]),
                            "pts": [list(p) for p in pts]}]
        b = case["bindings"][0]
        b["t"] = 0
        r = b["r"] = rng.choice([0, 1, 2])
        b["evict"] = rng.choice([None] + [e for e in range(r)]) if r else None
        iters = gen_iterations(rng, 3)
        pre = prefixes(iters, r + 1)
        hi = max(shape) + 1
        rows = [[list(st), list(co), rng.randrange(hi)] for st, co in pre if rng.random() < 0.9]
        if len(rows) < 2:
            continue
        b["write"] = rows
        b["read"] = [[x[0], x[1], x[2]] for x in rows if rng.random() < 0.5] if rng.random() < 0.6 else None
        if not case["caps"]:
            case["caps"] = [rng.choice([1, 2, 3, 1000]) * case["line"]]
        if r == 0 and b["evict"] is None:
            pass          # buffet pins (rank != evict-on) and the cache pins in any case
        if has_ties(case):
            case["caps"] = []
        return case


def gen_filter(rng, case):
    n = rng.choice([1, 2, 2])
    m = n + rng.choice([0, 0, 1])
    pool = rng.choice([[0, 1, 2, 3], [0, 1, 2, 3], [0, 1, 2, 5, 9, 10, 11, 19, 20, 100, 119], [3, 9, 10, 12, 100]])
    pts_in = sorted(set(tuple(rng.choice(pool) for _ in range(n)) for _ in range(rng.randint(0, 7))))
    pts_f = sorted(tuple(rng.choice(pool) for _ in range(m)) for _ in range(rng.randint(0, 9)))
    if rng.random() < 0.5:      # filter derived from the input: some rows kept, some extra
        pts_f = sorted([p + tuple(rng.choice(pool[:3]) for _ in range(m - n)) for p in pts_in if rng.random() < 0.6]
                       + pts_f[:3])
    if m > n:
        pts_f = sorted(set(pts_f))
    case["fin"] = [[list(p), list(p), rng.randint(0, 5)] for p in pts_in]
    case["ffil"] = [[list(p), list(p), rng.randint(0, 130)] for p in pts_f]
    case["fn"], case["ffn"] = n, m


def registered_regions():
    p = os.path.join(os.path.dirname(os.path.dirname(os.path.dirname(os.path.abspath(__file__)))),
                     "known_findings.json")
    try:
        return {k.get("region") for k in json.load(open(p)) if k.get("property") == ID and k.get("status") == "known"}
    except Exception:
        return set()


def streams(tier, rng):
    n = 600 if tier == "quick" else 6000
    yield ("random", [gen_case(rng) for _ in range(n)], False)
    yield ("multi-binding-no-ties", [gen_case(rng, ties=False, nb=3) for _ in range(n // 3)], False)
    yield ("shared-rank", [gen_shared(rng) for _ in range(n // 6)], False)
    yield ("built-tensors", [gen_built(rng) for _ in range(n // 4)], False)
    if 1 in registered_regions() or os.environ.get("C17_TIES"):
        # same-step read/write to different lines with cache runs: known finding, region 1
        yield ("cache-ties", [gen_case(rng, ties=True) for _ in range(n // 6)], False)
    if 2 in registered_regions() or os.environ.get("C17_PINS"):
        # fills that increase with the capacity (known finding, region 2 = exactly the cases whose model
        # totals are not monotone); the first case is the witness of C17_monotone_pins_refuted
        yield ("cache-pins", [copy.deepcopy(PIN_WITNESS)] + [gen_built(rng) for _ in range(n // 12)], False)
    if tier == "thorough":
        yield ("exhaustive-1rank", list(exhaustive_small()), True)


PIN_WITNESS = {"L": 1, "tensors": [{"ranks": [0], "shape": [3], "build": 3, "pts": [[0]]},
                                    {"ranks": [0], "shape": [3], "build": 0, "pts": [[0], [1]]}],
               "bindings": [{"t": 1, "r": 0, "type": 0, "foot": 32, "evict": None,
                             "read": [[[1], [3], 2], [[5], [5], 2]], "write": [[[1], [3], 3]]},
                            {"t": 1, "r": 0, "type": 1, "foot": 16, "evict": None,
                             "read": None, "write": [[[2], [4], 3], [[5], [5], 0]]}],
               "line": 64, "bcap": 64, "caps": [0, 64], "fin": None, "ffil": None, "fn": 1, "ffn": 1}


def exhaustive_small():
    """one binding, one loop rank, every read-only trace of <= 5 accesses over 3 lines, capacities 0-3 lines"""
    for k in range(1, 6):
        for seq in itertools.product(range(3), repeat=k):
            rows = [[[i], [c], c] for i, c in enumerate(seq)]
            yield {"L": 1, "tensors": [{"ranks": [0], "shape": [3]}],
                   "bindings": [{"t": 0, "r": 0, "type": 1, "foot": 32, "evict": None, "read": rows, "write": None}],
                   "line": 32, "bcap": 64, "caps": [0, 32, 64, 96], "fin": None, "ffil": None, "fn": 1, "ffn": 1}


def nontrivial(case):
    for b in case["bindings"]:
        rows = (b["read"] or []) + (b["write"] or [])
        if len(rows) >= 2:
            ls = [line_of(case, b, r) for r in rows]
            if len(set(ls)) < len(ls):
                return True
    return False


def describe(case):
    return {"loop_ranks": case["L"], "bindings": len(case["bindings"]),
            "writes": any(b["write"] is not None for b in case["bindings"]),
            "staging_write": any(b["write"] is not None and any(
                w[2] >= case["tensors"][b["t"]]["shape"][case["tensors"][b["t"]]["ranks"].index(b["r"])]
                for w in b["write"]) for b in case["bindings"]),
            "evict_root": any(b["evict"] is None for b in case["bindings"]),
            "multi_elem_line": any(case["line"] // b["foot"] > 1 for b in case["bindings"]),
            "cache_runs": len(case["caps"]), "ties": has_ties(case), "filter": case["fin"] is not None,
            "tensor_build": ",".join(str(t.get("build", 0)) for t in case["tensors"]),
            "staging_and_two_caps": has_staging(case) and len(case["caps"]) >= 2,
            "dict_order": case.get("dorder", 0),
            "multi_digit": any(v >= 10 for b in case["bindings"] for r in (b["read"] or []) + (b["write"] or [])
                               for v in r[0] + r[1] + [r[2]])}


# ------------------------------------------------------------------ Coq literal

def row(r):
    return "(%s, %s, %s)" % (L.zlist(r[0]), L.zlist(r[1]), L.z(r[2]))


def rows(rs):
    return L.opt(rs, lambda x: L.lst(row(r) for r in x))


def case_to_coq(c):
    ts = L.lst("(Build_c17_tensor %s %s)" % (L.lst(L.nat(k) for k in t["ranks"]), L.zlist(t["shape"]))
               for t in c["tensors"])
    bs = L.lst("(Build_c17_bind %s %s %s %s %s %s %s)" % (
        L.nat(b["t"]), L.nat(b["r"]), L.z(b["type"]), L.z(b["foot"]), L.opt(b["evict"], L.nat),
        rows(b["read"]), rows(b["write"])) for b in c["bindings"])
    fin = "None" if c["fin"] is None else "(Some (%s, %s))" % (L.lst(row(r) for r in c["fin"]),
                                                               L.lst(row(r) for r in c["ffil"]))
    return "(Build_c17_case %s %s %s %s %s %s)" % (ts, bs, L.z(c["line"]), L.z(c["bcap"]), L.zlist(c["caps"]), fin)


def run_impl(case):
    return U.run_all(case)


def repro_py(case):
    return ("import sys; sys.path.insert(0,'/verif/harness'); import c17_util as U\n"
            "case = %r\n"
            "fil, comb, buffet, cache = U.run_all(case)\n"
            "print('filter', fil); print('combined', comb); print('buffet', buffet)\n"
            "for cap, r in zip(case['caps'], cache): print('cache', cap, r)\n" % (case,))


def shrinks(case):
    bs = case["bindings"]
    if len(bs) > 1:
        for i in range(len(bs)):
            c = copy.deepcopy(case)
            del c["bindings"][i]
            yield c
    if case["fin"] is not None:
        c = copy.deepcopy(case)
        c["fin"] = c["ffil"] = None
        yield c
        for k in ("fin", "ffil"):
            for i in range(len(case[k])):
                c = copy.deepcopy(case)
                del c[k][i]
                yield c
    if len(case["caps"]) > 1:
        for i in range(len(case["caps"])):
            c = copy.deepcopy(case)
            del c["caps"][i]
            yield c
    for bi, b in enumerate(bs):
        for acc in ("read", "write"):
            if b[acc]:
                for i in range(len(b[acc])):
                    c = copy.deepcopy(case)
                    del c["bindings"][bi][acc][i]
                    yield c
            if b[acc] is not None and b["read" if acc == "write" else "write"] is not None:
                c = copy.deepcopy(case)
                c["bindings"][bi][acc] = None
                yield c
        if b["evict"] is not None:
            c = copy.deepcopy(case)
            c["bindings"][bi]["evict"] = None
            yield c


def search(disagreeing, rng, rnd):
    return [gen_case(rng) for _ in range(120)]
