"""C11 — arithmetic on boxes (Payload), elements (CoordPayload) and fibers agrees with arithmetic on
the values (fibertree/core/payload.py, coord_payload.py, fiber.py:3017-3304)."""
import os, sys, itertools
from fractions import Fraction
import coqlit as L

sys.path.insert(0, os.path.dirname(os.path.dirname(os.path.abspath(__file__))))
import c11_translate  # noqa: E402

ID = "C11"
THEOREMS = ["C11_payload_ops", "C11_element_ops", "C11_ops_complete", "C11_python_cmp_swap",
            "C11_fiber_add", "C11_fiber_mul", "C11_fiber_add_scalar", "C11_fiber_mul_scalar",
            "C11_inplace_agree", "C11_fiber_history", "C11_active_range_not_read", "C11_fiber_chain_step", "C11_fiber_chain", "C11_chain_operands",
            "C11_fiber_imul_pinned_refuted", "C11_model_meets_spec"]
COQ_IMPORTS = ("From FT Require Import Model.Base Model.Obs Model.C11PyOps Model.C11Fiber "
               "Gen.C11PayloadOps Gen.C11CoordPayloadOps Model.C11Check.")
CHECK_VO = ["Model/C11Check.v"]
CHECKER = "c11_checker"
CASE_TYPE = "c11_case"
SHARD = 400

RULE = ("case = (a) one operator application: in-place flag x operator (+ - * / // & | << == != < <= > >=; "
        "in-place + - * / and <<=) x operand kinds (scalar/box/element/same-object) x operand values "
        "(ints, exactly representable floats), observation = kind, identity and value of the result and of "
        "both operands afterwards; (b) fiber arithmetic: +/* with a fiber or a scalar, value-returning, "
        "reflected and in-place form on the same operands, observation = stored (coord, value) lists of the "
        "results and operands; (c) the same on fibers built with an explicit active_range and after a first "
        "in-place step a += c / a *= c (two-step history on one object; populate copies c's active range), "
        "observation additionally = a after the first step and a.getActive(); (d) chains of 1-3 value-returning / "
        "in-place steps on an accumulator, observation = after EVERY step the accumulator, the object a0 and "
        "every fiber operand of the chain (operands must keep their values), then (c), then a0 + first operand "
        "evaluated again. distinct = distinct canonical JSON; non-trivial = operator case with a "
        "non-zero operand, fiber case with at least one stored element")
TRUSTED = ["Coq 8.16.1 kernel (coqc; coqchk in the thorough tier); vm_compute used; native_compute not used",
           "Print Assumptions of every C11 theorem: Closed under the global context (no axioms)",
           "translator harness/c11_translate.py (ast only, fail-closed) and the semantics Model/C11PyOps.v gives "
           "its output, incl. CPython's binary-operator dispatch and the hard-wired behaviour of "
           "Payload.__new__/__init__/__setattr__ and CoordPayload.__init__ (guarded by a body hash)",
           "Python's arithmetic on raw values: a universally quantified parameter of the operator theorems; "
           "bop_py in Model/C11Check.v for the differential run (exact ints / exactly representable floats)",
           "hand-written Gallina model coq/Model/C11Fiber.v of fiber.py:3017-3304 and of the iterators it uses, "
           "tied to the working tree by the differential correspondence check of this run",
           "harness: harness/check.py, harness/props/c11.py, CPython 3.12 running the implementation"]
ASSUMPTIONS = ["comparison operators on raw Python values satisfy x < y == y > x etc. (premise cmp_swap_law of "
               "the operator theorems; proved for bop_py)",
               "leaf-level fibers with integer payloads, leaf default 0, unowned; strictly increasing "
               "non-negative coordinates below the declared shape",
               "float operands/results restricted to values binary64 represents exactly (generator filter)"]
EXPLANATION = ("operator tables regenerated from the Python AST on every run and re-proved against spec_op for all "
               "values; fiber +/* proved pointwise for all sorted fibers; oracle evaluated on the implementation")

OPS = ["OAdd", "OSub", "OMul", "OTrueDiv", "OFloorDiv", "OAnd", "OOr", "OLshift",
       "OEq", "ONe", "OLt", "OLe", "OGt", "OGe"]
INPLACE_OPS = ["OAdd", "OSub", "OMul", "OTrueDiv", "OLshift"]
KINDS = ["KS", "KB", "KE", "KSame"]
INT_ONLY = {"OAnd", "OOr", "OLshift"}


def pregen(repo, coqdir):
    c11_translate.pregen(repo, coqdir)


def in_scope(inplace, o, kl, kr):
    if kl == "KS" and kr in ("KS", "KSame"):
        return False
    if kl == "KSame":
        return False
    if kl == "KS" and inplace:
        return False
    if kl == "KB" and kr == "KE":
        return False
    if inplace and o not in INPLACE_OPS:
        return False
    return True


COMBOS = [(i, o, kl, kr) for i in (False, True) for o in OPS for kl in KINDS for kr in KINDS
          if in_scope(i, o, kl, kr)]


# ------------------------------------------------------------------ values

def val_py(v):
    return v[1] if v[0] == "i" else v[1] / v[2]


def val_frac(v):
    return Fraction(v[1]) if v[0] == "i" else Fraction(v[1], v[2])


def mkfloat(rng):
    den = rng.choice([1, 2, 4, 8])
    num = rng.randint(-40, 40)
    f = Fraction(num, den)
    return ["f", f.numerator, f.denominator]


def gen_val(rng, o, right=False):
    if o in INT_ONLY:
        if o == "OLshift" and right:
            return ["i", rng.choice([0, 1, 2, 3, 5, 8])]
        return ["i", rng.choice([0, 1, 2, 3, 5, 6, 7, 12, 255, -1, -6, rng.randint(-50, 50)])]
    if rng.random() < 0.6:
        return ["i", rng.choice([0, 1, -1, 2, 3, 4, 7, -8, 10, rng.randint(-30, 30)])]
    return mkfloat(rng)


PYOPS = {"OAdd": lambda a, b: a + b, "OSub": lambda a, b: a - b, "OMul": lambda a, b: a * b,
         "OTrueDiv": lambda a, b: a / b, "OFloorDiv": lambda a, b: a // b, "OAnd": lambda a, b: a & b,
         "OOr": lambda a, b: a | b, "OLshift": lambda a, b: a << b, "OEq": lambda a, b: a == b,
         "ONe": lambda a, b: a != b, "OLt": lambda a, b: a < b, "OLe": lambda a, b: a <= b,
         "OGt": lambda a, b: a > b, "OGe": lambda a, b: a >= b}


def exact(o, x, y):
    """Python's own result on the raw values is exactly the rational result (generator filter:
    keeps the differential run inside the fragment where bop_py = Python; no fibertree involved)"""
    if o in ("OTrueDiv", "OFloorDiv") and val_frac(y) == 0:
        return False
    if o in ("OEq", "ONe", "OLt", "OLe", "OGt", "OGe") or o in INT_ONLY:
        return True
    r = PYOPS[o](val_py(x), val_py(y))
    fx, fy = val_frac(x), val_frac(y)
    if o == "OAdd":
        e = fx + fy
    elif o == "OSub":
        e = fx - fy
    elif o == "OMul":
        e = fx * fy
    elif o == "OTrueDiv":
        e = fx / fy
    else:
        e = Fraction((fx / fy).__floor__())
    return Fraction(r) == e


def gen_op_case(rng, combo=None):
    for _ in range(100):
        i, o, kl, kr = combo or rng.choice(COMBOS)
        vo = "OAdd" if (i and o == "OLshift") else o      # "<<=" assigns: any value
        x = gen_val(rng, vo)
        y = gen_val(rng, vo, right=True)
        yy = x if kr == "KSame" else y
        if o == "OLshift" and not i and kr == "KSame" and x[1] < 0:
            continue
        if o == "OLshift" and not i and kr == "KSame" and x[1] > 16:
            continue
        if not i or o != "OLshift":
            if not exact(o, x, yy):
                continue
        return {"t": "op", "inplace": i, "op": o, "kl": kl, "kr": kr, "x": x, "y": y}
    raise RuntimeError("generator could not find exact operands")


# ------------------------------------------------------------------ fibers

def gen_zfib(rng, shape_hi=8):
    n = rng.randint(0, shape_hi)
    p_abs = rng.choice([0.0, 0.3, 0.5, 0.8, 1.0])
    p_zero = rng.choice([0.0, 0.0, 0.2, 0.5])
    es = []
    for c in range(n):
        if rng.random() < p_abs:
            continue
        es.append([c, 0 if rng.random() < p_zero else rng.choice([1, 2, 3, -1, -2, 5, rng.randint(-9, 9)])])
    shape = None if rng.random() < 0.3 else n + rng.choice([0, 0, 1, 3])
    if shape is not None and es and shape <= es[-1][0]:
        shape = es[-1][0] + 1
    return shape, es


def gen_fib_case(rng, mul=None, withfiber=None):
    mul = rng.random() < 0.5 if mul is None else mul
    withfiber = rng.random() < 0.6 if withfiber is None else withfiber
    sa, a = gen_zfib(rng)
    sb, b = gen_zfib(rng)
    if rng.random() < 0.15:
        # cancelling sums / aligned operands
        b = [[c, -v] for c, v in a]
        sb = sa
    if rng.random() < 0.1:
        # disjoint operands
        a = [[2 * c, v] for c, v in a]
        b = [[2 * c + 1, v] for c, v in b]
        sa = None if sa is None else 2 * sa + 2
        sb = None if sb is None else 2 * sb + 2
    s = rng.choice([0, 1, 2, -1, 3, -3, 7])
    return {"t": "fib", "mul": bool(mul), "withfiber": bool(withfiber), "sa": sa, "a": a, "sb": sb, "b": b, "s": s}


def gen_active(rng, shape, es):
    """an explicit active range for a fiber: None, (0, shape) or a different (lo, hi)"""
    n = shape if shape is not None else (es[-1][0] + 1 if es else 0)
    r = rng.random()
    if r < 0.3:
        return None
    if r < 0.4:
        return [0, n]
    lo = rng.randint(0, max(n, 1))
    hi = rng.randint(lo, max(n, 1) + 2)
    return [lo, hi]


def gen_afib(rng, shape_hi=8, p_active=1.0):
    sh, es = gen_zfib(rng, shape_hi)
    act = gen_active(rng, sh, es) if rng.random() < p_active else None
    return {"s": sh, "act": act, "es": es}


def gen_hist_case(rng):
    """fiber objects with explicit active ranges and two-step histories  a op= c ; then a (+|*) x"""
    a = gen_afib(rng)
    b = gen_afib(rng)
    pre = None
    if rng.random() < 0.7:
        hi = a["s"] if a["s"] is not None else rng.randint(0, 9)
        c = gen_afib(rng, shape_hi=max(0, min(8, hi)))
        if a["s"] is not None:
            c["es"] = [e for e in c["es"] if e[0] < a["s"]]
            if c["s"] is not None and c["es"] and c["s"] <= c["es"][-1][0]:
                c["s"] = c["es"][-1][0] + 1
        pre = {"mul": rng.random() < 0.3, "c": c}
    return {"t": "fibh", "pre": pre, "mul": rng.random() < 0.4, "withfiber": rng.random() < 0.3,
            "a": a, "b": b, "s": rng.choice([0, 1, 2, -1, 3, -3, 7])}


STEP_KINDS = ["SAddF", "SMulF", "SAddS", "SMulS", "SIAddF", "SIMulF", "SIAddS", "SIMulS"]


def gen_chain_case(rng):
    """chains of 1-3 steps on an accumulator (results of + and * become operands of later scalar and
    in-place forms), with and without declared shapes; fiber operands that reach past the accumulator"""
    declared = rng.random() < 0.35
    hi = rng.randint(1, 8)
    a0 = gen_afib(rng, shape_hi=rng.choice([0, 2, hi]), p_active=0.3)
    if declared:
        a0["s"] = hi + rng.choice([0, 0, 2])
        a0["es"] = [e for e in a0["es"] if e[0] < a0["s"]]
    else:
        a0["s"] = None
    if a0["act"] is not None and not isinstance(a0["act"], list):
        a0["act"] = None
    steps = []
    for i in range(rng.choice([1, 1, 2, 2, 3])):
        k = rng.choice(STEP_KINDS + ["SAddF", "SAddF", "SIAddF", "SMulS"])
        if i == 0 and rng.random() < 0.3:
            k = rng.choice(["SAddF", "SMulS", "SMulF"])      # a value-returning result enters the chain
        if i > 0 and steps[-1]["k"] == "SAddF" and rng.random() < 0.5:
            k = rng.choice(["SIMulS", "SIAddS", "SIAddF", "SIMulF"])   # ... and is then updated in place
        if k.endswith("F"):
            c = gen_afib(rng, shape_hi=hi, p_active=0.3)
            if a0["s"] is not None:
                c["es"] = [e for e in c["es"] if e[0] < a0["s"]]
            if rng.random() < 0.5:
                c["s"] = None
            if c["s"] is not None and c["es"] and c["s"] <= c["es"][-1][0]:
                c["s"] = c["es"][-1][0] + 1
            steps.append({"k": k, "c": c})
        else:
            steps.append({"k": k, "v": rng.choice([0, 1, 2, -1, 3])})
    b = gen_afib(rng, p_active=0.3)
    return {"t": "fibc", "a0": a0, "steps": steps, "mul": rng.random() < 0.3, "withfiber": rng.random() < 0.2,
            "b": b, "s": rng.choice([1, 2, -1, 3, -3, 7, 0])}


def streams(tier, rng):
    reps = 3 if tier == "quick" else 40
    ops = []
    for combo in COMBOS:
        for _ in range(reps):
            ops.append(gen_op_case(rng, combo))
    yield ("operators-all-combos", ops, False)
    n = 600 if tier == "quick" else 12000
    yield ("fibers-random", [gen_fib_case(rng) for _ in range(n)], False)
    n = 600 if tier == "quick" else 12000
    yield ("fibers-active-range-and-history", [gen_hist_case(rng) for _ in range(n)], False)
    n = 700 if tier == "quick" else 14000
    yield ("fibers-chains", [gen_chain_case(rng) for _ in range(n)], False)
    if tier == "thorough":
        # exhaustive small scope: coordinates 0..2, per coordinate absent / explicit 0 / 1 / -1 ... both operands
        cases = []
        per = [None, 0, 1, -1, 2]
        fibs = [[[c, v] for c, v in enumerate(t) if v is not None] for t in itertools.product(per, repeat=3)]
        for a in fibs:
            for b in fibs:
                for mul in (False, True):
                    cases.append({"t": "fib", "mul": mul, "withfiber": True, "sa": 3, "a": a, "sb": 3, "b": b, "s": 0})
            for s in (0, 2, -1):
                for mul in (False, True):
                    cases.append({"t": "fib", "mul": mul, "withfiber": False, "sa": 3, "a": a, "sb": None, "b": [], "s": s})
        yield ("fibers-exhaustive-3", cases, True)


def nontrivial(c):
    if c["t"] == "op":
        return c["x"][1] != 0 or c["y"][1] != 0
    if c["t"] == "fibh":
        return bool(c["a"]["es"]) or bool(c["b"]["es"]) or bool(c["pre"] and c["pre"]["c"]["es"])
    if c["t"] == "fibc":
        return bool(c["a0"]["es"]) or any(st.get("c", {}).get("es") for st in c["steps"])
    return bool(c["a"]) or bool(c["b"])


def describe(c):
    if c["t"] == "op":
        return {"kind": "op", "op": ("i" if c["inplace"] else "") + c["op"], "operands": c["kl"] + "-" + c["kr"],
                "float": c["x"][0] == "f" or c["y"][0] == "f"}
    if c["t"] == "fibc":
        def last0(es):
            return es[-1][0] + 1 if es else 0
        reach = max([last0(st["c"]["es"]) for st in c["steps"] if st["k"] in ("SAddF", "SIAddF")] + [0])
        return {"kind": "fibc", "steps": "-".join(st["k"][1:] for st in c["steps"]),
                "fop": ("mul" if c["mul"] else "add") + ("-fiber" if c["withfiber"] else "-scalar"),
                "a0_shape_declared": c["a0"]["s"] is not None, "a0_empty": not c["a0"]["es"],
                "operand_reaches_past_a0": reach > last0(c["a0"]["es"])}
    if c["t"] == "fibh":
        def last(es):
            return es[-1][0] + 1 if es else 0
        a = c["a"]
        pre = c["pre"]
        iadd = pre is not None and not pre["mul"]
        sh = a["s"] if a["s"] is not None else max(last(a["es"]), last(pre["c"]["es"]) if iadd else 0)
        if iadd:
            cc = pre["c"]
            act = cc["act"] or [0, cc["s"] if cc["s"] else last(cc["es"])]
        else:
            act = a["act"]
        return {"kind": "fibh", "fop": ("mul" if c["mul"] else "add") + ("-fiber" if c["withfiber"] else "-scalar"),
                "first_step": "none" if c["pre"] is None else ("imul" if c["pre"]["mul"] else "iadd"),
                "active_differs_from_shape": act is not None and list(act) != [0, sh]}
    ca = {x for x, v in c["a"] if v != 0}
    cb = {x for x, v in c["b"] if v != 0}
    return {"kind": "fib", "fop": ("mul" if c["mul"] else "add") + ("-fiber" if c["withfiber"] else "-scalar"),
            "empty_operand": (not ca) or (c["withfiber"] and not cb),
            "overlap": bool(ca & cb) if c["withfiber"] else "n/a",
            "explicit_zero": any(v == 0 for _, v in c["a"] + c["b"]),
            "shape_declared": c["sa"] is not None}


# ------------------------------------------------------------------ Coq literals

def coq_val(v):
    if v[0] == "i":
        return "(PyInt %s)" % L.z(v[1])
    return "(PyFlt %s %s)" % (L.z(v[1]), L.z(v[2]))


def coq_zfib(a):
    return L.lst(L.tup(L.z(c), L.z(v)) for c, v in a)


def case_to_coq(c):
    if c["t"] == "op":
        return "(COp %s %s %s %s %s %s)" % (L.b(c["inplace"]), c["op"], c["kl"], c["kr"], coq_val(c["x"]), coq_val(c["y"]))
    if c["t"] == "fibc":
        def af(f):
            act = "None" if f["act"] is None else "(Some (%s, %s))" % (L.z(f["act"][0]), L.z(f["act"][1]))
            return "(Build_afib %s %s %s)" % (L.opt(f["s"], L.z), act, coq_zfib(f["es"]))
        steps = L.lst("(%s %s)" % (st["k"], af(st["c"]) if "c" in st else L.z(st["v"])) for st in c["steps"])
        return "(CFibC %s %s %s %s %s %s)" % (af(c["a0"]), steps, L.b(c["mul"]), L.b(c["withfiber"]), af(c["b"]), L.z(c["s"]))
    if c["t"] == "fibh":
        def af(f):
            act = "None" if f["act"] is None else "(Some (%s, %s))" % (L.z(f["act"][0]), L.z(f["act"][1]))
            return "(Build_afib %s %s %s)" % (L.opt(f["s"], L.z), act, coq_zfib(f["es"]))
        pre = "None" if c["pre"] is None else "(Some (%s, %s))" % (L.b(c["pre"]["mul"]), af(c["pre"]["c"]))
        return "(CFibH %s %s %s %s %s %s)" % (pre, L.b(c["mul"]), L.b(c["withfiber"]), af(c["a"]), af(c["b"]), L.z(c["s"]))
    return "(CFib %s %s %s %s %s %s %s)" % (L.b(c["mul"]), L.b(c["withfiber"]), L.opt(c["sa"], L.z), coq_zfib(c["a"]),
                                            L.opt(c["sb"], L.z), coq_zfib(c["b"]), L.z(c["s"]))


# ------------------------------------------------------------------ implementation driver

def enc_raw(v):
    if isinstance(v, bool):
        return [2, v, 1]
    if isinstance(v, int):
        return [0, v, 1]
    if isinstance(v, float) and v == v and v not in (float("inf"), float("-inf")):
        n, d = v.as_integer_ratio()
        return [1, n, d]
    return [9, 0, 0]


def run_op(c):
    import operator
    from fibertree import Payload, CoordPayload

    def mk(kind, v, coord):
        if kind == "KS":
            return val_py(v)
        if kind == "KB":
            return Payload(val_py(v))
        return CoordPayload(coord, val_py(v))
    lhs = mk(c["kl"], c["x"], 7)
    rhs = lhs if c["kr"] == "KSame" else mk(c["kr"], c["y"], 9)
    lbox0 = lhs.payload if isinstance(lhs, CoordPayload) else None
    rbox0 = rhs.payload if isinstance(rhs, CoordPayload) else None
    name = {"OAdd": "add", "OSub": "sub", "OMul": "mul", "OTrueDiv": "truediv", "OFloorDiv": "floordiv",
            "OAnd": "and_", "OOr": "or_", "OLshift": "lshift", "OEq": "eq", "ONe": "ne", "OLt": "lt",
            "OLe": "le", "OGt": "gt", "OGe": "ge"}[c["op"]]
    if c["inplace"]:
        fn = getattr(operator, "i" + name.rstrip("_") if name.endswith("_") else "i" + name)
    else:
        fn = getattr(operator, name)
    try:
        res = fn(lhs, rhs)
    except TypeError:
        return [-1, 1]
    except AssertionError:
        return [-1, 2]
    except AttributeError:
        return [-1, 5]
    except ZeroDivisionError:
        return [-1, 6]

    def box_ident(b):
        if isinstance(lhs, Payload) and b is lhs:
            return 1
        if lbox0 is not None and b is lbox0:
            return 3
        if isinstance(rhs, Payload) and b is rhs:
            return 2
        if rbox0 is not None and b is rbox0:
            return 4
        return 0

    def obs(v):
        if v is None:
            return [3]
        if isinstance(v, Payload):
            return [1, box_ident(v), enc_raw(v.value)]
        if isinstance(v, CoordPayload):
            ident = 1 if v is lhs else (2 if v is rhs else 0)
            p = v.payload
            if not isinstance(p, Payload):
                return [4]
            return [2, ident, v.coord, box_ident(p), enc_raw(p.value)]
        return [0, enc_raw(v)]
    return [obs(res), obs(lhs), obs(rhs)]


def run_fib(c):
    import copy
    from fibertree import Fiber
    import ftutil as U

    def mk(shape, es):
        return mk_afib({"s": shape, "act": None, "es": es})
    a, b = mk(c["sa"], c["a"]), mk(c["sb"], c["b"])
    x = b if c["withfiber"] else U.dress(c["s"])
    r1 = (a * x) if c["mul"] else (a + x)
    r2 = None
    if not c["withfiber"]:
        r2 = [U.snap((x * a) if c["mul"] else (x + a))]
    a_after = U.snap(a)
    a2 = mk(c["sa"], c["a"])
    a2_id = a2
    if c["mul"]:
        a2 *= x
    else:
        a2 += x
    return [U.snap(r1), r2 if r2 is not None else [], U.snap(a2_id), a2 is a2_id, a_after, U.snap(b)]


def run_fibh(c):
    import ftutil as U
    mk = mk_afib

    def history():
        a = mk(c["a"])
        if c["pre"] is not None:
            cc = mk(c["pre"]["c"])
            if c["pre"]["mul"]:
                a *= cc
            else:
                a += cc
        return a
    a = history()
    a1 = U.snap(a)
    act = a.getActive()
    b = mk(c["b"])
    x = b if c["withfiber"] else U.dress(c["s"])
    r1 = (a * x) if c["mul"] else (a + x)
    r2 = []
    if not c["withfiber"]:
        r2 = [U.snap((x * a) if c["mul"] else (x + a))]
    a_after = U.snap(a)
    a2 = history()
    a2_id = a2
    if c["mul"]:
        a2 *= x
    else:
        a2 += x
    return [a1, [int(act[0]), int(act[1])],
            [U.snap(r1), r2, U.snap(a2_id), a2 is a2_id, a_after, U.snap(b)]]


def mk_afib(f):
    """fiber object from a case literal; values in the representation of the current mode (ftutil)"""
    from fibertree import Fiber
    import ftutil as U
    kw = {}
    if f["s"] is not None:
        kw["shape"] = f["s"]
    if f["act"] is not None:
        kw["active_range"] = tuple(f["act"])
    fib = Fiber([x for x, _ in f["es"]], [U.dress(v) for _, v in f["es"]], **kw)
    if U.MODE.get("touch"):
        U.touch(fib)
    return fib


def run_fibc(c):
    import ftutil as U

    def chain(trace=None):
        a0 = mk_afib(c["a0"])
        ops = [mk_afib(st["c"]) for st in c["steps"] if "c" in st]     # the operand objects stay around
        it = iter(ops)
        acc = a0
        for st in c["steps"]:
            x = next(it) if "c" in st else U.dress(st["v"])
            k = st["k"]
            if k in ("SAddF", "SAddS"):
                acc = acc + x
            elif k in ("SMulF", "SMulS"):
                acc = acc * x
            elif k in ("SIAddF", "SIAddS"):
                acc += x
            else:
                acc *= x
            if U.MODE.get("touch"):
                U.touch(acc)            # read-only queries between the steps (arms any memoisation)
            if trace is not None:
                # accumulator, the object a0 and every fiber operand, after this step
                trace.append([U.snap(acc), U.snap(a0), [U.snap(o) for o in ops]])
        return acc, a0, ops
    trace = []
    a, a0, ops = chain(trace)
    act = a.getActive()
    decl = a.getRankAttrs().getShape()
    b = mk_afib(c["b"])
    x = b if c["withfiber"] else U.dress(c["s"])
    r1 = (a * x) if c["mul"] else (a + x)
    r2 = []
    if not c["withfiber"]:
        r2 = [U.snap((x * a) if c["mul"] else (x + a))]
    a_after = U.snap(a)
    a2, _, _ = chain()
    a2_id = a2
    if c["mul"]:
        a2 *= x
    else:
        a2 += x
    fibobs = [U.snap(r1), r2, U.snap(a2_id), a2 is a2_id, a_after, U.snap(b)]
    re = [U.snap(a0 + ops[0])] if ops else []          # a0 + c once more, at the very end
    return [trace, [int(act[0]), int(act[1])], [] if decl is None else [int(decl)], fibobs, re]


def run_impl(c):
    if c["t"] == "op":
        return run_op(c)
    if c["t"] == "fibc":
        return run_fibc(c)
    return run_fibh(c) if c["t"] == "fibh" else run_fib(c)


def repro_py(c):
    return ("import sys; sys.path.insert(0,'/verif/harness'); sys.path.insert(0,'/verif/harness/props')\n"
            "import c11\nprint(c11.run_impl(%r))\n" % (c,))


def shrinks(c):
    import copy
    if c["t"] == "op":
        for k in ("x", "y"):
            if c[k][0] == "i" and c[k][1] not in (0, 1, 2):
                for nv in (1, 2):
                    d = copy.deepcopy(c)
                    d[k] = ["i", nv]
                    yield d
        return
    if c["t"] == "fibc":
        for i in range(len(c["steps"])):
            if len(c["steps"]) > 1:
                d = copy.deepcopy(c)
                del d["steps"][i]
                yield d
            if "c" in c["steps"][i]:
                for j in range(len(c["steps"][i]["c"]["es"])):
                    d = copy.deepcopy(c)
                    del d["steps"][i]["c"]["es"][j]
                    yield d
        for name in ("a0", "b"):
            for j in range(len(c[name]["es"])):
                d = copy.deepcopy(c)
                del d[name]["es"][j]
                yield d
            if c[name]["act"] is not None:
                d = copy.deepcopy(c)
                d[name]["act"] = None
                yield d
        return
    if c["t"] == "fibh":
        fs = [("a", c["a"]), ("b", c["b"])] + ([("c", c["pre"]["c"])] if c["pre"] else [])
        for name, f in fs:
            for i in range(len(f["es"])):
                d = copy.deepcopy(c)
                g = d["pre"]["c"] if name == "c" else d[name]
                del g["es"][i]
                yield d
            if f["act"] is not None:
                d = copy.deepcopy(c)
                g = d["pre"]["c"] if name == "c" else d[name]
                g["act"] = None
                yield d
        if c["pre"] is not None:
            d = copy.deepcopy(c)
            d["pre"] = None
            yield d
        return
    for k in ("a", "b"):
        for i in range(len(c[k])):
            d = copy.deepcopy(c)
            del d[k][i]
            yield d
    for k in ("sa", "sb"):
        if c[k] is not None:
            d = copy.deepcopy(c)
            d[k] = None
            yield d


def search(disagreeing, rng, rnd):
    out = []
    for combo in COMBOS:
        out.append(gen_op_case(rng, combo))
    out += [gen_fib_case(rng) for _ in range(300)]
    out += [gen_hist_case(rng) for _ in range(300)]
    out += [gen_chain_case(rng) for _ in range(300)]
    return out
