"""C05 — Populate (z << a) offers exactly a's coordinates and keeps only what was written
(fibertree/core/iterators.py __lshift__; model coq/Model/C05Populate.v).

case = {"n": ranks, "dz"/"da": leaf defaults, "z"/"a": tree literals, "U": [bool per rank of a],
        "shape": [per rank], "body": [[path, act]...]}
act  = ["desc"] (interior: run the nested populate loop) | ["refbelow", pt, w] (interior:
       getPayloadRef(*pt) on the offered sub-fiber, then w) | ["none"] | ["assign", v] | ["add", v]
       (leaf: what is done through the reference); paths not listed are left alone.
observation = [a state before, z state before, [event...], z state after, a state after]
event = [path, a's payload, z's payload as handed out, z state at the yield, active range of z's fiber]
state = [raw tree, per-rank fiber lists as paths, owner flags]  (harness/store_hist.state_obs)
"""
import copy
import itertools
import coqlit as L
import ftutil as U
import store_hist as H

ID = "C05"
# the model numbers fiber identities and rank lists in construction (DFS) order: no post-construction
# re-assignment of sub-trees in the shared builder (the histories themselves contain such assignments)
REASSIGN_MODE = False
THEOREMS = ["C05_positions", "C05_generator_position_free", "C05_offers", "C05_offers_meaning", "C05_result",
            "C05_outside_content", "C05_outside_untouched", "C05_no_residue", "C05_no_residue_ext",
            "C05_no_residue_refbelow_refuted", "C05_raw_all_levels",
            "C05_raw_meaning", "C05_outside_untouched_levels", "C05_no_residue_levels", "C05_wf",
            "C05_throughout", "C05_source_pure", "C05_model_meets_spec"]
COQ_IMPORTS = ("From FT Require Import Model.Base Model.Obs Model.Store Model.StoreCheck "
               "Model.C05Populate Model.C05PopulateCheck.")
CHECK_VO = ["Model/C05PopulateCheck.v"]
CHECKER = "c05_checker"
CASE_TYPE = "c05_case"
SHARD = 40
RULE = ("case = (destination tensor z and source tensor a of depth 1-3 incl. explicit defaults and empty "
        "sub-fibers, z empty / disjoint / overlapping / superset of a, leaf defaults, per-rank C/U format of a, "
        "a loop nest whose body per offered reference leaves / assigns / accumulates / assigns the default, and "
        "per interior reference runs the nested populate loop or not); observation = state snapshot (raw tree, "
        "per-rank fiber lists as paths, owner flags) of a and z before and after, and per yield the path, a's "
        "payload, z's payload handed out and z's state snapshot. distinct = distinct canonical JSON; "
        "non-trivial = a offers at least one coordinate")
TRUSTED = ["Coq 8.16.1 kernel (coqc; coqchk in the thorough tier); vm_compute used for the Examples and the case files",
           "Print Assumptions of every C05 theorem: Closed under the global context",
           "hand-written model coq/Model/C05Populate.v of the populate generator (iterators.py 1044-1287 with "
           "getPayload(allocate=False,start_pos), _create_payload(pos), _createDefault, Rank.pop) and of the source "
           "iterators (iterOccupancy / iterActiveShape), tied to /repo by the differential correspondence of this run",
           "harness/props/c05.py (generator, loop-nest driver, snapshots), harness/store_hist.py (state snapshot), harness/check.py"]
ASSUMPTIONS = ["loop bodies act on z only through the offered references (leaf: <<= / += ; interior: a nested "
               "z_ref << a_val loop); z and a are distinct tensors of the same depth 1-3; start_pos of __lshift__ is "
               "not used (the << operator never passes it); Metrics collection is off",
               "the assertion in getPayload (start_pos legal) and the identity assertion after Rank.pop are not "
               "modelled as outcomes: an AssertionError in the implementation is reported as an observation no model "
               "run produces"]
EXPLANATION = ("theorems: position arithmetic of the generator = bisect (C05_positions); yields = a's presented "
               "coordinates level by level with z's current values (C05_offers); final value at every point = "
               "previous value overridden by the write (C05_result); raw structure outside a untouched, no residue; "
               "well-formed at the end and at every yield")

VALS = [1, 2, 5, 7, -3]
# a's leaf default None ("no empty value": a stored 0 is an ordinary element) is generated as this
# sentinel, which never occurs as a payload: in the model "the default never occurs" is "nothing
# is empty".  z's default stays a number: the body accumulates onto it.
NONE_D = -999983


def est_shapes(a, n):
    """rank shapes of a tensor built without shape=: 1 + largest stored coordinate per rank"""
    out = [0] * n

    def walk(t, lvl):
        for c, s in t:
            out[lvl] = max(out[lvl], c + 1)
            if not isinstance(s, int):
                walk(s, lvl + 1)
    walk(a, 0)
    return out


def a_shapes(case):
    return est_shapes(case["a"], case["n"]) if case.get("est") else case["shape"]


# ------------------------------------------------------------------ generator

def presents(aes, lvl, case):
    """what a fiber of a offers at rank lvl: [(coord, payload literal)]"""
    n, da = case["n"], case["da"]
    if case["U"][lvl]:
        d = dict((c, s) for c, s in aes)
        dflt = da if lvl + 1 == n else []
        return [(c, d.get(c, dflt)) for c in range(a_shapes(case)[lvl])]
    return [(c, s) for c, s in aes if not U.is_empty_lit(s, da)]


def gen_body(rng, case, p_desc=0.8, p_ref=0.0):
    n, dz = case["n"], case["dz"]
    body = []
    mode = rng.choice(["mixed", "mixed", "mixed", "all-write", "all-leave", "all-default"])

    def nest(aes, lvl, path):
        for c, s in presents(aes, lvl, case):
            p = path + [c]
            if lvl + 1 == n:
                r = rng.random()
                if mode == "all-write":
                    body.append([p, ["add", rng.choice([1, 2, 4])]])
                elif mode == "all-leave":
                    pass
                elif mode == "all-default":
                    body.append([p, ["assign", dz]])
                elif r < 0.25:
                    pass
                elif r < 0.35:
                    body.append([p, ["none"]])
                elif r < 0.55:
                    body.append([p, ["assign", rng.choice(VALS)]])
                elif r < 0.75:
                    body.append([p, ["assign", dz]])
                else:
                    body.append([p, ["add", rng.choice([0, 1, 2, -1, 4])]])
            else:
                r = rng.random()
                if r < p_ref:
                    # getPayloadRef of a full point below the offered reference, then a write
                    pt = [rng.randint(0, case["shape"][j] - 1) for j in range(lvl + 1, n)]
                    w = rng.choice([["assign", dz], ["assign", dz], ["none"], ["add", 0], ["assign", 5], ["add", 2]])
                    body.append([p, ["refbelow", pt, w]])
                elif r < p_ref + p_desc:
                    body.append([p, ["desc"]])
                    nest(s, lvl + 1, p)
    nest(case["a"], 0, [])
    return body


def merge_lit(z, a, rng, dz, vals=None, keep=1.0):
    """z plus an element for (a fraction `keep` of) the elements of a"""
    vals = vals or [dz, 3, 6]
    dzs = dict((c, s) for c, s in z)
    for c, s in a:
        if rng.random() > keep:
            continue
        if isinstance(s, int):
            if c not in dzs or vals[0] == vals[1]:
                dzs[c] = rng.choice(vals)
        else:
            dzs[c] = merge_lit(dzs.get(c, []), s, rng, dz, vals, keep)
    return [[c, dzs[c]] for c in sorted(dzs)]


def gen_case(rng, n=None, mode=None, maxshape=None, p_ref=0.0, est=None, p_U=0.2, alone=None):
    n = n or rng.choice([1, 2, 2, 3])
    hi = maxshape or {1: 7, 2: 5, 3: 3}[n]
    shape = [rng.randint(2, hi) for _ in range(n)]
    dz = rng.choice([0, 0, 0, 2])
    da = rng.choice([0, 0, 0, 1, NONE_D])
    a = U.gen_fiber(rng, n, shape, 0 if da == NONE_D else da, p_absent=rng.choice([0.0, 0.2, 0.4, 0.6, 0.9]))
    mode = mode or rng.choice(["empty", "random", "random", "disjoint", "superset", "same-shape",
                               "dflt-offered", "dflt-offered"])
    z = U.gen_fiber(rng, n, shape, dz)
    if mode == "empty":
        z = []
    elif mode == "disjoint":
        ac = set(c for c, _ in a)
        z = [[c, s] for c, s in z if c not in ac]
    elif mode == "superset":
        z = merge_lit(z, a, rng, dz)
    elif mode == "same-shape":
        z = merge_lit([], a, rng, dz)
    elif mode == "dflt-offered":
        # explicit defaults of z at coordinates a offers (the body often leaves them), other
        # elements of z in between and after
        z = merge_lit(z, a, rng, dz, vals=[dz, dz, dz, 4], keep=0.6)
    us = [rng.random() < p_U for _ in range(n)] if (rng.random() < 0.5 or p_U > 0.2) else [False] * n
    if est is None:
        est = rng.random() < 0.25
    if alone is None:
        alone = rng.choice([0, 0, 0, 0, 0, 1, 2])
    if alone:
        # a stand-alone fiber tree: every fiber declares its own shape (1) or active range (2) and
        # its own format; no two adjacent uncompressed ranks (see no_consec in the model)
        est = False
        for i in range(1, n):
            if us[i] and us[i - 1]:
                us[i] = False
    case = {"n": n, "dz": dz, "da": da, "z": z, "a": a, "U": us, "shape": shape, "est": est, "alone": alone,
            "zU": [rng.random() < 0.5 for _ in range(n)] if rng.random() < 0.6 else [False] * n,
            "body": [], "zmode": mode}
    case["body"] = gen_body(rng, case, p_ref=p_ref)
    return case


def streams(tier, rng):
    nq = 260 if tier == "quick" else 3000
    yield ("random", [gen_case(rng) for _ in range(nq)], False)
    # bodies that also call getPayloadRef below an offered interior reference (often writing the default)
    nr = 120 if tier == "quick" else 1500
    yield ("refbelow", [gen_case(rng, n=rng.choice([2, 3, 3]), p_ref=0.4) for _ in range(nr)], False)
    # a built without a declared shape (rank shapes estimated from ragged fibers), uncompressed ranks
    ne = 100 if tier == "quick" else 1500
    yield ("estimated-U", [gen_case(rng, n=rng.choice([1, 2, 2, 3]), est=True, p_U=0.6) for _ in range(ne)], False)
    # stand-alone sources (unowned fiber trees), format declared on the fibers' own rank attributes
    ns = 100 if tier == "quick" else 1500
    yield ("standalone", [gen_case(rng, n=rng.choice([1, 1, 2, 2, 3]), p_U=0.6, alone=rng.choice([1, 2]))
                          for _ in range(ns)], False)
    # single-level destination fibers with every class of element against a fixed source and every body
    cases = []
    elems = [None, 0, 4]                       # absent / explicit default / value
    acts = [None, ["assign", 0], ["assign", 6], ["add", 1]]
    src = [[0, 3], [1, 0], [2, 5], [3, 7]]     # 1 is an explicit default of a (not offered under C)
    zs = list(itertools.product(elems, repeat=4))
    bodies = list(itertools.product(acts, repeat=3))
    if tier == "quick":
        zs = rng.sample(zs, 40)
    for zc in zs:
        z = [[c, v] for c, v in enumerate(zc) if v is not None]
        for b in (bodies if tier != "quick" else rng.sample(bodies, 3)):
            body = [[[c], a] for c, a in zip([0, 2, 3], b) if a is not None]
            cases.append({"n": 1, "dz": 0, "da": 0, "z": z, "a": src, "U": [False], "shape": [4],
                          "body": body, "zmode": "grid"})
    yield ("depth1-grid", cases, tier != "quick")
    if tier == "thorough":
        yield ("depth3", [gen_case(rng, n=3) for _ in range(1500)], False)


def nontrivial(case):
    return len(presents(case["a"], 0, case)) > 0


def describe(case):
    kinds = set(a[0] for _, a in case["body"])
    return {"depth": case["n"], "zmode": case.get("zmode", "?"), "any_U": any(case["U"]),
            "z_explicit_default": U.has_explicit_default(case["z"], case["dz"]),
            "z_empty_subfiber": U.has_empty_sub(case["z"], case["dz"]),
            "writes_default": any(a[0] == "assign" and a[1] == case["dz"] for _, a in case["body"]),
            "refbelow": any(a[0] == "refbelow" for _, a in case["body"]),
            "a_est_shape": bool(case.get("est")), "z_any_U": any(case.get("zU", [])), "a_standalone": case.get("alone", 0), "a_default_none": case["da"] == NONE_D,
            "offered": min(len(case["body"]), 9)}


def shrinks(case):
    for i in range(len(case["body"])):
        c = copy.deepcopy(case)
        del c["body"][i]
        yield c
    for k in ("z", "a"):
        t = case[k]
        for i in range(len(t)):
            c = copy.deepcopy(case)
            del c[k][i]
            yield c
        for i, (co, s) in enumerate(t):
            if not isinstance(s, int):
                for j in range(len(s)):
                    c = copy.deepcopy(case)
                    del c[k][i][1][j]
                    yield c
    if any(case["U"]):
        c = copy.deepcopy(case)
        c["U"] = [False] * case["n"]
        yield c


def search(disagreeing, rng, rnd):
    return [gen_case(rng) for _ in range(200)]


# ------------------------------------------------------------------ Coq literals

def act_coq(a):
    k = a[0]
    if k == "desc":
        return "ADescend"
    if k == "skip":
        return "ASkip"
    if k == "refbelow":
        return "(ARefBelow %s %s)" % (L.zlist(a[1]), H.w_coq(a[2]))
    return "(AWrite %s)" % H.w_coq(a)


def case_to_coq(c):
    body = L.lst("(%s, %s)" % (L.zlist(p), act_coq(a)) for p, a in c["body"])
    return "(Build_c05_case %s %s %s %s %s %s %s %s %s %s %s)" % (
        L.nat(c["n"]), L.z(c["dz"]), L.z(c["da"]), L.tree(c["z"]), L.tree(c["a"]),
        L.lst(L.b(u) for u in c["U"]), L.zlist(c["shape"]), L.b(c.get("est", False)),
        L.b(bool(c.get("alone", 0))), L.lst(L.b(u) for u in c.get("zU", [False] * c["n"])), body)


# ------------------------------------------------------------------ implementation side

def pay(p):
    from fibertree import Fiber, Payload
    if isinstance(p, Fiber):
        return U.snap(p)
    k = 0
    while isinstance(p, Payload):
        p = p.value
        k += 1
    if p is None and k == 0:
        return NONE_D            # the default of a rank whose default is None, unboxed
    if k != 1:
        return [-2, k]
    return U.undress(p)


def build_alone(t, lvl, case):
    """stand-alone (unowned) fiber tree: per fiber its own shape / active range, leaf default, format"""
    from fibertree import Fiber
    n = case["n"]
    coords = [c for c, _ in t]
    pays = [U.dress(s) if isinstance(s, int) else build_alone(s, lvl + 1, case) for _, s in t]
    k = case["shape"][lvl]
    f = Fiber(coords, pays, shape=k) if case["alone"] == 1 else Fiber(coords, pays)
    if case["alone"] == 2:
        f.setActive((0, k))
    if lvl + 1 < n:
        # an interior fiber says so (an empty one cannot tell from its payloads)
        f._setDefault(Fiber)
    elif True:
        if case["da"] == NONE_D:
            f._setDefault(None)
        elif case["da"] != 0:
            f._setDefault(U.dress(case["da"]))
    if U.MODE["touch"]:
        U.touch(f)
    if case["U"][lvl]:
        f.getRankAttrs().setFormat("U")
    return f


def run_impl(case):
    if case.get("alone"):
        return run_impl_alone(case)
    return run_impl_tensor(case)


def run_impl_alone(case):
    n = case["n"]
    Z = U.build_tensor(case["z"], n, [s + 2 for s in case["shape"]], case["dz"])
    a = build_alone(case["a"], 0, case)
    a0 = [U.snap(a), [], True]
    res = run_nest(case, Z, a)
    if len(res) == 2:
        return res
    return [a0] + res[:3] + [[U.snap(a), [], True], res[3], z_attrs(Z)]


def run_impl_tensor(case):
    n = case["n"]
    # z's ranks are larger than a's so that "z takes a's active range" is visible
    Z = U.build_tensor(case["z"], n, [s + 2 for s in case["shape"]], case["dz"])
    none_d = case["da"] == NONE_D
    A = U.build_tensor(case["a"], n, None if case.get("est") else case["shape"], 0 if none_d else case["da"],
                       name="A")
    if none_d:
        A.setDefault(None)
    for rid, u in zip(A.getRankIds(), case["U"]):
        if u:
            A.setFormat(rid, "U")
    a0 = H.state_obs(A, n)
    res = run_nest(case, Z, A.getRoot())
    if len(res) == 2:
        return res
    return [a0] + res[:3] + [H.state_obs(A, n), res[3], z_attrs(Z)]


def z_attrs(Z):
    """attributes of z's ranks: [id as index, shape, default ([] = a fiber), format U?]"""
    from fibertree import Fiber, Payload
    out = []
    for r in Z.ranks:
        at = r.getAttrs()
        d = Payload.get(at.getDefault())
        d = [] if (isinstance(d, type) and issubclass(d, Fiber)) else U.undress(d)
        rid = at.getId()
        fmt = at.getFormat()
        out.append([U.RANK_NAMES.index(rid) if rid in U.RANK_NAMES else -1, U.undress(Payload.get(at.getShape())), d,
                    fmt == "U" if fmt in ("U", "C") else 2])
    return out


def run_nest(case, Z, a_root):
    """the loop nest; returns [z before, events, z after, z's rank attributes before] or an error observation"""
    n = case["n"]
    for rid, u in zip(Z.getRankIds(), case.get("zU", [])):
        if u:
            Z.setFormat(rid, "U")          # the destination's format has no bearing on populate
    za0 = z_attrs(Z)
    body = {tuple(p): a for p, a in case["body"]}
    z0 = H.state_obs(Z, n)
    events = []

    def nest(zf, af, lvl, path):
        for c, (zr, av) in zf << af:
            p = path + [c]
            events.append([p, pay(av), pay(zr), H.state_obs(Z, n), list(zf.getActive())])
            a = body.get(tuple(p), ["skip"])
            if lvl + 1 == n:
                if a[0] in ("assign", "add"):
                    H.apply_w(zr, a)
            elif a[0] == "desc":
                nest(zr, av, lvl + 1, p)
            elif a[0] == "refbelow":
                H.apply_w(zr.getPayloadRef(*a[1]), a[2])
    try:
        nest(Z.getRoot(), a_root, 0, [])
    except AssertionError:
        return [-1, 1]
    except IndexError:
        return [-1, 2]
    return [z0, events, H.state_obs(Z, n), za0]


def repro_py(case):
    return ("import sys; sys.path.insert(0, '/verif/harness'); sys.path.insert(0, '/verif/harness/props')\n"
            "import c05\ncase = %r\nobs = c05.run_impl(case)\n"
            "print('events:'); [print(' ', e[:3]) for e in obs[2]]\nprint('z after:', obs[3])\n" % (case,))
