"""C15 — Metrics collection is transparent, exact and session-isolated
(fibertree/core/metrics.py, payload.py operators, iterators.py iterRange/&/<<, model/compute.py)."""
import copy
import coqlit as L
import ftutil as U

ID = "C15"
THEOREMS = ["C15_transparent", "C15_counts_mul_update", "C15_counts_add_rule",
            "C15_counts_add", "C15_output_is_reference_map", "C15_iters", "C15_state_counts",
            "C15_state_iters", "C15_isolated", "C15_intersection_is_set_intersection",
            "C15_model_meets_spec", "C15_write_trace_region", "C15_write_trace_refuted"]
COQ_IMPORTS = "From FT Require Import Model.Base Model.Obs Model.C15Metrics Model.C15Check."
CHECK_VO = ["Model/C15Check.v"]
CHECKER = "c15_checker"
CASE_TYPE = "c15_case"
SHARD = 60
CASE_TIMEOUT = 30

RULE = ("case = 0-3 earlier collection sessions + the observed session; a session = a loop nest of the "
        "two-operand einsum family Z[..] += A[..]*B[..] (per loop level the subset of Z, A, B carrying the "
        "variable: dot, mat-vec, vec-mat, mat-mat in all loop orders, outer and elementwise products, "
        "reductions with a rank-0 operand, depth 0-4) generated as Python source in the library idiom "
        "(for v, (z, (a, b)) in z << (a & b): ... z_ref += a_val * b_val); per operand rank compressed or "
        "uncompressed ('U': every coordinate of the shape is visited, absent ones with the default); operand "
        "leaf default 0, 3, -2 or None (sentinel -999983 in the model: no stored value is empty; compressed "
        "ranks only) with explicit default and explicit 0 payloads; values handed over as int / float / int "
        "subclass and operands built in two stages around read-only queries (ftutil modes); signed values (products and "
        "partial sums that are 0 or cancel), rank-0 operands incl. 0; empty sub-fibers; a random subset of "
        "(rank, trace type) registered with Metrics.trace (iter, intersect_i, populate_read/write_i, "
        "populate_i), output created with or without a shape, optional setNumCachedUses(2..7), session "
        "ended with endCollect or aborted; the observed kernel is also run with collection off. "
        "observation = [output off, output on, dump() counts, Compute.numOps x3, Compute.numIters of every "
        "traced loop rank, maxCoord() of every output fiber off and on, and for 13 further read-backs "
        "(output getShape() - estimated when not declared -, getActive() per fiber, uncompress(); per operand "
        "stored tree, getShape(), maxCoord()s, getActive()s, uncompress()) the difference between the run "
        "with collection off and on]. distinct = distinct canonical JSON; non-trivial = the observed kernel executes "
        "at least one innermost statement")
TRUSTED = ["Coq 8.16.1 kernel (coqc; coqchk in the thorough tier); vm_compute used; native_compute not used",
           "Print Assumptions of every C15 theorem: Closed under the global context (no axioms)",
           "hand-written Gallina model coq/Model/C15Metrics.v of metrics.py / payload.py operators / the "
           "iterRange, & and << iterators, tied to /repo by the differential correspondence check of this run",
           "harness: harness/check.py, harness/props/c15.py (kernel source generator), CPython 3.12"]
ASSUMPTIONS = ["known finding F-C15-write-trace-insert-no-shape (region 1): populate_write_0 traced on an output "
               "without declared shape and a populate that inserts below the fiber's maximum -> AssertionError",
               "read-backs other than the stored tree and maxCoord() are compared between the two runs of the "
               "implementation (off vs on) and not computed by the model: a difference violates transparency, "
               "what their common value should be is property C14's",
               "trace rows other than the number of 'iter' rows are property C16's; the flush threshold "
               "num_cached_uses is varied by the harness but not modelled",
               "loop nests of the einsum family; rank ids are R0, R1, ... in loop order; the output tensor is "
               "compressed with default 0; integer values",
               "a for loop directly over an uncompressed fiber logs one 'iter' access per element (fix S44)"]
EXPLANATION = ("interpreter run emits the metric calls of the source as events only when collecting; theorems: "
               "output independent of the flag, event counts = recursive sums over the set-intersection "
               "iteration space, add count = accumulations onto a non-zero value of a reference map that the "
               "output tree refines (all integers), Metrics state machine turns events into dump()/trace-file numbers from any "
               "prior state; oracle c15_holds evaluated on the implementation's numbers")

NONE_D = -999983     # stands for a leaf default of None: never occurs as a value, so nothing stored is empty

TYPES = ["iter", "intersect_0", "intersect_1", "populate_read_0", "populate_write_0", "populate_1",
         "intersect_2", "intersect_3"]

# kernel shapes: list of (z, a, b) flags per loop level
FAMILY = {
    "dot": [(0, 1, 1)],
    "scale": [(1, 1, 0)],
    "elementwise1": [(1, 1, 1)],
    "matvec_mk": [(1, 1, 0), (0, 1, 1)],
    "matvec_km": [(0, 1, 1), (1, 1, 0)],
    "vecmat": [(0, 1, 1), (1, 0, 1)],
    "outer": [(1, 1, 0), (1, 0, 1)],
    "elementwise2": [(1, 1, 1), (1, 1, 1)],
    "rowsum": [(1, 1, 0), (0, 1, 0)],
    "total": [(0, 1, 0), (0, 1, 0)],
    "matmul_mkn": [(1, 1, 0), (0, 1, 1), (1, 0, 1)],
    "matmul_mnk": [(1, 1, 0), (1, 0, 1), (0, 1, 1)],
    "matmul_kmn": [(0, 1, 1), (1, 1, 0), (1, 0, 1)],
    "matmul_knm": [(0, 1, 1), (1, 0, 1), (1, 1, 0)],
    "matmul_nmk": [(1, 0, 1), (1, 1, 0), (0, 1, 1)],
    "matmul_nkm": [(1, 0, 1), (0, 1, 1), (1, 1, 0)],
    "batched": [(1, 1, 1), (1, 1, 0), (0, 1, 1), (1, 0, 1)],
    "scalar": [],
}


def gen_session(rng, name=None, final=False, sparse=None, zero_heavy=False):
    name = name or rng.choice(list(FAMILY))
    shapes = [rng.randint(1, 4) for _ in FAMILY[name]]
    pu = rng.choice([0.0, 0.3, 0.3, 0.7, 1.0]) if not zero_heavy else 0.8
    lv = []
    for (z, a, b), sh in zip(FAMILY[name], shapes):
        lv.append([z, a, b, int(bool(a) and rng.random() < pu), int(bool(b) and rng.random() < pu), sh])
    sa = [l[5] for l in lv if l[1]]
    sb = [l[5] for l in lv if l[2]]
    da, db = rng.choice([0, 0, 0, 3, -2, NONE_D]), rng.choice([0, 0, 0, 3, -2, NONE_D])
    for l in lv:             # default None ("no empty value"): compressed ranks only, the default is never a value
        if da == NONE_D:
            l[3] = 0
        if db == NONE_D:
            l[4] = 0
    pa = sparse if sparse is not None else rng.choice([0.0, 0.2, 0.4, 0.7])
    kw = dict(p_absent=pa, p_zero=rng.choice([0.0, 0.2, 0.4]), p_emptysub=rng.choice([0.0, 0.15, 0.3]),
              vals=rng.choice([(1, 9), (-4, 5), (-2, 2)]))
    r0 = (lambda: rng.choice([0, 0, 1, -1, 2, 3, -3])) if zero_heavy else (lambda: rng.randint(-3, 5))
    # under a None default the explicit 'defaults' generated are stored zeros
    a = U.gen_fiber(rng, len(sa), sa, 0 if da == NONE_D else da, **kw) if sa else r0()
    b = U.gen_fiber(rng, len(sb), sb, 0 if db == NONE_D else db, **kw) if sb else r0()
    zshape = rng.random() < 0.5
    traces = []
    for r in range(len(lv)):
        for ty in range(len(TYPES)):
            p = 0.6 if ty == 0 else 0.2
            if rng.random() < p:
                traces.append([r, ty])
    rng.shuffle(traces)
    return {"kernel": name, "lv": lv, "a": a, "b": b, "da": da if sa else 0, "db": db if sb else 0,
            "traces": traces, "zshape": zshape, "ncu": rng.choice([None, None, 2, 3, 7]),
            "end": True if final else rng.random() < 0.7}


def gen_case(rng, name=None):
    prior = [gen_session(rng) for _ in range(rng.choice([0, 0, 1, 1, 2, 3]))]
    return {"prior": prior, "final": gen_session(rng, name, final=True)}


def stale_case(rng):
    """an earlier session fills the trace files; the observed one traces the same ranks but
    reaches only the first loop (empty operand)"""
    name = rng.choice(["matmul_mkn", "matvec_mk", "matmul_kmn", "elementwise2", "outer"])
    p = gen_session(rng, name, sparse=0.0)
    p["traces"] = [[r, 0] for r in range(len(p["lv"]))]
    p["end"] = rng.random() < 0.8
    f = gen_session(rng, name, final=True)
    f["traces"] = [[r, 0] for r in range(len(f["lv"]))]
    if rng.random() < 0.7:
        f["a"] = [] if not isinstance(f["a"], int) else f["a"]
        for l in f["lv"]:
            l[3] = 0      # compressed, so that the empty operand stops the nest
    return {"prior": [p], "final": f}


def write_trace_case(rng):
    """populate_write_0 registered on the output's ranks; output mostly without a declared shape: updates and
    appends must run, an insertion below the fiber's maximum is the known finding (region 1)"""
    name = rng.choice(["matmul_mkn", "matmul_kmn", "matmul_knm", "matmul_nkm", "matvec_km", "vecmat", "outer",
                       "elementwise2", "batched", "scale"])
    f = gen_session(rng, name, final=True, sparse=rng.choice([0.0, 0.2, 0.5]))
    f["zshape"] = rng.random() < 0.2
    f["traces"] = [k for k in f["traces"] if k[1] != 4] + [[r, 4] for r, l in enumerate(f["lv"]) if l[0]]
    return {"prior": [gen_session(rng)] if rng.random() < 0.3 else [], "final": f}


def zero_case(rng):
    """uncompressed ranks, zero rank-0 operands, explicit zeros under a non-zero default: the
    innermost statement runs with an addend of exactly 0"""
    return {"prior": [gen_session(rng)] if rng.random() < 0.3 else [],
            "final": gen_session(rng, final=True, zero_heavy=True)}


def streams(tier, rng):
    n = 700 if tier == "quick" else 8000
    fam = [gen_case(rng, name) for name in FAMILY for _ in range(10 if tier == "quick" else 80)]
    yield ("family", fam, False)
    yield ("random", [gen_case(rng) for _ in range(n)], False)
    yield ("stale-files", [stale_case(rng) for _ in range(120 if tier == "quick" else 1200)], False)
    yield ("zero-addends", [zero_case(rng) for _ in range(250 if tier == "quick" else 3000)], False)
    yield ("write-trace", [write_trace_case(rng) for _ in range(200 if tier == "quick" else 2500)], False)


def _op_elems(u, shape, d, below, t):
    if u:
        dt = dict((c, x) for c, x in t)
        return [(c, dt.get(c, [] if below else d)) for c in range(shape)]
    return [(c, x) for c, x in t if not U.is_empty_lit(x, d)]


def _trace(lv, a, b, da, db):
    """addends of the innermost statement, in program order (harness statistics only)"""
    if not lv:
        return [a * b]
    z, fa, fb, ua, ub, sh = lv[0]
    ba = any(l[1] for l in lv[1:])
    bb = any(l[2] for l in lv[1:])
    ea = _op_elems(ua, sh, da, ba, a) if fa else None
    eb = _op_elems(ub, sh, db, bb, b) if fb else None
    if fa and fb:
        dbm = dict(eb)
        els = [(x, dbm[c]) for c, x in ea if c in dbm]
    elif fa:
        els = [(x, b) for c, x in ea]
    else:
        els = [(a, x) for c, x in eb]
    out = []
    for x, y in els:
        out += _trace(lv[1:], x, y, da, db)
    return out


def nontrivial(case):
    f = case["final"]
    return len(_trace(f["lv"], f["a"], f["b"], f["da"], f["db"])) > 0


def describe(case):
    f = case["final"]
    return {"kernel": f["kernel"], "prior_sessions": len(case["prior"]),
            "prior_aborted": any(not s["end"] for s in case["prior"]),
            "zshape": f["zshape"], "iter_traces": sum(1 for k in f["traces"] if k[1] == 0),
            "other_traces": sum(1 for k in f["traces"] if k[1] != 0),
            "uncompressed_ranks": sum(l[3] + l[4] for l in f["lv"]),
            "nonzero_default": bool(f["da"] or f["db"]),
            "zero_addend": any(v == 0 for v in _trace(f["lv"], f["a"], f["b"], f["da"], f["db"])),
            "negative_addend": any(v < 0 for v in _trace(f["lv"], f["a"], f["b"], f["da"], f["db"])),
            "no_body": not nontrivial(case)}


def _session_coq(s):
    lv = L.lst("(Build_level %s %s %s %s %s %s)" % (L.b(z), L.b(a), L.b(b), L.b(ua), L.b(ub), L.z(sh))
               for z, a, b, ua, ub, sh in s["lv"])
    tr = L.lst("(%s, %s)" % (L.z(r), L.z(t)) for r, t in s["traces"])
    return "(Build_session %s %s %s %s %s %s %s %s)" % (lv, L.tree(s["a"]), L.tree(s["b"]), L.z(s["da"]),
                                                         L.z(s["db"]), tr, L.b(s["zshape"]), L.b(s["end"]))


def case_to_coq(c):
    return "(Build_c15_case %s %s)" % (L.lst(_session_coq(s) for s in c["prior"]), _session_coq(c["final"]))


# ------------------------------------------------------------------ implementation side

def kernel_source(lv):
    """Python source of the loop nest in the library idiom"""
    lines = []
    z, a, b = "z0", "a0", "b0"
    ind = ""
    for i, (fz, fa, fb) in enumerate(l[:3] for l in lv):
        na = "a%d" % (i + 1) if fa else a
        nb = "b%d" % (i + 1) if fb else b
        nz = "z%d" % (i + 1) if fz else z
        if fa and fb:
            src, pat = "%s & %s" % (a, b), "(%s, %s)" % (na, nb)
        elif fa:
            src, pat = a, na
        else:
            src, pat = b, nb
        if fz:
            if fa and fb:
                src = "(%s)" % src
            lines.append("%sfor i%d, (%s, %s) in %s << %s:" % (ind, i, nz, pat, z, src))
        else:
            lines.append("%sfor i%d, %s in %s:" % (ind, i, pat, src))
        z, a, b = nz, na, nb
        ind += "    "
    lines.append("%s%s += %s * %s" % (ind, z, a, b))
    return "\n".join(lines) + "\n"


def rank_name(i):
    return "R%d" % i


def _build(s):
    from fibertree import Tensor, Payload
    lv = s["lv"]
    shapes = [l[5] for l in lv]
    ids = [rank_name(i) for i in range(len(lv))]

    def operand(t, col, d):
        rid = [ids[i] for i, l in enumerate(lv) if l[col]]
        shp = [shapes[i] for i, l in enumerate(lv) if l[col]]
        if not rid:
            return Payload(U.dress(t)), None
        T = U.build_tensor(copy.deepcopy(t), len(rid), shp, 0 if d == NONE_D else d, rank_ids=rid)
        if d == NONE_D:
            T.setDefault(None)
        for i, l in enumerate(lv):
            if l[col] and l[col + 2]:
                T.setFormat(ids[i], "U")
        return T.getRoot(), T
    a0, A = operand(s["a"], 1, s["da"])
    b0, B = operand(s["b"], 2, s["db"])
    zid = [ids[i] for i, l in enumerate(lv) if l[0]]
    zshp = [shapes[i] for i, l in enumerate(lv) if l[0]]
    Z = Tensor(rank_ids=zid, shape=zshp) if s["zshape"] and zid else Tensor(rank_ids=zid)
    if U.MODE["touch"]:
        U.touch(Z.getRoot()) if zid else None
        try:
            Z.getShape()
        except Exception:
            pass
    return {"a0": a0, "b0": b0, "Z": Z, "A": A, "B": B}


def _snap(root):
    from fibertree import Payload
    if isinstance(root, Payload):
        return U.undress(root.value)
    return U.snap(root)


def _norm(x):
    from fibertree import Payload, Fiber
    if x is None:
        return []
    if isinstance(x, Payload):
        return _norm(x.value)
    if isinstance(x, Fiber):
        return U.snap(x)
    if isinstance(x, (list, tuple)):
        return [_norm(y) for y in x]
    x = U.undress(x)
    if isinstance(x, bool) or isinstance(x, int):
        return x
    return repr(x)


def _fibers(root):
    """every fiber of a tree, root first, depth first"""
    from fibertree import Fiber
    if not isinstance(root, Fiber):
        return []
    out = [root]
    for p in root.payloads:
        out += _fibers(p)
    return out


def _q(fn):
    try:
        return _norm(fn())
    except Exception as e:
        return ["exception", type(e).__name__]


def _maxcoords(root):
    out = []
    for f in _fibers(root):
        m = f.maxCoord()
        out.append(None if m is None else [U.undress(m)])
    return out


def _readbacks(objs):
    """everything else a user can read back from the output and the operands (13 entries)"""
    Z = objs["Z"]
    zr = Z.getRoot()
    out = [_q(Z.getShape), [_q(f.getActive) for f in _fibers(zr)],
           _q(zr.uncompress) if _fibers(zr) else _norm(zr)]
    for root, T in ((objs["a0"], objs["A"]), (objs["b0"], objs["B"])):
        if T is None:
            out += [_norm(root)] * 5
        else:
            out += [_snap(root), _q(T.getShape), [_q(f.maxCoord) for f in _fibers(root)],
                    [_q(f.getActive) for f in _fibers(root)], _q(root.uncompress)]
    return out


def _exec_kernel(s, objs):
    env = {"a0": objs["a0"], "b0": objs["b0"], "z0": objs["Z"].getRoot()}
    exec(compile(kernel_source(s["lv"]), "<kernel>", "exec"), env)


def _hard_reset():
    from fibertree import Metrics
    Metrics.all_rank_matches = {}
    Metrics.collecting = False
    Metrics.fiber_label = {}
    Metrics.iteration = None
    Metrics.line_order = None
    Metrics.loop_order = None
    Metrics.metrics = None
    Metrics.num_cached_uses = 1000
    Metrics.point = None
    Metrics.prefix = None
    Metrics.rank_matches = {}
    Metrics.rank_flatten = {}
    Metrics.traces = {}


def _session(s, prefix, final=False):
    """operands and output are built first (their construction is not part of the session)"""
    from fibertree import Metrics
    objs = _build(s)
    Metrics.beginCollect(prefix)
    if s.get("ncu"):
        Metrics.setNumCachedUses(s["ncu"])
    for r, ty in s["traces"]:
        Metrics.trace(rank_name(r), TYPES[ty])
    try:
        _exec_kernel(s, objs)
    except AssertionError:
        if final:
            raise
        return objs, None          # an earlier session that died in the kernel: aborted, no endCollect
    dump = copy.deepcopy(Metrics.dump())
    if s["end"]:
        Metrics.endCollect()
    return objs, dump


def run_impl(case):
    import tempfile, shutil, os
    from fibertree.model.compute import Compute
    tmp = tempfile.mkdtemp(prefix="c15-")
    prefix = os.path.join(tmp, "t")
    _hard_reset()
    try:
        f = case["final"]
        off = _build(f)
        _exec_kernel(f, off)                        # collection off
        zoff = _snap(off["Z"].getRoot())
        mc_off = _maxcoords(off["Z"].getRoot())
        rb_off = _readbacks(off)
        for s in case["prior"]:
            _session(s, prefix)
        on, dump = _session(f, prefix, final=True)  # the observed session ends with endCollect
        zon = _snap(on["Z"].getRoot())
        mc_on = _maxcoords(on["Z"].getRoot())
        rb_on = _readbacks(on)
        rb = [[] if x == y else [1, x, y] for x, y in zip(rb_off, rb_on)]
        comp = dump.get("Compute", {})
        counts = [comp.get("payload_mul", 0), comp.get("payload_add", 0), comp.get("payload_update", 0)]
        nops = []
        for op in ("mul", "add", "update"):
            try:
                nops.append(int(Compute.numOps(dump, op)))
            except KeyError:
                nops.append([-1, 1])
        iters = []
        for i in range(len(f["lv"])):
            if [i, 0] in f["traces"]:
                try:
                    iters.append([Compute.numIters("%s-%s-iter.csv" % (prefix, rank_name(i)))])
                except FileNotFoundError:
                    iters.append([-1, 2])
            else:
                iters.append(None)
        return [zoff, zon, counts, nops, iters, mc_off, mc_on, rb]
    except AssertionError:
        return [-1, 3]
    finally:
        _hard_reset()
        shutil.rmtree(tmp, ignore_errors=True)


def repro_py(case):
    return ("import sys; sys.path.insert(0,'/verif/harness'); sys.path.insert(0,'/verif/harness/props')\n"
            "import c15\ncase = %r\nprint(c15.kernel_source(case['final']['lv']))\nprint(c15.run_impl(case))\n" % (case,))


def shrinks(case):
    for i in range(len(case["prior"])):
        c = copy.deepcopy(case)
        del c["prior"][i]
        yield c
    for who in ["final"] + list(range(len(case["prior"]))):
        def sess(c):
            return c["final"] if who == "final" else c["prior"][who]
        s = sess(case)
        for i in range(len(s["traces"])):
            c = copy.deepcopy(case)
            del sess(c)["traces"][i]
            yield c
        if s.get("ncu"):
            c = copy.deepcopy(case)
            sess(c)["ncu"] = None
            yield c
        for fld in ("a", "b"):
            t = s[fld]
            if isinstance(t, int):
                continue
            for i in range(len(t)):
                c = copy.deepcopy(case)
                del sess(c)[fld][i]
                yield c
            for i, (co, sub) in enumerate(t):
                if not isinstance(sub, int):
                    for j in range(len(sub)):
                        c = copy.deepcopy(case)
                        del sess(c)[fld][i][1][j]
                        yield c


def search(disagreeing, rng, rnd):
    return ([gen_case(rng) for _ in range(100)] + [stale_case(rng) for _ in range(50)]
            + [zero_case(rng) for _ in range(50)] + [write_trace_case(rng) for _ in range(50)])
