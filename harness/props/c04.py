"""C04 — co-iteration operators compute exactly their coordinate-set truth tables
(fibertree/core/iterators.py: __and__, __or__, __xor__, __sub__, intersection, union)."""
import copy
import itertools
import coqlit as L
import ftutil as U

ID = "C04"
THEOREMS = ["C04_order", "C04_exactly", "C04_and", "C04_and_is_filter", "C04_or", "C04_xor", "C04_sub",
            "C04_stream", "C04_absent", "C04_prefix_a_shorter", "C04_prefix_b_shorter", "C04_prefix",
            "C04_nary_and", "C04_nary_or", "C04_leader_follower", "C04_model_meets_spec_lf",
            "C04_model_meets_spec", "C04_sub_uncompressed_refuted"]
COQ_IMPORTS = "From FT Require Import Model.Base Model.Obs Model.C04Coiter Model.C04Check."
CHECK_VO = ["Model/C04Check.v"]
CHECKER = "c04_checker"
CASE_TYPE = "c04_case"
SHARD = 150

RULE = ("case = 2-4 operand fibers (stored coordinates ints or tuples of ints of one arity, payloads leaves "
        "or sub-fibers of depth <= 2, per coordinate absent / explicit default or empty sub-fiber / populated, "
        "leaf default 0, 3 or None (sentinel; stored zeros are then present elements), rank format C or U with an explicit active range, unowned or root of a tensor) + "
        "mixed-arity flag; observation = per operator (a&b, b&a, a|b, a^b, a-b, intersection, union, "
        "leader-follower) the list of (coordinate, mask, origin of every delivered payload: position in the "
        "operand's payload list found with `is`, or snapshot of a new object), distinctness of the new objects, "
        "operand snapshots and Rank.getFibers() lengths before and after. distinct = distinct canonical JSON; "
        "non-trivial = at least one operand delivers an element")
TRUSTED = ["Coq 8.16.1 kernel (coqc; coqchk in the thorough tier); vm_compute used; native_compute not used",
           "Print Assumptions of every C04 theorem: Closed under the global context (no axioms)",
           "hand-written Gallina model coq/Model/C04Coiter.v of the merge iterators, tied to the implementation "
           "by the differential correspondence check of this run",
           "harness: harness/check.py, harness/props/c04.py (payload identity via `is`), CPython 3.12"]
ASSUMPTIONS = ["operands are ordered, unique fibers whose stored coordinates have one tuple arity (wf_case); "
               "the mixed-arity path is explored for a & b only (|, ^, - compare int with tuple: TypeError)",
               "followers of leader-follower intersection start with saved position 0 (fresh fibers)",
               "bisect_left on an ordered coordinate list = index of the first coordinate >= c"]
EXPLANATION = ("theorems: each two-finger merge = its set operation with payload origins and masks (all lists), "
               "n-ary forms by induction on the number of operands; oracle c04_holds = truth tables over the "
               "operands' present coordinates, evaluated on the implementation's observation")

ERR_ASSERT, ERR_TYPE, ERR_OTHER = 1, 2, 3


# ------------------------------------------------------------------ generation

def gen_sub(rng, depth, d, width):
    """payload literal of the given depth (0 = leaf)"""
    return U.gen_fiber(rng, depth, [width] * depth, d) if depth else None


def gen_operand(rng, arity, depth, d, span, style):
    """style: 'C', 'U', 'owned', 'ownedU'; stored coordinates within 0..span-1 per component"""
    p_absent = rng.choice([0.0, 0.2, 0.5, 0.5, 0.8, 1.0])
    p_zero = rng.choice([0.0, 0.0, 0.2, 0.5, 1.0])
    # default None (sentinel U.NONE_D): nothing is an empty leaf value; the "explicit default" class of
    # the generator then stores zeros, which are ordinary present elements
    dz = 0 if d == U.NONE_D else d
    es = []
    for c in itertools.product(range(span), repeat=arity):
        if rng.random() < p_absent:
            continue
        if depth == 1:
            v = dz if rng.random() < p_zero else rng.choice([x for x in range(1, 10) if x != dz])
            es.append([list(c), v])
        else:
            if rng.random() < p_zero:
                sub = rng.choice([[], [[rng.randint(0, 2), dz]]]) if depth == 2 else []
            else:
                sub = U.gen_fiber(rng, depth - 1, [3] * (depth - 1), dz)
            es.append([list(c), sub])
    if arity > 1 and len(es) > 7:
        keep = sorted(rng.sample(range(len(es)), 7))
        es = [es[i] for i in keep]
    isU = style in ("U", "ownedU")
    lo = rng.randint(0, 2)
    hi = rng.randint(0, span + 1)
    return {"es": es, "d": d, "U": isU, "lo": lo if isU else 0, "hi": hi if isU else 0,
            "owned": style in ("owned", "ownedU"), "depth": depth}


def gen_case(rng, k=None, mixed=False, owned=False, none=False):
    depth = rng.choice([2, 2, 3]) if owned else rng.choice([1, 1, 2, 2, 3])
    d = rng.choice([0, 0, 0, 3])
    if none:
        c = _gen_case_none(rng, k, mixed, owned)
        return c
    if mixed:
        ar = rng.sample([1, 2, 3], 2)
        span = 3
        ops = [gen_operand(rng, ar[i], depth, d, span, "C") for i in range(2)]
        # (operands with stored elements that deliver nothing — the former S20 region — included)
        return {"ops": ops, "mixed": True}
    k = k or rng.choice([2, 2, 2, 3, 4])
    arity = 1 if owned else rng.choice([1, 1, 1, 2])
    span = rng.randint(1, 6) if arity == 1 else 3
    styles = ["C", "C", "owned", "U", "ownedU"] if arity == 1 else ["C"]
    if owned:       # operands that are roots of tensors with interior ranks (rank bookkeeping, S16)
        styles = ["owned", "owned", "owned", "ownedU"]
    ops = [gen_operand(rng, arity, depth, d if rng.random() < 0.8 else rng.choice([0, 3]), span, rng.choice(styles))
           for _ in range(k)]
    return {"ops": ops, "mixed": False}


def _gen_case_none(rng, k, mixed, owned):
    """theme T1: operands whose default is None ("no empty value", sentinel U.NONE_D) and that store zeros;
    mostly all operands, sometimes mixed with default-0 operands"""
    depth = rng.choice([2, 2, 3]) if owned else rng.choice([1, 1, 1, 2, 2, 3])
    dd = lambda: U.NONE_D if rng.random() < 0.8 else 0
    if mixed:
        ar = rng.sample([1, 2, 3], 2)
        return {"ops": [gen_operand(rng, ar[i], depth, dd(), 3, "C") for i in range(2)], "mixed": True}
    k = k or rng.choice([2, 2, 2, 3, 4])
    arity = 1 if owned else rng.choice([1, 1, 1, 2])
    span = rng.randint(1, 6) if arity == 1 else 3
    styles = ["C", "C", "owned", "U", "ownedU"] if arity == 1 else ["C"]
    if owned:
        styles = ["owned", "owned", "owned", "ownedU"]
    ops = [gen_operand(rng, arity, depth, dd(), span, rng.choice(styles)) for _ in range(k)]
    if not any(o["d"] == U.NONE_D for o in ops):
        ops[0]["d"] = U.NONE_D
    return {"ops": ops, "mixed": False}


def has_none(case):
    return any(o["d"] == U.NONE_D for o in case["ops"])


def exhaustive_pairs_none():
    """every pair of leaf fibers over coordinates 0..2 x {absent, stored 0, value}, both with default None,
    compressed and uncompressed a"""
    opts = list(itertools.product([None, 0, 1], repeat=3))
    cases = []
    for aU in (False, True):
        for x in opts:
            for y in opts:
                ops = []
                for j, cfg in enumerate((x, y)):
                    es = [[[c], (0 if v == 0 else 5 + c)] for c, v in enumerate(cfg) if v is not None]
                    isU = aU and j == 0
                    ops.append({"es": es, "d": U.NONE_D, "U": isU, "lo": 0, "hi": 3 if isU else 0,
                                "owned": False, "depth": 1})
                cases.append({"ops": ops, "mixed": False})
    return cases


def delivers(o):
    if o["U"]:
        return o["hi"] > o["lo"]
    return any(not U.is_empty_lit(p, o["d"]) for _, p in o["es"])


def exhaustive_pairs():
    """every pair of leaf fibers over coordinates 0..3 x {absent, explicit default, value}"""
    opts = list(itertools.product([None, 0, 1], repeat=4))
    cases = []
    for x in opts:
        for y in opts:
            ops = []
            for cfg in (x, y):
                es = [[[c], (0 if v == 0 else 5 + c)] for c, v in enumerate(cfg) if v is not None]
                ops.append({"es": es, "d": 0, "U": False, "lo": 0, "hi": 0, "owned": False, "depth": 1})
            cases.append({"ops": ops, "mixed": False})
    return cases


def boundary_cases():
    def op(es, **kw):
        o = {"es": es, "d": 0, "U": False, "lo": 0, "hi": 0, "owned": False, "depth": 1}
        o.update(kw)
        return o
    E = op([])
    T2 = op([[[1, 2], 5], [[1, 4], 6], [[3, 0], 7]])
    T3 = op([[[1, 2, 0], 5], [[1, 2, 7], 6], [[1, 4, 1], 2], [[2, 0, 0], 7]])
    I = op([[[1], 10], [[3], 30]])
    Z = op([[[1], 0], [[2], 0]])
    Z2 = op([[[1, 2], 0], [[3, 0], 0]])
    Z3 = op([[[1, 2, 0], 0]])
    sub2 = lambda *cs: [[c, 1] for c in cs]
    cases = [
        {"ops": [E, T2], "mixed": True}, {"ops": [T2, E], "mixed": True},       # S12 witnesses
        {"ops": [E, T3], "mixed": True}, {"ops": [I, T2], "mixed": True}, {"ops": [T2, I], "mixed": True},
        {"ops": [I, T3], "mixed": True}, {"ops": [T2, T3], "mixed": True}, {"ops": [T3, T2], "mixed": True},
        {"ops": [E, E], "mixed": False}, {"ops": [E, I], "mixed": False}, {"ops": [I, E], "mixed": False},
        {"ops": [Z, I], "mixed": False}, {"ops": [Z, Z, I], "mixed": False}, {"ops": [E, E, E, E], "mixed": False},
        # former S20 region: stored tuple coordinates, every payload an explicit default
        {"ops": [Z2, T2], "mixed": False}, {"ops": [T2, Z2], "mixed": False}, {"ops": [Z2, Z2, T2], "mixed": False},
        {"ops": [Z2, T3], "mixed": True}, {"ops": [T3, Z2], "mixed": True}, {"ops": [Z, T2], "mixed": True},
        {"ops": [Z2, I], "mixed": True}, {"ops": [Z3, T2], "mixed": True}, {"ops": [Z2, Z3], "mixed": True},
        # S16 witnesses: owned interior operands, coordinates on one side only
        {"ops": [op([[[0], sub2(0)], [[2], sub2(1)]], owned=True, depth=2),
                 op([[[1], sub2(1)], [[2], sub2(0)]], owned=True, depth=2)], "mixed": False},
        {"ops": [op([[[0], sub2(0)]], owned=True, depth=2), op([], owned=True, depth=2),
                 op([[[1], []], [[3], sub2(2)]], owned=True, depth=2)], "mixed": False},
        {"ops": [op([[[1], 4]], U=True, lo=0, hi=4), op([[[0], 2], [[3], 0]], U=True, lo=1, hi=3)], "mixed": False},
        {"ops": [op([[[1], sub2(0)]], U=True, lo=0, hi=3, owned=True, depth=2),
                 op([[[0], sub2(1)], [[2], []]], owned=True, depth=2)], "mixed": False},
    ]
    # theme T1: default None, stored zeros are present elements
    N = U.NONE_D
    Nz = op([[[0], 0], [[2], 5]], d=N)
    Ny = op([[[0], 7], [[1], 0]], d=N)
    NE = op([], d=N)
    N0 = op([[[1], 0]], d=N)
    NT = op([[[1, 2], 0], [[3, 0], 4]], d=N)
    zsub = lambda *cs: [[c, 0] for c in cs]
    cases += [
        {"ops": [Nz, Ny], "mixed": False}, {"ops": [Ny, Nz], "mixed": False}, {"ops": [N0, NE], "mixed": False},
        {"ops": [NE, N0], "mixed": False}, {"ops": [N0, N0], "mixed": False}, {"ops": [Nz, I], "mixed": False},
        {"ops": [Z, N0], "mixed": False}, {"ops": [Nz, Ny, N0], "mixed": False}, {"ops": [N0, NE, Ny, Nz], "mixed": False},
        {"ops": [op([[[1], 0]], d=N, U=True, lo=0, hi=3), Ny], "mixed": False},
        {"ops": [Ny, op([[[1], 0], [[2], 3]], d=N, U=True, lo=1, hi=3)], "mixed": False},
        {"ops": [op([[[0], zsub(0)], [[2], zsub(1, 2)]], d=N, owned=True, depth=2),
                 op([[[1], zsub(1)], [[2], []]], d=N, owned=True, depth=2)], "mixed": False},
        {"ops": [op([[[0], zsub(0)], [[1], []]], d=N, depth=2), op([[[0], zsub(1)]], d=N, depth=2),
                 op([], d=N, owned=True, depth=2)], "mixed": False},
        {"ops": [op([[[0], 0], [[1], 0]], d=N, owned=True), op([[[1], 0], [[2], 1]], d=N, owned=True, U=True, lo=0, hi=3)],
         "mixed": False},
        {"ops": [N0, NT], "mixed": True}, {"ops": [NT, N0], "mixed": True}, {"ops": [NT, NT], "mixed": False},
    ]
    return cases


def streams(tier, rng):
    yield ("boundary", boundary_cases(), False)
    n = 700 if tier == "quick" else 12000
    yield ("random-equal-arity", [gen_case(rng) for _ in range(n)], False)
    m = 200 if tier == "quick" else 4000
    yield ("random-mixed-arity", [gen_case(rng, mixed=True) for _ in range(m)], False)
    yield ("random-k-ary", [gen_case(rng, k=rng.choice([3, 4])) for _ in range(m)], False)
    yield ("random-owned-interior", [gen_case(rng, owned=True) for _ in range(m)], False)
    # theme T1 (default None, stored zeros present): 2-ary and k-ary, C and U ranks, unowned and owned,
    # mixed arity, owned interior
    q = 240 if tier == "quick" else 5000
    yield ("none-default", [gen_case(rng, none=True) for _ in range(q)], False)
    yield ("none-default-k-ary", [gen_case(rng, k=rng.choice([3, 4]), none=True) for _ in range(q // 3)], False)
    yield ("none-default-mixed-arity", [gen_case(rng, mixed=True, none=True) for _ in range(q // 3)], False)
    yield ("none-default-owned-interior", [gen_case(rng, owned=True, none=True) for _ in range(q // 3)], False)
    if tier == "thorough":
        yield ("exhaustive-pairs-3^4x3^4", exhaustive_pairs(), True)
        yield ("exhaustive-none-default-pairs-2x3^3x3^3", exhaustive_pairs_none(), True)


def nontrivial(case):
    return any(delivers(o) for o in case["ops"])


def describe(case):
    ops = case["ops"]
    return {"k": len(ops), "mixed": case["mixed"], "depth": ops[0]["depth"],
            "arity": max([len(o["es"][0][0]) for o in ops if o["es"]] or [1]),
            "empty_operand": any(not o["es"] for o in ops),
            "all_default_operand": any(o["es"] and not delivers(o) for o in ops),
            "explicit_default": any(U.has_explicit_default([[0, p] for _, p in o["es"]], o["d"]) for o in ops),
            "any_U": any(o["U"] for o in ops), "any_owned": any(o["owned"] for o in ops),
            "none_default": has_none(case),
            "none_default_stored_zero": any(o["d"] == U.NONE_D and U.has_explicit_default([[0, p] for _, p in o["es"]], 0)
                                            for o in ops)}


# ------------------------------------------------------------------ Coq literals

def coord_lit(c):
    return L.zlist(c)


def operand_to_coq(o):
    es = L.lst(L.tup(coord_lit(c), L.tree(p)) for c, p in o["es"])
    return "(Build_operand %s %s %s %s %s %s %s)" % (
        es, L.z(o["d"]), L.b(o["U"]), L.z(o["lo"]), L.z(o["hi"]), L.b(o["owned"]), L.nat(o["depth"]))


def case_to_coq(c):
    return "(Build_c04_case %s %s)" % (L.lst(operand_to_coq(o) for o in c["ops"]), L.b(c["mixed"]))


# ------------------------------------------------------------------ implementation driver

def _build(o):
    """-> (fiber, tensor or None)"""
    from fibertree import Fiber, Tensor
    d = o["d"]
    if o["owned"]:
        lit = [[c[0], p] for c, p in o["es"]]
        T = U.build_tensor(lit, o["depth"], None, d)
        f = T.getRoot()
        if o["U"]:
            T.setFormat(T.getRankIds()[0], "U")
            f.setActive((o["lo"], o["hi"]))
        return f, T
    coords = [c[0] if len(c) == 1 else tuple(c) for c, _ in o["es"]]
    pays = [U.dress(p) if isinstance(p, int) else U.build_fiber(p, d) for _, p in o["es"]]
    # touch mode (theme T3): all but the last element, read-only queries, then the last element by append -
    # anything a read remembered (active range, shape, maximum coordinate, default) is stale afterwards
    staged = U.MODE["touch"] and len(coords) >= 2
    if staged:
        f = Fiber(coords[:-1], pays[:-1])
    else:
        f = Fiber(coords, pays) if coords else Fiber([], [])
    if d != 0:
        f._setDefault(U.dress(d))
    if U.MODE["touch"]:
        U.touch(f)
    if staged:
        f.append(coords[-1], pays[-1])
    if o["U"]:
        f.getRankAttrs().setFormat("U")
        f.setActive((o["lo"], o["hi"]))
    return f, None


def _snap_val(p):
    """snapshot of a payload value: leaf -> int, fiber -> nested [coord, payload]"""
    from fibertree import Fiber, Payload
    if isinstance(p, Fiber):
        return U.snap(p)
    n = 0
    while isinstance(p, Payload):
        p = p.value
        n += 1
    if isinstance(p, Fiber):
        return U.snap(p)
    p = U.undress(p)
    if n != 1 or not isinstance(p, int):
        return [[-2, n]]
    return p


def _snap_top(f):
    out = []
    for c, p in zip(f.coords, f.payloads):
        out.append([list(c) if isinstance(c, tuple) else [c], _snap_val(p)])
    return out


def _counts(T):
    return [] if T is None else [len(r.getFibers()) for r in T.ranks]


def run_impl(case):
    from fibertree import Fiber, Payload
    # theme T1: an operand whose default is the sentinel is built with default None (U.dress) and a
    # None handed out for an absent side is read back as the sentinel (impl_worker resets the flag per case)
    U.MODE["none_default"] = has_none(case)
    built = [_build(o) for o in case["ops"]]
    fibers = [f for f, _ in built]
    tensors = [t for _, t in built]
    a, b = fibers[0], fibers[1]
    snaps_before = [_snap_top(f) for f in fibers]
    counts_before = [_counts(t) for t in tensors]
    keep = []          # keeps every delivered object alive so that id() is meaningful
    fresh_ids = []
    stored = {}
    def index_stored():
        stored.clear()
        def walk(f):
            for p in f.payloads:
                stored[id(p)] = True
                if isinstance(p, Fiber):
                    walk(p)
        for f in fibers:
            walk(f)
    index_stored()

    def origin(p, f):
        keep.append(p)
        if isinstance(p, Payload) and isinstance(p.value, tuple):
            return [9]
        for i, q in enumerate(f.payloads):
            if q is p:
                return [0, i]
        if p is None and U.MODE["none_default"]:
            # the default None is handed out unboxed (Payload.maybe_box(None) is None): there is no object
            # whose freshness could be observed; its value is the (sentinel) default
            return [1, U.NONE_D]
        fresh_ids.append(id(p))
        return [1, _snap_val(p)]

    def cl(c):
        return list(c) if isinstance(c, tuple) else [c]

    def guard(fn):
        try:
            return fn()
        except AssertionError:
            return [-1, ERR_ASSERT]
        except TypeError:
            return [-1, ERR_TYPE]
        except Exception:
            return [-1, ERR_OTHER]

    MASK = {"": 0, "A": 1, "B": 2, "AB": 3}

    def r_and(x, y):
        out = []
        for c, p in x & y:
            v = Payload.get(p)
            out.append([cl(c), 0, [origin(v[0], x), origin(v[1], y)]])
        return out

    def r_masked(z):
        out = []
        for c, p in z:
            v = Payload.get(p)
            out.append([cl(c), MASK[Payload.get(v[0])], [origin(v[1], a), origin(v[2], b)]])
        return out

    def r_sub():
        return [[cl(c), 0, [origin(p, a)]] for c, p in a - b]

    def r_nand():
        out = []
        for c, p in Fiber.intersection(*fibers):
            v = Payload.get(p)
            out.append([cl(c), 0, [origin(q, f) for q, f in zip(v, fibers)]])
        return out

    def r_nor():
        out = []
        for c, p in Fiber.union(*fibers):
            v = Payload.get(p)
            m = Payload.get(v[0])
            bits = sum(1 << (ord(ch) - ord("A")) for ch in m)
            out.append([cl(c), bits, [origin(q, f) for q, f in zip(v[1:], fibers)]])
        return out

    def r_lf():
        out = []
        for c, p in Fiber.intersection(*fibers, style="leader-follower"):
            v = Payload.get(p)
            out.append([cl(c), 0, [origin(q, f) for q, f in zip(v, fibers)]])
        return out

    obs = [guard(lambda: r_and(a, b)), guard(lambda: r_and(b, a))]
    if case["mixed"]:
        obs += [[], [], [], [], [], []]
    else:
        obs += [guard(lambda: r_masked(a | b)), guard(lambda: r_masked(a ^ b)), guard(r_sub),
                guard(r_nand), guard(r_nor), guard(r_lf)]
    fresh_ok = len(set(fresh_ids)) == len(fresh_ids) and not any(i in stored for i in fresh_ids)
    obs.append(bool(fresh_ok))
    obs.append(snaps_before)
    obs.append([_snap_top(f) for f in fibers])
    obs.append(counts_before)
    obs.append([_counts(t) for t in tensors])
    return obs


def repro_py(case):
    return ("import sys, json; sys.path.insert(0, '/verif/harness'); sys.path.insert(0, '/verif/harness/props')\n"
            "import c04\ncase = json.loads(%r)\nprint(c04.run_impl(case))\n" % (__import__("json").dumps(case),))


# ------------------------------------------------------------------ shrinking / search

def shrinks(case):
    ops = case["ops"]
    if len(ops) > 2:
        for i in range(2, len(ops)):
            c = copy.deepcopy(case)
            del c["ops"][i]
            yield c
    for i, o in enumerate(ops):
        for j in range(len(o["es"])):
            c = copy.deepcopy(case)
            del c["ops"][i]["es"][j]
            yield c
        for j, (co, p) in enumerate(o["es"]):
            if not isinstance(p, int) and p:
                for t in range(len(p)):
                    c = copy.deepcopy(case)
                    del c["ops"][i]["es"][j][1][t]
                    yield c
        if o["U"]:
            c = copy.deepcopy(case)
            c["ops"][i]["U"] = False
            c["ops"][i]["lo"] = c["ops"][i]["hi"] = 0
            yield c
        if o["owned"]:
            c = copy.deepcopy(case)
            c["ops"][i]["owned"] = False
            yield c


def search(disagreeing, rng, rnd):
    out = [gen_case(rng) for _ in range(200)] + [gen_case(rng, mixed=True) for _ in range(100)]
    return out
