"""C16 — traces are well-formed (fibertree/core/metrics.py, iterators.py, fiber.py)."""
import os
import coqlit as L
import ftutil as U

ID = "C16"
THEOREMS = ["C16_flush", "C16_consumable", "C16_header", "C16_model_header", "C16_model_flush_consumable", "C16_intersect_rows", "C16_positions_refuted",
            "C16_trace_is_emits", "C16_level_spec", "C16_plain_nest_spec", "C16_plain_nest",
            "C16_intersect_rows_b", "C16_intersect_yields", "C16_eager_nest_spec", "C16_eager_nest",
            "C16_model_meets_spec_partial",
            "C16_pop_stamp_discipline", "C16_pop_loop_facts", "C16_pop_level_core",
            "C16_retry_endcollect", "C16_nest_spec", "C16_nest", "C16_model_meets_spec_populate",
            "C16_populate_position", "C16_populate_dest_rows",
            "C16_populate_level_dest_rows", "C16_populate_fib_level_dest",
            "C16_populate_read_scan", "C16_populate1_spec", "C16_model_meets_spec_populate1"]
COQ_IMPORTS = "From FT Require Import Model.Base Model.Obs Model.C16Metrics Model.C16Nest Model.C16Check."
CHECK_VO = ["Model/C16Check.v"]
CHECKER = "c16_checker"
CASE_TYPE = "c16_case"
SHARD = 60
CASE_TIMEOUT = 20

RULE = ("case = (loop nest of depth 1-3, each level `for c, p in [z <<] (x | x & y)` or, innermost, "
        "`z << x.project(c -> c + k, rank_id=<z's rank>, tick=True)`; compressed or uncompressed input / "
        "destination ranks, optionally one flattened rank (tuple coordinates + Metrics.associateShape with huge "
        "shapes); input tensors of that depth incl. explicit defaults and empty sub-fibers, a pre-populated "
        "output tensor for the leading populate levels, innermost body `z_ref += 1` unless the point is "
        "skipped, optional untraced getPayloadRef look-ups in the bodies (innermost element, another "
        "coordinate of the enclosing fiber, a scratch fiber outside the nest), the set of registered traces, "
        "2-3 flush thresholds); observation = every CSV file (header + integer rows) under every threshold, "
        "the files and consumeTrace rows of a file+consumable run and of a run whose first endCollect() raises "
        "and is retried, the output tensor after the run. distinct = distinct canonical JSON; non-trivial = at "
        "least one trace has a data row")
TRUSTED = ["Coq 8.16.1 kernel (coqc; coqchk in the thorough tier); vm_compute used; native_compute not used",
           "Print Assumptions of every C16 theorem: Closed under the global context (no axioms)",
           "hand-written Gallina model coq/Model/C16Metrics.v (Metrics trace state machine) and C16Nest.v "
           "(event streams of iterRange, &, <<) tied to /repo by the differential correspondence check of this run",
           "harness: harness/check.py, harness/props/c16.py, CPython 3.12 running the implementation; the CSV "
           "parser and the rank-name -> level-index table of c16.py"]
ASSUMPTIONS = ["loop nests drawn from the grammar in RULE; getPayload(trace=) rows are not modelled",
               "Metrics.getLabel numbering is static per level (reset by endIter): 0,1 outer operator, 2,3 the & below <<",
               "leaf default 0, integer coordinates in the model (a flattened rank is linearised exactly by the harness)",
               "proved end to end in Coq (c16_holds c (c16_model c) = true): nests without populate level "
               "(C16_model_meets_spec_partial); populate prefix of any depth without projection level when no "
               "populate_read/populate_write trace is registered (C16_model_meets_spec_populate); populate prefix of "
               "depth <= 1 with ANY registered traces when the root traversal does not insert "
               "(C16_model_meets_spec_populate1). NOT proved: destination-side addressing below the first level, "
               "read_covered for inserting traversals (only its scan half, per traversal: C16_populate_read_scan), the "
               "projection level, hence the full C16_model_meets_spec; for those cases the oracle is evaluated on the "
               "model's own observation for every generated case (verdict bit 4)"]
EXPLANATION = ("oracle = reference semantics of the nest (filter/lookup iteration space) + header/stamp/"
               "addressing checks per trace (destination-side rows of a populate against the populated tensor before / "
               "after the run when the traversal does not insert; for an inserting traversal every stored element below "
               "the last source coordinate must have its populate_read row(s)) + equality across thresholds, with the "
               "consumable rows and with the retried-endCollect run")

RANKS = ["M", "K", "N", "P", "Q"]
KIND = {0: "iter", 1: "intersect_%d", 2: "populate_%d", 3: "populate_read_%d", 4: "populate_write_%d",
        5: "project_%d"}


def rank_name(r):
    return ("S" + RANKS[r - 50]) if r >= 50 else RANKS[r]


def type_name(kind, label):
    s = KIND[kind]
    return s % label if "%" in s else (s if label == 0 else "iter_%d" % label)


# ------------------------------------------------------------------ generator

def gen_case(rng, depth=None, canon=None):
    D = depth or rng.choice([1, 2, 2, 3, 3])
    shapes = [rng.randint(2, 5) for _ in range(D)]
    if canon is None:
        canon = rng.random() < 0.7
    if os.environ.get("C16_CANON"):
        canon = True
    pz, pe = (0.0, 0.0) if canon else (rng.choice([0.15, 0.4]), rng.choice([0.0, 0.15, 0.4]))
    inputs = [U.gen_fiber(rng, D, shapes, 0, p_absent=rng.choice([0.0, 0.2, 0.5, 0.5, 0.8]),
                          p_zero=pz, p_emptysub=pe) for _ in range(2)]
    if canon:
        inputs = [prune(t) for t in inputs]
    nz = rng.choice([0, 0, 1, 1, 2, 3])
    nz = min(nz, D)
    live = [0, 1]
    levels = []
    for i in range(D):
        if len(live) == 2:
            ch = rng.choice(["A01", "A01", "A10", "F0", "F1"])
        else:
            ch = "F%d" % live[0]
        if ch[0] == "A":
            s = ["A", int(ch[1]), int(ch[2])]
        else:
            s = ["F", int(ch[1])]
            live = [int(ch[1])]
        levels.append([i < nz, s, False, False, None, shapes[i]])
    zshape = shapes[:nz]
    last = levels[-1]
    if nz == D and rng.random() < 0.3:
        # innermost level: z << x.project(c -> c + k, rank_id=<z's rank>, tick=True)
        x = last[1][1] if last[1][0] == "F" else last[1][1]
        last[1] = ["F", x]
        last[4] = rng.choice([0, 1, 2])
        zshape[-1] += last[4]
    elif rng.random() < 0.25:
        last[2] = True                      # input rank declared uncompressed
    for lv_ in levels:
        if lv_[0] and rng.random() < 0.25:
            lv_[3] = True                   # destination rank declared uncompressed
    z = []
    if nz:
        z = U.gen_fiber(rng, nz, zshape, 0, p_absent=rng.choice([0.3, 0.6, 0.9, 1.0]),
                        p_zero=rng.choice([0.0, 0.0, 0.3]), p_emptysub=rng.choice([0.0, 0.0, 0.3]))
    flat = None
    # (`for` levels over one operand or over `x & y`: both operands then carry the tuple coordinates)
    cand_flat = [i for i, l in enumerate(levels) if not l[0] and not l[2] and l[4] is None]
    if cand_flat and rng.random() < 0.15:
        # a flattened rank: tuple coordinates (a, b, c) within dims, logged by Metrics as their
        # row-major linearisation (Metrics.associateShape); the case carries the linearised values
        lvl = rng.choice(cand_flat)
        dims = rng.choice(FLAT_DIMS)
        tuples = set()
        while len(tuples) < shapes[lvl]:
            tuples.add(tuple(rng.randrange(d) for d in dims))
        lins = sorted(_lin(t, dims) for t in tuples)
        inputs = [_remap(t, lvl, lins) for t in inputs]
        prod = dims[0] * dims[1] * dims[2]
        shapes[lvl] = prod
        levels[lvl][5] = prod
        flat = [lvl, list(dims)]
    keys = []
    for i, (pop, s, _u, _zu, proj, _sh) in enumerate(levels):
        base = 2 if pop else 0
        cand = [[i, 0, 0]]
        if s[0] == "A":
            cand += [[i, 1, base], [i, 1, base + 1]]
        if pop:
            cand += [[i, 2, 1], [i, 3, 0], [i, 4, 0]]
        if proj is not None:
            cand += [[50 + i, 0, 0], [50 + i, 5, 0], [50 + i, 5, 2]]
        p_keep = rng.choice([1.0, 1.0, 0.7])
        keys += [k for k in cand if rng.random() < p_keep]
    if rng.random() < 0.3:
        extra = [rng.randint(0, D), rng.choice([1, 1, 2, 3, 4]), rng.choice([0, 1, 2, 5])]
        if extra[0] >= len(RANKS):
            extra[0] = 0
        if extra not in keys:
            keys.append(extra)
    rng.shuffle(keys)
    ths = sorted(rng.sample([2, 3, 4, 7, 1000], rng.choice([2, 3])))
    rng.shuffle(ths)
    # untraced reference lookups done by the bodies (bit mask): 1 = the element just reached on the
    # innermost fiber, 2 = ANOTHER stored coordinate of the fiber of the enclosing loop, 4 = an element
    # of a scratch fiber whose rank is not part of the nest.  None of them may leave a mark in a trace.
    ref = rng.choice([1, 2, 2, 3, 4, 6, 7]) if rng.random() < 0.35 else 0
    return {"ref": ref, "flat": flat, "levels": levels, "inputs": inputs, "z": z, "zshape": zshape, "shapes": shapes,
            "skip": rng.choice([0, 0, 2, 3]), "keys": keys, "thresholds": ths}


FLAT_DIMS = [(3, 4, 5), (8, 2 ** 31 - 1, 2 ** 31 - 1), (16, 10 ** 9 + 7, 10 ** 9 + 9)]


def _lin(t, dims):
    return (t[0] * dims[1] + t[1]) * dims[2] + t[2]


def _unlin(v, dims):
    c = v % dims[2]
    v //= dims[2]
    return (v // dims[1], v % dims[1], c)


def _remap(t, lvl, lins):
    """replace the coordinates at depth lvl by lins[coordinate]"""
    if isinstance(t, int):
        return t
    if lvl == 0:
        return [[lins[c], s] for c, s in t]
    return [[c, _remap(s, lvl - 1, lins)] for c, s in t]


def prune(t):
    """drop stored empty elements (explicit defaults, empty sub-fibers), bottom-up"""
    if isinstance(t, int):
        return t
    out = [[c, prune(s)] for c, s in t]
    return [[c, s] for c, s in out if not U.is_empty_lit(s, 0)]


def streams(tier, rng):
    n = 420 if tier == "quick" else 6000
    yield ("random", [gen_case(rng) for _ in range(n)], False)
    yield ("populate-deep", [c for c in (gen_case(rng, depth=rng.choice([2, 3]), canon=True)
                                         for _ in range(n // 2)) if c["levels"][0][0]], False)
    yield ("formats-project", [c for c in (gen_case(rng, depth=rng.choice([1, 2, 2, 3]), canon=True)
                                           for _ in range(n)) if any(l[2] or l[3] or l[4] is not None
                                                                     for l in c["levels"])][:n // 2], False)
    yield ("insert-gaps", [gen_gap_case(rng) for _ in range(n // 6)], False)


def gen_gap_case(rng):
    """an INSERTING populate into a dense compressed z whose gaps of width 1 are filled by the source:
    a newly inserted (and kept) coordinate c is directly followed by a stored c+1 and the source goes
    on beyond c+1, so the next populate_read scan (iterRange(old_end, b_coord)) starts at c+1"""
    D = rng.choice([1, 1, 2])
    n0 = rng.randint(6, 12)
    shapes = [n0] + [rng.randint(2, 4) for _ in range(D - 1)]
    nz = rng.choice([1, D])

    def sub(depth, sh):
        if depth == 0:
            return rng.randint(1, 9)
        cs = [c for c in range(sh[0]) if rng.random() < 0.6] or [rng.randrange(sh[0])]
        return [[c, sub(depth - 1, sh[1:])] for c in cs]
    g, off = rng.choice([2, 3, 3]), rng.randrange(3)
    zc = [c for c in range(n0) if c % g != off % g and rng.random() < 0.85]
    z = [[c, sub(nz - 1, shapes[1:])] for c in zc]
    inputs = []
    for _ in range(2):
        sc = [c for c in range(n0) if rng.random() < rng.choice([0.5, 0.7, 0.9])] or [0]
        inputs.append([[c, sub(D - 1, shapes[1:])] for c in sc])
    if rng.random() < 0.7:
        src = ["F", 0]
    else:
        src = ["A", 0, 1]
    levels = [[True, src, False, False, None, n0]]
    for i in range(1, D):
        levels.append([i < nz, ["F", 0], False, False, None, shapes[i]])
    keys = [[0, 3, 0], [0, 4, 0]]
    opt = [[0, 0, 0], [0, 2, 1]] + ([[0, 1, 2], [0, 1, 3]] if src[0] == "A" else [])
    for i in range(1, D):
        opt += [[i, 0, 0]] + ([[i, 2, 1], [i, 3, 0], [i, 4, 0]] if i < nz else [])
    keys += [k for k in opt if rng.random() < 0.6]
    rng.shuffle(keys)
    ths = sorted(rng.sample([2, 3, 4, 7, 1000], 2))
    rng.shuffle(ths)
    return {"ref": 0, "flat": None, "levels": levels, "inputs": inputs, "z": z, "zshape": shapes[:nz],
            "shapes": shapes, "skip": rng.choice([0, 0, 0, 3]), "keys": keys, "thresholds": ths}


def has_empty(t):
    if isinstance(t, int):
        return False
    return any(U.is_empty_lit(s, 0) or has_empty(s) for _, s in t)


def nontrivial(case):
    return any(case["inputs"][0]) and bool(case["keys"])


def describe(case):
    return {"depth": len(case["levels"]),
            "n_pop": sum(1 for l in case["levels"] if l[0]),
            "any_and": any(l[1][0] == "A" for l in case["levels"]),
            "input_rank_U": any(l[2] for l in case["levels"]),
            "dest_rank_U": any(l[3] for l in case["levels"]),
            "projection_level": any(l[4] is not None for l in case["levels"]),
            "flattened_rank": case.get("flat") is not None,
            "body_getPayloadRef": int(case.get("ref") or 0),
            "empty_elements_in_inputs": any(has_empty(t) for t in case["inputs"]),
            "z_prepopulated": bool(case["z"]),
            "n_keys": len(case["keys"])}


def case_to_coq(c):
    def src(s):
        return "(SFib %s)" % L.nat(s[1]) if s[0] == "F" else "(SAnd %s %s)" % (L.nat(s[1]), L.nat(s[2]))
    lv = L.lst("(Build_level %s %s %s %s %s %s)" % (L.b(p), src(s), L.b(u), L.b(zu), L.opt(pj, L.z), L.z(sh))
               for p, s, u, zu, pj, sh in c["levels"])
    keys = L.lst("(%s, %s, %s)" % (L.z(a), L.z(b_), L.z(d)) for a, b_, d in c["keys"])
    return "(Build_c16_case %s %s %s %s %s %s %s)" % (
        lv, L.lst(L.tree(t) for t in c["inputs"]), L.tree(c["z"]), L.zlist(c["zshape"]),
        L.z(c["skip"]), keys, L.zlist(c["thresholds"]))


# ------------------------------------------------------------------ implementation driver

def _parse(path, name_ix):
    if not os.path.exists(path):
        return [[-98]]
    rows = []
    with open(path) as f:
        lines = [ln.rstrip("\n") for ln in f.readlines()]
    for k, ln in enumerate(lines):
        cells = ln.split(",")
        if k == 0:
            rows.append([_hdr(cell, name_ix) for cell in cells])
        else:
            rows.append([int(x) for x in cells])
    return rows


def _hdr(cell, name_ix):
    if cell == "fiber_pos":
        return -1
    if cell.endswith("_pos") and cell[:-4] in name_ix:
        return 100 + name_ix[cell[:-4]]
    return name_ix.get(cell, -99)


def _mem_rows(rows, name_ix):
    out = []
    for k, r in enumerate(rows):
        if k == 0 and r and isinstance(r[0], str):
            out.append([_hdr(cell, name_ix) for cell in r])
        else:
            out.append([int(x) for x in r])
    return out


def _one_run(case, n, consumable, tmpdir, tag, retry=False):
    from fibertree import Metrics
    D = len(case["levels"])
    levels = case["levels"]
    nz = sum(1 for l in levels if l[0])
    ids = [("S" + RANKS[i]) if levels[i][4] is not None else RANKS[i] for i in range(D)]
    name_ix = {r: i for i, r in enumerate(RANKS)}
    name_ix.update({"S" + r: 50 + i for i, r in enumerate(RANKS)})
    ins = [U.build_tensor(t, D, case["shapes"], 0, rank_ids=ids, name="I%d" % j)
           for j, t in enumerate(case["inputs"])]
    Z = None
    if nz:
        Z = U.build_tensor(case["z"], nz, case["zshape"], 0, rank_ids=RANKS[:nz], name="Z")
    flat = case.get("flat")
    if flat:
        def _tuples(f, depth):
            if depth == 0:
                f.coords[:] = [_unlin(c, flat[1]) for c in f.coords]
            else:
                for p in f.payloads:
                    _tuples(p, depth - 1)
        for T in ins:
            _tuples(T.getRoot(), flat[0])

    def lin(c):
        return _lin(c, flat[1]) if isinstance(c, tuple) else c
    for i, l in enumerate(levels):
        if l[2]:
            for T in ins:
                T.setFormat(ids[i], "U")
        if l[3]:
            Z.setFormat(RANKS[i], "U")
    m = case["skip"]

    ref = int(case.get("ref") or 0)
    scratch = None
    if ref & 4:
        from fibertree import Fiber
        scratch = Fiber([0, 2], [1, 1])
        scratch.getRankAttrs().setId("SCR")

    def lookups(i, stack, fib0, c):
        # reference lookups without trace=: Fiber.getPayloadRef must not touch the metrics state
        if ref & 1 and i == D - 1 and not levels[i][2] and levels[i][4] is None:
            fib0.getPayloadRef(c)
        if ref & 2 and stack:
            f, cur = stack[-1]
            other = [x for x in f.getCoords() if x != cur]
            if other:
                f.getPayloadRef(other[-1])
        if ref & 4 and i == D - 1:
            scratch.getPayloadRef(2)

    def nest(i, env, z, point, stack=()):
        if i == D:
            if z is not None and not (m > 0 and sum(point) % m == 0):
                z += 1
            return
        pop, s, _u, _zu, proj, _sh = levels[i]
        src0 = env[s[1]]
        if proj is not None:
            a_n = env[s[1]].project(trans_fn=lambda c_, k_=proj: c_ + k_, tick=True,
                                    rank_id=RANKS[i], coord_ex=0)
            for c, (zr, p) in (z << a_n).iterOccupancy(tick=False):
                lookups(i, stack, src0, c - proj)
                nest(i + 1, _bind(env, s, p), zr, point + [c], stack + ((src0, c - proj),))
            return
        fib = env[s[1]] if s[0] == "F" else env[s[1]] & env[s[2]]
        if pop:
            for c, (zr, p) in z << fib:
                lookups(i, stack, src0, c)
                nest(i + 1, _bind(env, s, p), zr, point + [c], stack + ((src0, c),))
        else:
            for c, p in fib:
                lookups(i, stack, src0, c)
                nest(i + 1, _bind(env, s, p), z, point + [lin(c)], stack + ((src0, c),))

    def _bind(env, s, p):
        e = list(env)
        if s[0] == "F":
            e[s[1]] = p
        else:
            if hasattr(p, "value") and isinstance(p.value, tuple):
                p = p.value
            e[s[1]], e[s[2]] = p[0], p[1]
        return e

    prefix = os.path.join(tmpdir, tag)
    Metrics.setNumCachedUses(n)
    Metrics.beginCollect(prefix)
    try:
        if flat:
            Metrics.associateShape(ids[flat[0]], tuple(flat[1]))
        for r, kind, label in case["keys"]:
            Metrics.trace(rank_name(r), type_name(kind, label))
            if consumable:
                Metrics.trace(rank_name(r), type_name(kind, label), consumable=True)
        nest(0, [t.getRoot() for t in ins], Z.getRoot() if Z is not None else None, [])
        mems = None
        ended = False
        if retry:
            # legal public use: endCollect() refuses to finish while a consumable trace holds rows
            # (AssertionError, cf. test_consume_trace_missing); consume them and call it again
            try:
                Metrics.endCollect()
                ended = True
                mems = [[] for _ in case["keys"]]
            except AssertionError:
                pass
        if consumable and not ended:
            mems = [_mem_rows(Metrics.consumeTrace(rank_name(r), type_name(kind, label)), name_ix)
                    for r, kind, label in case["keys"]]
    finally:
        try:
            if Metrics.isCollecting():
                Metrics.endCollect()
        finally:
            Metrics.setNumCachedUses(1000)
    files = [_parse("%s-%s-%s.csv" % (prefix, rank_name(r), type_name(kind, label)), name_ix)
             for r, kind, label in case["keys"]]
    zsnap = U.snap(Z.getRoot()) if Z is not None else []
    return files, mems, zsnap


def run_impl(case):
    import tempfile, shutil, io, contextlib
    tmpdir = tempfile.mkdtemp(prefix="c16_")
    try:
        with contextlib.redirect_stdout(io.StringIO()):
            runs = []
            zs = None
            for k, n in enumerate(case["thresholds"]):
                files, _, z = _one_run(case, n, False, tmpdir, "r%d" % k)
                runs.append(files)
                zs = z if zs is None else zs
            f2, m2, _ = _one_run(case, case["thresholds"][0], True, tmpdir, "rc")
            f3, m3, _ = _one_run(case, max(case["thresholds"]), True, tmpdir, "rr", retry=True)
        return [runs, [f2, m2, f3, m3], zs]
    except AssertionError:
        return [-1, 1]
    except IndexError:
        return [-1, 3]
    except Exception:
        return [-1, 5]
    finally:
        shutil.rmtree(tmpdir, ignore_errors=True)


def repro_py(case):
    return ("import sys; sys.path.insert(0,'/verif/harness'); sys.path.insert(0,'/verif/harness/props')\n"
            "import c16\nprint(c16.run_impl(%r))\n" % (case,))


def shrinks(case):
    import copy
    # drop a key, a threshold, a top-level element of an operand, an inner element
    for i in range(len(case["keys"])):
        if len(case["keys"]) > 1:
            c = copy.deepcopy(case); del c["keys"][i]; yield c
    for i in range(len(case["thresholds"])):
        if len(case["thresholds"]) > 1:
            c = copy.deepcopy(case); del c["thresholds"][i]; yield c
    for name in ("inputs0", "inputs1", "z"):
        t = case["z"] if name == "z" else case["inputs"][int(name[-1])]
        for i in range(len(t)):
            c = copy.deepcopy(case)
            tt = c["z"] if name == "z" else c["inputs"][int(name[-1])]
            del tt[i]
            yield c
        for i, (co, s) in enumerate(t):
            if not isinstance(s, int):
                for j in range(len(s)):
                    c = copy.deepcopy(case)
                    tt = c["z"] if name == "z" else c["inputs"][int(name[-1])]
                    del tt[i][1][j]
                    yield c
    if case["skip"]:
        c = copy.deepcopy(case); c["skip"] = 0; yield c


def search(disagreeing, rng, rnd):
    return [gen_case(rng) for _ in range(200)]
