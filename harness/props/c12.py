"""C12 — Equality, emptiness and counting depend on content only
(Fiber.__eq__, Tensor.__eq__, Fiber.isEmpty, countValues, nonEmpty, deepcopy)."""
import copy
import itertools
import coqlit as L
import ftutil as U

ID = "C12"
THEOREMS = ["C12_eq", "C12_eq_pointwise", "C12_content_pointwise", "C12_refl", "C12_sym", "C12_trans", "C12_tensor_eq",
            "C12_deepcopy_eq", "C12_isEmpty", "C12_count", "C12_nonEmpty", "C12_canonical_unique",
            "C12_oracle_meaning", "C12_model_meets_spec"]
COQ_IMPORTS = "From FT Require Import Model.Base Model.Obs Model.C12Eq Model.C12Check."
CHECK_VO = ["Model/C12Check.v"]
CHECKER = "c12_checker"
CASE_TYPE = "c12_case"
SHARD = 120

RULE = ("case = 1-3 fibertrees of one common depth 1-3, each with its own leaf default, rank ids, rank "
        "shapes and ownership mode (0 = unowned fiber, 1 = root of a tensor, 2 = sub-fiber of a larger "
        "tensor); trees are built as (canonical tree) + (explicit defaults, zero-length sub-fibers, "
        "sub-fibers holding only explicit defaults) so that equal-content pairs are frequent, plus "
        "single-deep-leaf differences, one-sided tails, different defaults and different rank ids; "
        "observation = per tree isEmpty, countValues (fiber and tensor), snapshot of nonEmpty(), "
        "nonEmpty()==t both ways, deepcopy==t both ways (fiber and tensor), snapshots of the copy and of the operand "
        "afterwards; the full i x j matrices of Fiber == and Tensor ==. distinct = distinct canonical "
        "JSON of the case; non-trivial = at least two trees and at least one stored element")
TRUSTED = ["Coq 8.16.1 kernel (coqc; coqchk in the thorough tier); vm_compute used; native_compute not used",
           "Print Assumptions of every C12 theorem: Closed under the global context (no axioms)",
           "hand-written Gallina model coq/Model/C12Eq.v of Fiber.__eq__/Tensor.__eq__/countValues/nonEmpty/"
           "deepcopy and Base.is_empty of isEmpty, tied to /repo by the differential correspondence check "
           "of this run (sampled + exhaustive small scope)",
           "harness: harness/check.py, harness/props/c12.py, harness/ftutil.py (build_fiber, build_tensor, "
           "snap), CPython 3.12 running the implementation"]
ASSUMPTIONS = ["compressed ranks only (a 'U' rank presents every coordinate to the union iterator; outside "
               "the property's quantifier)",
               "integer leaf values and coordinates (NaN would falsify reflexivity for reasons outside fibertree)",
               "all compared trees have the same depth; coordinates strictly increasing in every fiber"]
EXPLANATION = ("theorems: fiber_eq (two-finger union walk + mask inspection) = true <-> equal content lists "
               "<-> equal value at every point; refl/sym/trans; tensor eq; isEmpty <-> no content; countValues = "
               "|content|; nonEmpty keeps content and is canonical, canonical trees with equal content are "
               "identical; the oracle c12_holds evaluates exactly these statements on the implementation's "
               "outputs; C12_model_meets_spec ties both")

NCOORD = 5


# ------------------------------------------------------------------ generators (pure)

def gen_canon(rng, depth, p_absent, vals):
    """canonical tree: no explicit default, no empty sub-fiber (may be [] at the root only)"""
    es = []
    for c in range(NCOORD):
        if rng.random() < p_absent:
            continue
        if depth == 1:
            es.append([c, rng.choice(vals)])
        else:
            s = gen_canon(rng, depth - 1, p_absent, vals)
            if s:
                es.append([c, s])
    return es


def empty_tree(rng, depth, d):
    """an empty fiber of the given depth: zero-length, or holding only explicit defaults /
    empty sub-fibers"""
    if rng.random() < 0.4:
        return []
    es = []
    for c in range(NCOORD):
        if rng.random() < 0.6:
            continue
        es.append([c, d if depth == 1 else empty_tree(rng, depth - 1, d)])
    return es


def decorate(rng, t, depth, d, p):
    """same content, different representation: insert explicit defaults / empty sub-fibers at
    absent coordinates"""
    have = {c: s for c, s in t}
    es = []
    for c in range(NCOORD):
        if c in have:
            es.append([c, have[c] if depth == 1 else decorate(rng, have[c], depth - 1, d, p)])
        elif rng.random() < p:
            es.append([c, d if depth == 1 else empty_tree(rng, depth - 1, d)])
    return es


def leaves(t, depth, pre=()):
    if depth == 0:
        return [pre]
    out = []
    for c, s in t:
        out += leaves(s, depth - 1, pre + (c,))
    return out


def set_leaf(t, path, v):
    """copy of t with the leaf at path set to v (path must exist)"""
    t = copy.deepcopy(t)
    cur = t
    for k, c in enumerate(path):
        for e in cur:
            if e[0] == c:
                if k == len(path) - 1:
                    e[1] = v
                else:
                    cur = e[1]
                break
    return t


def del_leaf(t, path):
    t = copy.deepcopy(t)
    cur = t
    for k, c in enumerate(path):
        for i, e in enumerate(cur):
            if e[0] == c:
                if k == len(path) - 1:
                    del cur[i]
                else:
                    cur = e[1]
                break
    return t


def add_leaf(t, path, v):
    """copy of t with a leaf inserted at path (creating the fibers on the way)"""
    t = copy.deepcopy(t)
    cur = t
    for k, c in enumerate(path):
        last = k == len(path) - 1
        for e in cur:
            if e[0] == c:
                if last:
                    e[1] = v
                else:
                    cur = e[1]
                break
        else:
            new = [c, v if last else []]
            cur.append(new)
            cur.sort(key=lambda e: e[0])
            if not last:
                cur = new[1]
    return t


def perturb(rng, t, depth, d, vals):
    """differ in a single deep leaf: change a value, make it the default, drop it, add one"""
    ls = leaves(t, depth)
    kind = rng.choice(["change", "default", "drop", "add", "add"]) if ls else "add"
    if kind == "add":
        return add_leaf(t, tuple(rng.randrange(NCOORD) for _ in range(depth)), rng.choice(vals))
    p = rng.choice(ls)
    if kind == "change":
        return set_leaf(t, p, rng.choice(vals))
    if kind == "default":
        return set_leaf(t, p, d)
    return del_leaf(t, p)


def max_coords(t, depth):
    m = [0] * depth

    def walk(s, k):
        for c, x in s:
            m[k] = max(m[k], c)
            if k + 1 < depth:
                walk(x, k + 1)
    walk(t, 0)
    return m


def mk_item(rng, tree, depth, d, ids=None):
    shape = [m + 1 + rng.choice([0, 0, 1, 3]) for m in max_coords(tree, depth)]
    return {"d": d, "tree": tree, "ids": list(ids if ids is not None else range(depth)),
            "mode": rng.choice([0, 0, 1, 1, 2]), "shape": shape}


def gen_case(rng, depth=None, n=None):
    depth = depth or rng.choice([1, 2, 2, 3, 3])
    n = n or rng.choice([2, 3, 3])
    d = rng.choice([0, 0, 0, 3])
    d2 = d
    vals = [v for v in range(0, 8) if v not in (0, 3)] if rng.random() < 0.5 else \
        [v for v in range(0, 6) if v != d]
    if rng.random() < 0.15:
        d2 = 3 - d          # a second tree with another default (0 <-> 3)
        vals = [v for v in vals if v not in (0, 3)]
    p_absent = rng.choice([0.2, 0.5, 0.5, 0.7, 0.9, 1.0])
    base = gen_canon(rng, depth, p_absent, vals)
    p_dec = rng.choice([0.0, 0.2, 0.5])
    items = []
    cur = base
    for k in range(n):
        dk = d2 if (k == 1 and d2 != d) else d
        r = rng.random()
        if k > 0 and r < 0.4:
            cur = perturb(rng, cur, depth, dk, vals)      # single-leaf difference from the previous
        elif k > 0 and r < 0.5:
            cur = gen_canon(rng, depth, p_absent, vals)   # unrelated
        t = decorate(rng, cur, depth, dk, p_dec) if rng.random() < 0.8 else copy.deepcopy(cur)
        ids = list(range(depth))
        if rng.random() < 0.15:
            ids[rng.randrange(depth)] = 7
        elif depth > 1 and rng.random() < 0.05:
            ids = ids[::-1]
        items.append(mk_item(rng, t, depth, dk, ids))
    return {"depth": depth, "items": items}


def exhaustive_depth1(ncoord, rng):
    states = [None, 0, 1, 2]
    trees = []
    for combo in itertools.product(states, repeat=ncoord):
        trees.append([[c, v] for c, v in enumerate(combo) if v is not None])
    cases = []
    for a in trees:
        for b in trees:
            cases.append({"depth": 1, "items": [
                {"d": 0, "tree": a, "ids": [0], "mode": 0, "shape": [ncoord]},
                {"d": 0, "tree": b, "ids": [0], "mode": 1, "shape": [ncoord]}]})
    return cases


def exhaustive_depth2(rng):
    """depth 2 over 2x2 coordinates: per upper coordinate absent / zero-length / every lower fiber"""
    lows = [[[c, v] for c, v in enumerate(combo) if v is not None]
            for combo in itertools.product([None, 0, 1], repeat=2)]
    subs = [None] + lows
    trees = []
    for x, y in itertools.product(subs, subs):
        trees.append(([[0, x]] if x is not None else []) + ([[1, y]] if y is not None else []))
    cases = []
    for a in trees:
        for b in trees:
            cases.append({"depth": 2, "items": [
                {"d": 0, "tree": a, "ids": [0, 1], "mode": 1, "shape": [2, 2]},
                {"d": 0, "tree": b, "ids": [0, 1], "mode": 0, "shape": [2, 2]}]})
    return cases


def wf_tree(t, depth):
    """python twin of C12Check.item_wf: uniform depth, strictly increasing coordinates"""
    if depth == 0:
        return isinstance(t, int) and not isinstance(t, bool)
    if not isinstance(t, list):
        return False
    cs = [c for c, _ in t]
    return all(x < y for x, y in zip(cs, cs[1:])) and all(wf_tree(s, depth - 1) for _, s in t)


def wf_case(case):
    return case["depth"] >= 1 and all(
        wf_tree(it["tree"], case["depth"]) and len(it["ids"]) == case["depth"] for it in case["items"])


def streams(tier, rng):
    for name, cases, ex in _streams(tier, rng):
        assert all(wf_case(c) for c in cases), "generator produced an ill-formed case in " + name
        yield name, cases, ex


def _streams(tier, rng):
    n = 500 if tier == "quick" else 8000
    yield ("random", [gen_case(rng) for _ in range(n)], False)
    yield ("exhaustive-depth1-2coords", exhaustive_depth1(2, rng), True)
    if tier == "quick":
        yield ("exhaustive-depth1-3coords-sample", rng.sample(exhaustive_depth1(3, rng), 300), False)
        yield ("exhaustive-depth2-2x2-sample", rng.sample(exhaustive_depth2(rng), 300), False)
    else:
        yield ("exhaustive-depth1-3coords", exhaustive_depth1(3, rng), True)
        yield ("exhaustive-depth2-2x2", exhaustive_depth2(rng), True)


def nontrivial(case):
    return len(case["items"]) >= 2 and any(it["tree"] for it in case["items"])


def describe(case):
    its = case["items"]
    cs = [U.content(it["tree"], it["d"]) for it in its]
    eqp = sum(1 for i in range(len(its)) for j in range(i + 1, len(its)) if cs[i] == cs[j])
    reps = sum(1 for i in range(len(its)) for j in range(i + 1, len(its))
               if cs[i] == cs[j] and its[i]["tree"] != its[j]["tree"])
    return {"depth": case["depth"], "trees": len(its),
            "equal_content_pairs": eqp,
            "equal_content_different_representation_pairs": reps,
            "explicit_default": any(U.has_explicit_default(it["tree"], it["d"]) for it in its),
            "empty_subfiber": any(U.has_empty_sub(it["tree"], it["d"]) for it in its),
            "different_defaults": len({it["d"] for it in its}) > 1,
            "different_rank_ids": len({tuple(it["ids"]) for it in its}) > 1,
            "modes": "".join(str(it["mode"]) for it in its)}


def case_to_coq(c):
    def item(it):
        return "(Build_c12_item %s %s %s %s)" % (
            L.z(it["d"]), L.tree(it["tree"]), L.zlist(it["ids"]), L.zlist([it["mode"]] + it["shape"]))
    return "(Build_c12_case %s %s)" % (L.nat(c["depth"]), L.lst(item(it) for it in c["items"]))


# ------------------------------------------------------------------ implementation side

def build_item(it, depth):
    """-> (fiber under test, tensor with the item's rank ids, owner to keep alive)"""
    names = ["R%d" % k for k in it["ids"]]
    keep = None
    T = U.build_tensor(it["tree"], depth, it["shape"], it["d"], rank_ids=names)
    if it["mode"] == 0:
        F = U.build_fiber(it["tree"], it["d"])
    elif it["mode"] == 1:
        F = T.getRoot()
    else:
        T2 = U.build_tensor([[1, it["tree"]]], depth + 1, [2] + it["shape"], it["d"],
                            rank_ids=["X"] + names)
        F = T2.getRoot().getPayload(1)
        keep = T2              # keep the owning tensor alive
    return F, T, keep


def run_impl(case):
    import copy as _copy
    depth = case["depth"]
    built = [build_item(it, depth) for it in case["items"]]
    items = []
    for F, T, _ in built:
        e = F.isEmpty()
        cnt = F.countValues()
        ne = F.nonEmpty()
        ne_snap = U.snap(ne)
        ne1 = (ne == F)
        ne2 = (F == ne)
        dc = _copy.deepcopy(F)
        dc1 = (dc == F)
        dc2 = (F == dc)
        tcnt = T.countValues()
        tdc = _copy.deepcopy(T)
        tdc1 = (tdc == T)
        tdc2 = (T == tdc)
        items.append([bool(e), int(cnt), ne_snap, bool(ne1), bool(ne2), bool(dc1), bool(dc2), int(tcnt),
                      bool(tdc1), bool(tdc2), U.snap(dc)])
    eqs = [bool(Fi == Fj) for Fi, _, _ in built for Fj, _, _ in built]
    teqs = [bool(Ti == Tj) for _, Ti, _ in built for _, Tj, _ in built]
    for row, (F, _, _) in zip(items, built):
        row.append(U.snap(F))
    return [items, eqs, teqs]


def repro_py(case):
    return ("import sys; sys.path.insert(0,'/verif/harness'); sys.path.insert(0,'/verif/harness/props')\n"
            "import c12\ncase = %r\nobs = c12.run_impl(case)\n"
            "print('per tree [isEmpty,count,nonEmpty,ne==t,t==ne,dc==t,t==dc,Tcount,Tdc==T,T==Tdc,dc,t]:')\n"
            "for r in obs[0]: print('  ', r)\nprint('Fiber ==', obs[1])\nprint('Tensor ==', obs[2])\n" % (case,))


def shrinks(case):
    its = case["items"]
    depth = case["depth"]
    # drop a tree
    if len(its) > 1:
        for i in range(len(its)):
            c = copy.deepcopy(case)
            del c["items"][i]
            yield c
    # simplify representation details
    for i, it in enumerate(its):
        if it["mode"] != 0:
            c = copy.deepcopy(case)
            c["items"][i]["mode"] = 0
            yield c
        if it["ids"] != list(range(depth)):
            c = copy.deepcopy(case)
            c["items"][i]["ids"] = list(range(depth))
            yield c
    # drop one stored element anywhere
    for i, it in enumerate(its):
        def paths(t, k, pre):
            for j, (co, s) in enumerate(t):
                yield pre + (j,)
                if k > 1:
                    yield from paths(s, k - 1, pre + (j,))
        for p in paths(it["tree"], depth, ()):
            c = copy.deepcopy(case)
            cur = c["items"][i]["tree"]
            for j in p[:-1]:
                cur = cur[j][1]
            del cur[p[-1]]
            yield c


def search(disagreeing, rng, rnd):
    out = []
    for c in disagreeing[:10]:
        for _ in range(10):
            out.append(gen_case(rng, depth=c["depth"]))
    out += [gen_case(rng) for _ in range(300 - len(out))]
    return out
