"""C12 — Equality, emptiness and counting depend on content only
(Fiber.__eq__, Tensor.__eq__, Fiber.isEmpty, countValues, nonEmpty, deepcopy)."""
import copy
import itertools
import coqlit as L
import ftutil as U

ID = "C12"
THEOREMS = ["C12_eq", "C12_eq_pointwise", "C12_content_pointwise", "C12_refl", "C12_sym", "C12_trans", "C12_tensor_eq",
            "C12_deepcopy_eq", "C12_isEmpty", "C12_count", "C12_nonEmpty", "C12_canonical_unique", "C12_eq_iff_same_pruned",
            "C12_oracle_meaning", "C12_model_meets_spec"]
COQ_IMPORTS = "From FT Require Import Model.Base Model.Obs Model.C12Eq Model.C12Check."
CHECK_VO = ["Model/C12Check.v"]
CHECKER = "c12_checker"
CASE_TYPE = "c12_case"
SHARD = 60

RULE = ("case = 1-3 fibertrees of one common depth 1-3, each with its own leaf default (0, 3, or the "
        "sentinel -999983 = the implementation is given default=None, 'no empty value', and the trees store "
        "zeros), rank ids, rank shapes (declared, or [] = left to be estimated) and construction history "
        "(0 = unowned fiber, 1 = root of a tensor made by fromFiber, 2 = sub-fiber of a larger tensor, "
        "3 = tensor grown by appending every top-level element (multi-level sub-trees) to an empty tensor, "
        "4 = fromFiber prefix + extend, 5 = zero-length placeholders replaced by item assignment, "
        "6 = the whole tree appended as a sub-tree to the root of a tensor with one more rank); values are "
        "handed over as int / float / int subclass and fibers are optionally built in two stages around a "
        "battery of read-only queries (ftutil representation modes); trees are built as (canonical tree) + (explicit defaults, zero-length sub-fibers, "
        "sub-fibers holding only explicit defaults) so that equal-content pairs are frequent, plus "
        "single-deep-leaf differences, one-sided tails, different defaults and different rank ids; "
        "observation = per tree isEmpty, countValues (fiber and tensor), snapshot of nonEmpty(), "
        "nonEmpty()==t both ways, deepcopy==t both ways (fiber and tensor), snapshots of the copy and of the operand "
        "afterwards; for each of copy(), copy(preserve_owner=False), Tensor.fromFiber(ids, owned root), "
        "root.copy(preserve_owner=False): copy==original both ways and isEmpty / countValues / nonEmpty / "
        "snapshot of the free-standing copy; the full i x j matrices of Fiber == and Tensor ==. distinct = distinct canonical "
        "JSON of the case; non-trivial = at least two trees and at least one stored element")
TRUSTED = ["Coq 8.16.1 kernel (coqc; coqchk in the thorough tier); vm_compute used; native_compute not used",
           "Print Assumptions of every C12 theorem: Closed under the global context (no axioms)",
           "hand-written Gallina model coq/Model/C12Eq.v of Fiber.__eq__/Tensor.__eq__/countValues/nonEmpty/"
           "deepcopy and Base.is_empty of isEmpty, tied to /repo by the differential correspondence check "
           "of this run (sampled + exhaustive small scope)",
           "harness: harness/check.py, harness/props/c12.py, harness/ftutil.py (build_fiber, build_tensor, "
           "snap), CPython 3.12 running the implementation"]
ASSUMPTIONS = ["default None ('no empty value') is modelled by a default that no leaf holds (-999983); the "
               "model never uses the default arithmetically, only compares leaves with it",
               "compressed ranks only (a 'U' rank presents every coordinate to the union iterator; outside "
               "the property's quantifier)",
               "integer leaf values and coordinates (NaN would falsify reflexivity for reasons outside fibertree)",
               "all compared trees have the same depth; coordinates strictly increasing in every fiber"]
EXPLANATION = ("theorems: fiber_eq (two-finger union walk + mask inspection) = true <-> equal content lists "
               "<-> equal value at every point; refl/sym/trans; tensor eq; isEmpty <-> no content; countValues = "
               "|content|; nonEmpty keeps content and is canonical, canonical trees with equal content are "
               "identical; the oracle c12_holds evaluates exactly these statements on the implementation's "
               "outputs; C12_model_meets_spec ties both")

NCOORD = 5
NONE_D = -999983        # sentinel default: the implementation gets default=None (nothing is empty)
GROWN = (3, 4, 5, 6)


# ------------------------------------------------------------------ generators (pure)

def gen_canon(rng, depth, p_absent, vals):
    """canonical tree: no explicit default, no empty sub-fiber (may be [] at the root only)"""
    es = []
    for c in range(NCOORD):
        if rng.random() < p_absent:
            continue
        if depth == 1:
            es.append([c, rng.choice(vals)])
        else:
            s = gen_canon(rng, depth - 1, p_absent, vals)
            if s:
                es.append([c, s])
    return es


def empty_tree(rng, depth, d):
    """an empty fiber of the given depth: zero-length, or holding only explicit defaults /
    empty sub-fibers"""
    if rng.random() < 0.4 or (depth == 1 and d == NONE_D):
        return []
    es = []
    for c in range(NCOORD):
        if rng.random() < 0.6:
            continue
        es.append([c, d if depth == 1 else empty_tree(rng, depth - 1, d)])
    return es


def decorate(rng, t, depth, d, p):
    """same content, different representation: insert explicit defaults / empty sub-fibers at
    absent coordinates"""
    have = {c: s for c, s in t}
    es = []
    for c in range(NCOORD):
        if c in have:
            es.append([c, have[c] if depth == 1 else decorate(rng, have[c], depth - 1, d, p)])
        elif rng.random() < p and not (depth == 1 and d == NONE_D):
            es.append([c, d if depth == 1 else empty_tree(rng, depth - 1, d)])
    return es


def leaves(t, depth, pre=()):
    if depth == 0:
        return [pre]
    out = []
    for c, s in t:
        out += leaves(s, depth - 1, pre + (c,))
    return out


def set_leaf(t, path, v):
    """copy of t with the leaf at path set to v (path must exist)"""
    t = copy.deepcopy(t)
    cur = t
    for k, c in enumerate(path):
        for e in cur:
            if e[0] == c:
                if k == len(path) - 1:
                    e[1] = v
                else:
                    cur = e[1]
                break
    return t


def del_leaf(t, path):
    t = copy.deepcopy(t)
    cur = t
    for k, c in enumerate(path):
        for i, e in enumerate(cur):
            if e[0] == c:
                if k == len(path) - 1:
                    del cur[i]
                else:
                    cur = e[1]
                break
    return t


def add_leaf(t, path, v):
    """copy of t with a leaf inserted at path (creating the fibers on the way)"""
    t = copy.deepcopy(t)
    cur = t
    for k, c in enumerate(path):
        last = k == len(path) - 1
        for e in cur:
            if e[0] == c:
                if last:
                    e[1] = v
                else:
                    cur = e[1]
                break
        else:
            new = [c, v if last else []]
            cur.append(new)
            cur.sort(key=lambda e: e[0])
            if not last:
                cur = new[1]
    return t


def perturb(rng, t, depth, d, vals):
    """differ in a single deep leaf: change a value, make it the default, drop it, add one"""
    ls = leaves(t, depth)
    kind = rng.choice(["change", "default", "drop", "add", "add"]) if ls else "add"
    if kind == "add":
        return add_leaf(t, tuple(rng.randrange(NCOORD) for _ in range(depth)), rng.choice(vals))
    p = rng.choice(ls)
    if kind == "change":
        return set_leaf(t, p, rng.choice(vals))
    if kind == "default":
        return set_leaf(t, p, 0 if d == NONE_D else d)
    return del_leaf(t, p)


def max_coords(t, depth):
    m = [0] * depth

    def walk(s, k):
        for c, x in s:
            m[k] = max(m[k], c)
            if k + 1 < depth:
                walk(x, k + 1)
    walk(t, 0)
    return m


def mk_item(rng, tree, depth, d, ids=None, modes=(0, 0, 1, 1, 2, 3, 4, 5, 6)):
    shape = [m + 1 + rng.choice([0, 0, 1, 3]) for m in max_coords(tree, depth)]
    if rng.random() < 0.25:
        shape = []          # not declared: the implementation estimates it
    return {"d": d, "tree": tree, "ids": list(ids if ids is not None else range(depth)),
            "mode": rng.choice(modes), "shape": shape}


def gen_case(rng, depth=None, n=None, d=None, modes=(0, 0, 1, 1, 2, 3, 4, 5, 6)):
    depth = depth or rng.choice([1, 2, 2, 3, 3])
    n = n or rng.choice([2, 3, 3])
    if d is None:
        d = rng.choice([0, 0, 0, 3, NONE_D])
    d2 = d
    if d == NONE_D:
        vals = [0, 0, 0, 1, 2, 5]       # zeros are ordinary values under default None
    else:
        vals = [v for v in range(0, 8) if v not in (0, 3)] if rng.random() < 0.5 else \
            [v for v in range(0, 6) if v != d]
    r = rng.random()
    if r < 0.15 and d != NONE_D:
        d2 = 3 - d          # a second tree with another default (0 <-> 3)
        vals = [v for v in vals if v not in (0, 3)]
    elif r < 0.25:
        d2 = 0 if d == NONE_D else NONE_D      # None against a numeric default
        if rng.random() < 0.5:
            vals = [v for v in vals if v not in (0, 3)] or [1, 2]
    p_absent = rng.choice([0.2, 0.5, 0.5, 0.7, 0.9, 1.0])
    base = gen_canon(rng, depth, p_absent, vals)
    p_dec = rng.choice([0.0, 0.2, 0.5])
    items = []
    cur = base
    for k in range(n):
        dk = d2 if (k == 1 and d2 != d) else d
        r = rng.random()
        if k > 0 and r < 0.4:
            cur = perturb(rng, cur, depth, dk, vals)      # single-leaf difference from the previous
        elif k > 0 and r < 0.5:
            cur = gen_canon(rng, depth, p_absent, vals)   # unrelated
        t = decorate(rng, cur, depth, dk, p_dec) if rng.random() < 0.8 else copy.deepcopy(cur)
        ids = list(range(depth))
        if rng.random() < 0.15:
            ids[rng.randrange(depth)] = 7
        elif depth > 1 and rng.random() < 0.05:
            ids = ids[::-1]
        items.append(mk_item(rng, t, depth, dk, ids, modes))
    return {"depth": depth, "items": items}


def exhaustive_depth1(ncoord, rng, d=0):
    states = [None, 0, 1, 2]
    trees = []
    for combo in itertools.product(states, repeat=ncoord):
        trees.append([[c, v] for c, v in enumerate(combo) if v is not None])
    cases = []
    for a in trees:
        for b in trees:
            cases.append({"depth": 1, "items": [
                {"d": d, "tree": a, "ids": [0], "mode": 0, "shape": [ncoord]},
                {"d": d, "tree": b, "ids": [0], "mode": 1, "shape": [ncoord]}]})
    return cases


def exhaustive_depth2(rng, d=0, modes=(1, 0)):
    """depth 2 over 2x2 coordinates: per upper coordinate absent / zero-length / every lower fiber"""
    lows = [[[c, v] for c, v in enumerate(combo) if v is not None]
            for combo in itertools.product([None, 0, 1], repeat=2)]
    subs = [None] + lows
    trees = []
    for x, y in itertools.product(subs, subs):
        trees.append(([[0, x]] if x is not None else []) + ([[1, y]] if y is not None else []))
    cases = []
    for a in trees:
        for b in trees:
            cases.append({"depth": 2, "items": [
                {"d": d, "tree": a, "ids": [0, 1], "mode": modes[0], "shape": [2, 2]},
                {"d": d, "tree": b, "ids": [0, 1], "mode": modes[1], "shape": [2, 2]}]})
    return cases


def wf_tree(t, depth):
    """python twin of C12Check.item_wf: uniform depth, strictly increasing coordinates"""
    if depth == 0:
        return isinstance(t, int) and not isinstance(t, bool)
    if not isinstance(t, list):
        return False
    cs = [c for c, _ in t]
    return all(x < y for x, y in zip(cs, cs[1:])) and all(wf_tree(s, depth - 1) for _, s in t)


def stores(t, v):
    if isinstance(t, int):
        return t == v
    return any(stores(s, v) for _, s in t)


def wf_case(case):
    return case["depth"] >= 1 and all(
        wf_tree(it["tree"], case["depth"]) and len(it["ids"]) == case["depth"]
        and not stores(it["tree"], NONE_D) for it in case["items"])


def streams(tier, rng):
    for name, cases, ex in _streams(tier, rng):
        assert all(wf_case(c) for c in cases), "generator produced an ill-formed case in " + name
        yield name, cases, ex


def _streams(tier, rng):
    # (streams are evaluated one after the other, shards of one stream in parallel: the quick tier
    # therefore packs its generators into three streams)
    n = 400 if tier == "quick" else 8000
    rnd = [gen_case(rng) for _ in range(n)]
    # construction histories: multi-level sub-trees inserted into owned fibers (>= 3 ranks involved)
    grown = [gen_case(rng, depth=rng.choice([2, 3, 3]), modes=GROWN + (1,)) for _ in range(n // 3)]
    # default None: every stored leaf, also a 0, is a point
    none = [gen_case(rng, d=NONE_D) for _ in range(n // 3)]
    if tier == "quick":
        yield ("random+grown+none-default", rnd + grown + none, False)
        yield ("exhaustive-depth1-2coords(default 0, default None)",
               exhaustive_depth1(2, rng) + exhaustive_depth1(2, rng, NONE_D), True)
        yield ("samples-of-exhaustive(depth1-3coords, depth2-2x2, depth2-2x2-grown)",
               rng.sample(exhaustive_depth1(3, rng), 250) + rng.sample(exhaustive_depth2(rng), 250)
               + rng.sample(exhaustive_depth2(rng, 0, (6, 1)), 150), False)
    else:
        yield ("random", rnd, False)
        yield ("grown", grown, False)
        yield ("none-default", none, False)
        yield ("exhaustive-depth1-2coords", exhaustive_depth1(2, rng), True)
        yield ("exhaustive-depth1-2coords-none-default", exhaustive_depth1(2, rng, NONE_D), True)
        yield ("exhaustive-depth1-3coords", exhaustive_depth1(3, rng), True)
        yield ("exhaustive-depth2-2x2", exhaustive_depth2(rng), True)
        yield ("exhaustive-depth2-2x2-grown", exhaustive_depth2(rng, 0, (6, 1)), True)
        yield ("exhaustive-depth2-2x2-none-default", exhaustive_depth2(rng, NONE_D, (3, 0)), True)


def nontrivial(case):
    return len(case["items"]) >= 2 and any(it["tree"] for it in case["items"])


def describe(case):
    its = case["items"]
    cs = [U.content(it["tree"], it["d"]) for it in its]
    eqp = sum(1 for i in range(len(its)) for j in range(i + 1, len(its)) if cs[i] == cs[j])
    reps = sum(1 for i in range(len(its)) for j in range(i + 1, len(its))
               if cs[i] == cs[j] and its[i]["tree"] != its[j]["tree"])
    return {"depth": case["depth"], "trees": len(its),
            "equal_content_pairs": eqp,
            "equal_content_different_representation_pairs": reps,
            "explicit_default": any(U.has_explicit_default(it["tree"], it["d"]) for it in its),
            "empty_subfiber": any(U.has_empty_sub(it["tree"], it["d"]) for it in its),
            "different_defaults": len({it["d"] for it in its}) > 1,
            "none_default": any(it["d"] == NONE_D for it in its),
            "none_default_stores_zero": any(it["d"] == NONE_D and any(v == 0 for _, v in cs[i])
                                            for i, it in enumerate(its)),
            "grown_history": any(it["mode"] in GROWN for it in its),
            "estimated_shape": any(not it["shape"] for it in its),
            "different_rank_ids": len({tuple(it["ids"]) for it in its}) > 1,
            "modes": "".join(str(it["mode"]) for it in its)}


def case_to_coq(c):
    def item(it):
        return "(Build_c12_item %s %s %s %s)" % (
            L.z(it["d"]), L.tree(it["tree"]), L.zlist(it["ids"]), L.zlist([it["mode"]] + it["shape"]))
    return "(Build_c12_case %s %s)" % (L.nat(c["depth"]), L.lst(item(it) for it in c["items"]))


# ------------------------------------------------------------------ implementation side

def _none_default(f):
    from fibertree import Fiber
    f._setDefault(None)
    for p in f.payloads:
        if isinstance(p, Fiber):
            _none_default(p)


def _payload(s, d):
    return U.dress(s) if isinstance(s, int) else U.build_fiber(s, d)


def _tensor(tree, depth, shape, d, names):
    """fromFiber tensor; d == NONE_D: the tensor's default is replaced by None"""
    T = U.build_tensor(tree, depth, shape or None, d, rank_ids=names)
    if d == NONE_D:
        T.setDefault(None)
    return T


def _empty_tensor(shape, d, names):
    from fibertree import Tensor
    T = Tensor(rank_ids=list(names), shape=(list(shape) if shape else None))
    if d == NONE_D:
        T.setDefault(None)
    elif d != 0:
        T.setDefault(U.dress(d))
    return T


def build_item(it, depth):
    """-> (fiber under test, tensor with the item's rank ids, owner to keep alive)"""
    names = ["R%d" % k for k in it["ids"]]
    tree, d, shape, mode = it["tree"], it["d"], it["shape"], it["mode"]
    keep = None
    if mode == 3 or (mode in (4, 5) and (depth == 1 or not tree)):
        # grown: every top-level element (a leaf or a multi-level sub-tree) appended to an empty tensor
        T = _empty_tensor(shape, d, names)
        for c, s in tree:
            T.getRoot().append(c, _payload(s, d))
            if U.MODE["touch"]:
                U.touch(T.getRoot())
        return T.getRoot(), T, None
    if mode == 4:
        # fromFiber prefix, the rest by extend (extend ignores an operand that isEmpty(): append then)
        k = len(tree) // 2
        T = _tensor(tree[:k], depth, shape, d, names)
        rest = tree[k:]
        if U.is_empty_lit(rest, d):
            for c, s in rest:
                T.getRoot().append(c, _payload(s, d))
        else:
            T.getRoot().extend(U.build_fiber(rest, d))
        return T.getRoot(), T, None
    if mode == 5:
        # zero-length placeholders, then item assignment of the real sub-trees
        T = _tensor([[c, []] for c, _ in tree], depth, shape, d, names)
        for i, (c, s) in enumerate(tree):
            T.getRoot()[i] = U.build_fiber(s, d)
        return T.getRoot(), T, None
    T = _tensor(tree, depth, shape, d, names)
    if mode == 0:
        F = U.build_fiber(tree, d)
        if d == NONE_D:
            _none_default(F)
    elif mode == 1:
        F = T.getRoot()
    elif mode == 2:
        T2 = _tensor([[1, tree]], depth + 1, ([2] + shape) if shape else None, d, ["X"] + names)
        F = T2.getRoot().getPayload(1)
        keep = T2              # keep the owning tensor alive
    else:
        # 6: the whole tree appended as one sub-tree to the root of a tensor with one more rank
        T2 = _empty_tensor(([2] + shape) if shape else None, d, ["X"] + names)
        T2.getRoot().append(1, U.build_fiber(tree, d))
        F = T2.getRoot().getPayload(1)
        keep = T2
    return F, T, keep


def copy_rows(F, T, it):
    """the other public copy forms, each used as a free-standing object:
    [copy==original, original==copy, copy.isEmpty(), copy.countValues(), nonEmpty snapshot, snapshot]"""
    from fibertree import Tensor
    names = ["R%d" % k for k in it["ids"]]
    d = it["d"]
    dflt = None if d == NONE_D else U.dress(d)
    R = T.getRoot()
    # Tensor.setRoot copies a root that already belongs to a tensor
    T2 = Tensor.fromFiber(rank_ids=names, fiber=R, shape=(list(it["shape"]) or None), default=dflt)
    forms = [(F, F.copy()),
             (F, F.copy(preserve_owner=False)),
             (R, T2.getRoot()),
             (R, R.copy(preserve_owner=False))]
    rows = []
    for orig, c in forms:
        rows.append([bool(c == orig), bool(orig == c), bool(c.isEmpty()), int(c.countValues()),
                     U.snap(c.nonEmpty()), U.snap(c)])
    return rows, T2


def run_impl(case):
    import copy as _copy
    depth = case["depth"]
    built = [build_item(it, depth) for it in case["items"]]
    items = []
    cps = []
    keep = []
    for (F, T, _), it in zip(built, case["items"]):
        e = F.isEmpty()
        cnt = F.countValues()
        ne = F.nonEmpty()
        ne_snap = U.snap(ne)
        ne1 = (ne == F)
        ne2 = (F == ne)
        dc = _copy.deepcopy(F)
        dc1 = (dc == F)
        dc2 = (F == dc)
        # the other copy forms; taken before the tensor-level queries and the == matrices, so an
        # original disturbed by being copied shows up there
        rows, t2 = copy_rows(F, T, it)
        cps.append(rows)
        keep.append(t2)
        tcnt = T.countValues()
        tdc = _copy.deepcopy(T)
        tdc1 = (tdc == T)
        tdc2 = (T == tdc)
        items.append([bool(e), int(cnt), ne_snap, bool(ne1), bool(ne2), bool(dc1), bool(dc2), int(tcnt),
                      bool(tdc1), bool(tdc2), U.snap(dc)])
    eqs = [bool(Fi == Fj) for Fi, _, _ in built for Fj, _, _ in built]
    teqs = [bool(Ti == Tj) for _, Ti, _ in built for _, Tj, _ in built]
    for row, (F, _, _) in zip(items, built):
        row.append(U.snap(F))
    return [items, eqs, teqs, cps]


def repro_py(case):
    return ("import sys; sys.path.insert(0,'/verif/harness'); sys.path.insert(0,'/verif/harness/props')\n"
            "import c12\ncase = %r\nobs = c12.run_impl(case)\n"
            "print('per tree [isEmpty,count,nonEmpty,ne==t,t==ne,dc==t,t==dc,Tcount,Tdc==T,T==Tdc,dc,t]:')\n"
            "for r in obs[0]: print('  ', r)\nprint('Fiber ==', obs[1])\nprint('Tensor ==', obs[2])\n"
            "print('copies per tree (copy(), copy(preserve_owner=False), fromFiber(owned root), root.copy(False)) "
            "[c==o,o==c,isEmpty,count,nonEmpty,snapshot]:')\nfor r in obs[3]: print('  ', r)\n" % (case,))


def shrinks(case):
    its = case["items"]
    depth = case["depth"]
    # drop a tree
    if len(its) > 1:
        for i in range(len(its)):
            c = copy.deepcopy(case)
            del c["items"][i]
            yield c
    # simplify representation details
    for i, it in enumerate(its):
        if it["mode"] != 0:
            c = copy.deepcopy(case)
            c["items"][i]["mode"] = 0
            yield c
        if it["ids"] != list(range(depth)):
            c = copy.deepcopy(case)
            c["items"][i]["ids"] = list(range(depth))
            yield c
    # drop one stored element anywhere
    for i, it in enumerate(its):
        def paths(t, k, pre):
            for j, (co, s) in enumerate(t):
                yield pre + (j,)
                if k > 1:
                    yield from paths(s, k - 1, pre + (j,))
        for p in paths(it["tree"], depth, ()):
            c = copy.deepcopy(case)
            cur = c["items"][i]["tree"]
            for j in p[:-1]:
                cur = cur[j][1]
            del cur[p[-1]]
            yield c


def search(disagreeing, rng, rnd):
    out = []
    for c in disagreeing[:10]:
        for _ in range(10):
            out.append(gen_case(rng, depth=c["depth"]))
    out += [gen_case(rng) for _ in range(300 - len(out))]
    return out
