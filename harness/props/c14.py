"""C14 — rank ids, shapes, defaults, formats and active ranges follow the data
(fibertree/core/tensor.py transforms' carry-over blocks, rank.py/fiber.py shape estimation and
owner delegation, iterators.py lazy result attributes)."""
import copy
import coqlit as L
import ftutil as U

ID = "C14"
THEOREMS = ["C14_split_attrs", "C14_swap_attrs", "C14_swizzle_attrs", "C14_flatten_attrs",
            "C14_merge_attrs", "C14_unflatten_attrs", "C14_unflatten_inverse",
            "C14_estimate_in_shape", "C14_build_in_shape", "C14_build_in_active",
            "C14_build_explicit_shape", "C14_adopt", "C14_adopt_active", "C14_active_is_occupancy",
            "C14_lazy_attrs", "C14_lazy_project", "C14_chain_attrs", "C14_model_meets_spec"]
COQ_IMPORTS = "From FT Require Import Model.Base Model.Obs Model.C14Attrs Model.C14Build Model.C14Check."
CHECK_VO = ["Model/C14Check.v"]
CHECKER = "c14_checker"
CASE_TYPE = "c14_case"
SHARD = 150

RULE = ("three case kinds. X: a tensor built with Tensor.fromFiber (2-4 ranks, plain / already split / "
        "already flattened rank ids, explicit or estimated shape, leaf default 0 or not, random per-rank "
        "formats and mutability) and one transform with random parameters (4 split flavours, swizzle, swap, "
        "flatten and merge in 5 coordinate styles, unflatten); observation = rank ids, authoritative shape, "
        "default, formats, mutable of the result. B: a fiber tree (depth 1-3, fibers with or without their own "
        "shape / active range, empty sub-fibers, explicit defaults) joined to a tensor with or without explicit "
        "shape, or a tensor made by fromUncompressed / makePopulated / fromRandom (the fiber tree these must "
        "produce is rendered by the generator: dropped defaults, shape=len per fiber, PRNG draw order); "
        "observation = estimateShape of the root, reported and authoritative shape, per rank id "
        "and default, per owned fiber id, default, coordinates, active range, iterActive and iterOccupancy "
        "coordinates. L: two fibers (unowned, or the root of a 1-rank tensor with explicit / estimated shape) "
        "with ids / own shape / active range and one lazy operator; "
        "observation = id and active range of the result. distinct = distinct canonical JSON; non-trivial = "
        "the data has at least one stored element")
TRUSTED = ["Coq 8.16.1 kernel (coqc; coqchk in the thorough tier); vm_compute used; native_compute not used",
           "Print Assumptions of every C14 theorem: Closed under the global context (no axioms)",
           "hand-written Gallina models coq/Model/C14Attrs.v, C14Build.v of the anchored code, tied to the "
           "implementation by the differential correspondence check of this run",
           "harness: harness/check.py, harness/props/c14.py, CPython 3.12 running the implementation"]
ASSUMPTIONS = ["rank ids of a tensor are distinct; a shape / own shape / active range given by the caller covers "
               "the coordinates it is about (wf_kx, wf_kb: checked by the oracle on every case)",
               "KX cases: the result's attributes do not depend on the data (the model has no tree); the "
               "implementation is run on real data and compared",
               "coordinates inside shape for *transformed* tensors with an authoritative shape is not part of "
               "the observation (needs the data-level transforms of C08/C09)"]
EXPLANATION = ("theorems: each transform's carry-over = firstn/skipn re-arrangement of the operand's attributes; "
               "unflatten inverts flatten; estimated shapes (calc_shape, Rank.append) bound every stored "
               "coordinate; owned fibers' active range covers their coordinates so iterActive = iterOccupancy; "
               "lazy results carry first operand's id and the documented active range")

# T1: "no empty value".  A default that never occurs as a payload behaves, in the model, exactly like
# default=None in the implementation (nothing is ever empty); None is handed over for it and mapped back.
NONE_D = -999983

def _finding_fixed(prefix):
    import json, os
    try:
        kf = json.load(open(os.path.join(os.path.dirname(os.path.dirname(os.path.dirname(os.path.abspath(__file__)))),
                                         "known_findings.json")))
    except Exception:
        return False
    return any(e.get("property") == ID and str(e.get("id", "")).startswith(prefix) and e.get("status") == "fixed"
               for e in kf)


# S51 (proposed_fixes/S51-*.diff): the all-default sub-fibers that updatePayloadsBelow empties keep the
# own shape / active range they were given for the OLD level (e.g. by a split of an uncompressed rank);
# a later tuple/pair flatten over that level then compares them with tuple shapes / ranges and raises
# TypeError (Rank.append max(old, new) on shape-less tensors, _mergeRanksHelper min/max otherwise).
# While the finding is open the chains generator keeps split away from shape-less tensors and from
# "U" ranks; as soon as known_findings.json records a C14 finding S51* as fixed the whole domain
# (and the chain template "S" aimed at it) is generated again,
# so the check reports the defect if it returns.
S51_FIXED = _finding_fixed("S51")

# S58 (proposed_fixes/S58-*.diff): a tuple-style flatten / merge in which a rank other than the LAST of
# the segment is already flattened (tuple coordinates) concatenates coordinates and shape but nests the upper bound into the active
# range (((0,0,0),0) against coordinates (a,b,c,d)): iterActive() of the result raises.  S57 (c38708c)
# repaired only the lower side.  Same gating as S51: excluded from the chains while open, generated as
# soon as known_findings.json records a C14 finding S58* as fixed.
S58_FIXED = _finding_fixed("S58")

NAMES = ["M", "K", "N", "P", "Q", "R", "S", "T", "U", "W", "A", "B", "C", "D"]
STYLES = ["tuple", "pair", "absolute", "relative", "linear"]


# ------------------------------------------------------------------ encodings
def atom_of(s):
    if s == "Unknown":
        return [-1]
    parts = s.split(".")
    return [NAMES.index(parts[0])] + [int(x) for x in parts[1:]]


def enc_rid(r):
    if isinstance(r, str):
        return [0, atom_of(r)]
    return [1, [atom_of(a) for a in r]]


def enc_sh(s):
    if isinstance(s, (tuple, list)):
        return [enc_sh(x) for x in s]
    return int(s)


def coq_atom(s):
    return L.zlist(atom_of(s))


def coq_rid(r):
    if isinstance(r, str):
        return "(RS %s)" % coq_atom(r)
    return "(RL %s)" % L.lst(coq_atom(a) for a in r)


def coq_sh(s):
    if isinstance(s, (tuple, list)):
        return "(ST %s)" % L.lst(coq_sh(x) for x in s)
    return "(SZ %s)" % L.z(s)


def coq_atree(t):
    if isinstance(t, int):
        return "(ALeaf %s)" % L.z(t)
    _, own, act, es = t
    return "(ANode %s %s %s)" % (L.opt(own, L.z), L.opt(act, lambda a: L.tup(L.z(a[0]), L.z(a[1]))),
                                 L.lst(L.tup(L.z(c), coq_atree(s)) for c, s in es))


def coq_raw(r):
    owned = r.get("owned")
    return "(mkR %s %s %s %s %s)" % (coq_atom(r["id"]), L.opt(r["own"], L.z),
                                     L.opt(r["act"], lambda a: L.tup(L.z(a[0]), L.z(a[1]))), L.zlist(r["coords"]),
                                     "None" if owned is None else "(Some %s)" % L.opt(owned["shape"], L.z))


def coq_xform(x):
    if x["op"] == "split":
        return "(XSplit %s)" % L.nat(x["depth"])
    if x["op"] == "swizzle":
        return "(XSwizzle %s)" % L.lst(coq_rid(r) for r in x["ids"])
    if x["op"] == "swap":
        return "(XSwap %s)" % L.nat(x["depth"])
    if x["op"] in ("flatten", "merge"):
        return "(%s %s %s %s)" % ("XFlatten" if x["op"] == "flatten" else "XMerge", L.nat(x["depth"]),
                                  L.nat(x["levels"]), L.z(STYLES.index(x["style"])))
    return "(XUnflatten %s %s)" % (L.nat(x["depth"]), L.nat(x["levels"]))


def coq_tattrs(c):
    return "(mkT %s %s %s %s %s)" % (
        L.lst(coq_rid(r) for r in c["ids"]),
        L.opt(c["shape"] if c["auth"] else None, lambda s: L.lst(coq_sh(x) for x in s)),
        L.z(c["d"]), L.lst(L.b(f) for f in c["fmts"]), L.b(c["mut"]))


def coq_points(pts):
    return L.lst(L.lst(coq_sh(x) for x in pt) for pt in pts)


def case_to_coq(c):
    if c["k"] == "C":
        steps = L.lst("(mkS %s %s %s %s)" % (L.nat(st["src"]), coq_xform(st["x"]), coq_points(st["pts"]),
                                             L.b(st["act"])) for st in c["steps"])
        return "(KC %s %s %s %s)" % (coq_tattrs(c), coq_points(c["pts"]), L.b(c["act"]), steps)
    if c["k"] == "X":
        t = "(mkT %s %s %s %s %s)" % (
            L.lst(coq_rid(r) for r in c["ids"]),
            L.opt(c["shape"] if c["auth"] else None, lambda s: L.lst(coq_sh(x) for x in s)),
            L.z(c["d"]), L.lst(L.b(f) for f in c["fmts"]), L.b(c["mut"]))
        xs = coq_xform(c["x"])
        return "(KX %s %s)" % (t, xs)
    if c["k"] == "B":
        return "(KB %s %s %s %s)" % (L.lst(coq_rid(r) for r in c["ids"]), L.opt(c["shape"], L.zlist),
                                     L.z(c["d"]), coq_atree(c["tree"]))
    op = c["op"]
    if op["o"] == "project":
        ops = "(LProject %s %s %s %s)" % (L.z(op["m"]), L.z(op["k"]),
                                          L.opt(op["interval"], lambda a: L.tup(L.z(a[0]), L.z(a[1]))),
                                          L.opt(op["rank_id"], coq_atom))
    else:
        ops = {"and": "LAnd", "or": "LOr", "xor": "LXor", "sub": "LSub", "pop": "LPop", "prune": "LPrune",
               "intersection": "LIntersection", "union": "LUnion"}[op["o"]]
    return "(KL %s %s %s)" % (ops, coq_raw(c["a"]), coq_raw(c["b"]))


# ------------------------------------------------------------------ generators (pure)
def gen_coord(rng, entry):
    if isinstance(entry, list):
        return tuple(gen_coord(rng, e) for e in entry)
    return rng.randint(0, entry - 1)


def gen_xtree(rng, shapes, d, p_keep):
    """tree literal [[coord, sub]...] whose coordinates follow the (possibly tuple) shape entries"""
    entry = shapes[0]
    cs = set()
    for _ in range(rng.randint(0, 4)):
        cs.add(gen_coord(rng, entry))
    out = []
    for c in sorted(cs):
        if len(shapes) == 1:
            v = rng.randint(1, 9)
            out.append([c, v + 1 if v == d else v])
        else:
            sub = gen_xtree(rng, shapes[1:], d, p_keep)
            if sub:                                      # data-level transforms on trees with empty
                out.append([c, sub])                     # sub-fibers are C09's subject, not ours
    return out


def gen_rank(rng, names):
    """(rank id, shape entry)"""
    r = rng.random()
    if r < 0.78:
        nm = names.pop()
        while rng.random() < 0.2:
            nm += rng.choice([".0", ".1"])
        return nm, rng.randint(2, 5)
    k = rng.choice([2, 2, 3])
    ids = [names.pop() for _ in range(k)]
    dims = [rng.randint(2, 4) for _ in range(k)]
    form = rng.random()
    if form < 0.55:
        return ids, dims                                   # tuple style
    if form < 0.8:
        nested = dims[-2:]
        for v in reversed(dims[:-2]):
            nested = [v, nested]
        return ids, nested                                 # pair style
    p = 1
    for x in dims:
        p *= x
    return ids, p                                          # linear style: int shape


def n_unflat(entry):
    """how many unflatten levels the shape entry supports"""
    if not isinstance(entry, list) or len(entry) < 2:
        return 0
    if len(entry) == 2:
        return 1 + n_unflat(entry[1])
    return len(entry) - 1


def gen_kx(rng, want=None):
    for _ in range(200):
        n = rng.choice([2, 2, 3, 3, 4])
        names = NAMES[:]
        rng.shuffle(names)
        ranks = [gen_rank(rng, names) for _ in range(n)]
        ids = [r[0] for r in ranks]
        shape = [r[1] for r in ranks]
        auth = rng.random() < 0.7
        d = rng.choice([0, 0, 3, -2, NONE_D])
        tree = gen_xtree(rng, shape, d, 0.5)
        ops = []
        plain = [i for i in range(n) if isinstance(ids[i], str) and isinstance(shape[i], int)]
        if plain:
            ops.append("split")
        strs = [isinstance(r, str) for r in ids]
        if all(strs):
            ops.append("swizzle")
        swaps = [i for i in range(n - 1) if strs[i] and strs[i + 1]]
        if swaps:
            ops += ["swap", "flatten", "merge"]
        unf = [i for i in range(n) if isinstance(ids[i], list) and 1 <= n_unflat(shape[i])
               and len(ids[i]) > 1]
        if unf and auth:
            ops += ["unflatten", "unflatten"]
        if not ops:
            continue
        op = want if want in ops else rng.choice(ops)
        x = {"op": op}
        if op == "split":
            x["depth"] = rng.choice(plain)
            x["flavour"] = rng.choice(["uniform", "nonuniform", "equal", "unequal"])
            x["arg"] = rng.randint(1, 3)
        elif op == "swizzle":
            perm = ids[:]
            r = rng.random()
            if r < 0.15:
                pass
            elif r < 0.5 and n >= 3:
                k = rng.randint(2, n - 1)
                head = perm[:k]
                rng.shuffle(head)
                perm = head + perm[k:]
            else:
                rng.shuffle(perm)
            x["ids"] = perm
        elif op == "swap":
            x["depth"] = rng.choice(swaps)
        elif op in ("flatten", "merge"):
            x["depth"] = rng.choice(swaps)
            mx = 1
            while x["depth"] + mx + 1 < n and strs[x["depth"] + mx + 1]:
                mx += 1
            x["levels"] = rng.randint(1, mx)
            seg = list(range(x["depth"], x["depth"] + x["levels"] + 1))
            all_int = all(isinstance(shape[i], int) for i in seg)
            styles = ["tuple", "pair"]
            if all_int:
                if op == "merge" and all(strs):
                    styles += ["absolute", "relative"]
                if auth:
                    styles.append("linear")
            else:
                continue
            x["style"] = rng.choice(styles)
        else:
            x["depth"] = rng.choice(unf)
            mx = min(n_unflat(shape[x["depth"]]), len(ids[x["depth"]]) - 1)
            x["levels"] = rng.randint(1, mx)
        if d == NONE_D and op == "merge":
            # mergeRanks sums payloads (merge_fn = sum), and an uncompressed rank hands it the default for
            # absent coordinates: the default is used arithmetically, so "no empty value" is not offered
            d = 0
            tree = gen_xtree(rng, shape, d, 0.5)
        return {"k": "X", "ids": ids, "shape": shape, "auth": auth, "d": d,
                "fmts": [rng.random() < 0.4 for _ in range(n)], "mut": rng.random() < 0.5,
                "tree": tree, "x": x}
    raise RuntimeError("gen_kx")


# ---- chains of transforms: symbolic state (ids, shape, points) and the reference rendering of what
# each transform does to the stored points (a point = one coordinate per rank; a tensor's tree is
# the trie of its points, no explicit defaults and no empty sub-fibers are generated)
def _lst(x):
    return [_lst(e) for e in x] if isinstance(x, (list, tuple)) else x


def _nest(seg):
    return [seg[0], _nest(seg[1:])] if len(seg) > 2 else list(seg)


def ref_apply(st, x):
    ids, shape, pts = copy.deepcopy(st["ids"]), copy.deepcopy(st["shape"]), st["pts"]
    op = x["op"]
    if op == "split":
        d, step = x["depth"], x["arg"] + 1
        ids[d:d + 1] = [ids[d] + ".1", ids[d] + ".0"]
        shape[d:d + 1] = [shape[d], shape[d]]
        pts = [p[:d] + [p[d] - p[d] % step, p[d]] + p[d + 1:] for p in pts]
    elif op == "swap":
        d = x["depth"]
        for l in [ids, shape]:
            l[d], l[d + 1] = l[d + 1], l[d]
        pts = [p[:d] + [p[d + 1], p[d]] + p[d + 2:] for p in pts]
    elif op == "swizzle":
        g = [ids.index(r) for r in x["ids"]]
        ids, shape = [ids[i] for i in g], [shape[i] for i in g]
        pts = [[p[i] for i in g] for p in pts]
    elif op in ("flatten", "merge"):
        d, l, style = x["depth"], x["levels"], x["style"]
        seg_ids, seg_sh = ids[d:d + l + 1], shape[d:d + l + 1]
        nid = []
        for r in seg_ids:
            nid += r if isinstance(r, list) else [r]
        if style == "tuple":
            nsh = [y for z in seg_sh for y in (z if isinstance(z, list) else [z])]      # S50: concatenated
            f = lambda seg: [y for c in seg for y in (c if isinstance(c, list) else [c])]
        elif style == "pair":
            nsh = _nest(seg_sh)
            f = _nest
        else:
            nsh = 1
            for z in seg_sh:
                nsh *= z

            def f(seg):
                acc = seg[0]
                for z, c in zip(seg_sh[1:], seg[1:]):
                    acc = acc * z + c
                return acc
        ids[d:d + l + 1] = [nid]
        shape[d:d + l + 1] = [nsh]
        pts = [p[:d] + [f(p[d:d + l + 1])] + p[d + l + 1:] for p in pts]
    else:
        d, l = x["depth"], x["levels"]

        def peel(v):
            return v[0], (v[1] if len(v) == 2 else v[1:])
        for j in range(l):
            a, b = peel(ids[d + j])
            ids[d + j:d + j + 1] = [a, b]
            a, b = peel(shape[d + j])
            shape[d + j:d + j + 1] = [a, b]
            npts = []
            for p in pts:
                a, b = peel(p[d + j])
                npts.append(p[:d + j] + [a, b] + p[d + j + 1:])
            pts = npts
    # the fibers' active ranges are observed while they all derive from the declared shape: a split gives
    # its partitions ranges of their own, a linear-style flatten the range (0, inf)
    act = st.get("act", st["auth"]) and op != "split" and not (op in ("flatten", "merge") and x["style"] == "linear")
    return {"ids": ids, "shape": shape, "auth": st["auth"], "act": act, "pts": sorted(_lst(pts), key=_key),
            "splits": st.get("splits", 0) + (1 if op == "split" else 0)}


def _key(p):
    return json_dumps(p)        # any total order: the implementation's order is re-sorted the same way


def chain_ops(st, rng):
    """the transforms applicable to a symbolic tensor"""
    ids, shape, auth = st["ids"], st["shape"], st["auth"]
    n = len(ids)
    plain = [isinstance(ids[i], str) and isinstance(shape[i], int) for i in range(n)]
    out = []
    for i in range(n):
        # a second split of a shape-less tensor is kept out: once every rank has received fibers that carry
        # an own shape (split gives them the operand's ESTIMATED rank shape), _addFiber declares the whole
        # estimated shape authoritative - reported as a suspect, the attribute model has no data
        if plain[i] and (auth or (S51_FIXED and st.get("splits", 0) == 0)):
            # S51 (see S51_FIXED): not on shape-less tensors while the finding is open
            out.append({"op": "split", "depth": i, "flavour": "uniform", "arg": rng.randint(1, 2)})
        if i + 1 < n and plain[i] and plain[i + 1]:
            out.append({"op": "swap", "depth": i})
        if isinstance(ids[i], list) and auth:
            mx = min(n_unflat(shape[i]), len(ids[i]) - 1)
            for l in range(1, mx + 1):
                out.append({"op": "unflatten", "depth": i, "levels": l})
    if all(isinstance(r, str) for r in ids) and n <= 5:
        perm = ids[:]
        rng.shuffle(perm)
        out.append({"op": "swizzle", "ids": perm})
    for d in range(n - 1):
        for l in range(1, n - d):
            seg = range(d, d + l + 1)
            styles = ["pair", "tuple"] if (S58_FIXED or not any(isinstance(shape[i], list) for i in list(seg)[:-1])) \
                else ["pair"]
            if auth and all(isinstance(shape[i], int) for i in seg):
                styles.append("linear")
            for style in styles:
                out.append({"op": rng.choice(["flatten", "merge"]), "depth": d, "levels": l, "style": style})
    return out


def gen_chain(rng, template=None):
    n = rng.choice([4, 4, 5])
    names = NAMES[:]
    rng.shuffle(names)
    ids = names[:n]
    shape = [rng.randint(2, 4) for _ in range(n)]
    auth = rng.random() < 0.8
    d = rng.choice([0, 0, 3])
    pts = set()
    for _ in range(rng.randint(1, 7)):
        pts.add(tuple(rng.randint(0, s - 1) for s in shape))
    pts = sorted(list(p) for p in pts)
    tree = []
    for p in pts:                                          # trie literal [[coord, sub]...]
        cur = tree
        for i, c_ in enumerate(p):
            if i == n - 1:
                v = rng.randint(1, 9)
                cur.append([c_, v + 1 if v == d else v])
            else:
                if not cur or cur[-1][0] != c_:
                    cur.append([c_, []])
                cur = cur[-1][1]
    states = [{"ids": ids, "shape": shape, "auth": auth, "act": auth, "pts": sorted(pts, key=_key)}]
    steps = []

    def add(src, x):
        states.append(ref_apply(states[src], x))
        steps.append({"src": src, "x": x, "pts": states[-1]["pts"], "act": states[-1]["act"]})
    template = template or rng.choice(["A", "A", "B", "B", "R", "R", "F", "F"] + (["S"] if S51_FIXED else []))
    force_u = None
    if template == "A":
        # flatten at depth >= 1 over >= 2 levels, then unflatten in one go and in single steps
        d0 = rng.randint(1, n - 3)
        l = rng.randint(2, n - 1 - d0)
        styles = ["tuple", "pair"] if auth else ["pair"]
        add(0, {"op": rng.choice(["flatten", "merge"]), "depth": d0, "levels": l, "style": rng.choice(styles)})
        if auth:
            add(1, {"op": "unflatten", "depth": d0, "levels": l})
            add(1, {"op": "unflatten", "depth": d0, "levels": 1})
            add(3, {"op": "unflatten", "depth": d0 + 1, "levels": l - 1})
        else:
            add(1, {"op": "swap", "depth": 0}) if d0 >= 2 else add(0, {"op": "swap", "depth": 0})
    elif template == "B":
        # a flatten result is flattened / merged again at the same depth; then the FIRST result is used again
        d0 = rng.randint(0, n - 3)
        st1 = rng.choice(["pair", "tuple", "linear"] if auth else ["pair", "tuple"])
        add(0, {"op": rng.choice(["flatten", "merge"]), "depth": d0, "levels": 1, "style": st1})
        st2 = "linear" if st1 == "linear" else rng.choice(["pair", "tuple", "tuple"] if S58_FIXED else ["pair"])
        lv = rng.randint(1, n - 2 - d0)
        add(1, {"op": rng.choice(["flatten", "merge"]), "depth": d0, "levels": lv, "style": st2})
        if auth and st1 != "linear":
            add(1, {"op": "unflatten", "depth": d0, "levels": 1})
        else:
            add(1, {"op": rng.choice(["flatten", "merge"]), "depth": d0, "levels": 1, "style": st2})
    elif template == "F":
        # one flatten / merge over 1-3 levels at any depth in every style, then one more step on the result
        d0 = rng.randint(0, n - 2)
        l = rng.randint(1, min(3, n - 1 - d0))
        styles = ["tuple", "tuple", "pair", "pair"] + (["linear"] if auth else [])
        add(0, {"op": rng.choice(["flatten", "merge"]), "depth": d0, "levels": l, "style": rng.choice(styles)})
        ops = chain_ops(states[1], rng)
        if ops:
            add(1, rng.choice(ops))
    elif template == "S":
        # S51: an uncompressed rank below the root is split, then its .0 rank is flattened with the next
        # rank (tuple / pair), then the result is flattened again from the top
        d0 = rng.randint(1, n - 2)
        force_u = d0
        add(0, {"op": "split", "depth": d0, "flavour": "uniform", "arg": rng.randint(1, 2)})
        add(1, {"op": rng.choice(["flatten", "merge"]), "depth": d0 + 1, "levels": 1,
                "style": rng.choice(["tuple", "pair"])})
        add(2, {"op": "flatten", "depth": 0, "levels": rng.randint(1, d0 + 1), "style": rng.choice(["pair", "tuple"])})
    else:
        for _ in range(rng.randint(2, 3)):
            src = len(states) - 1 if rng.random() < 0.6 else rng.randrange(len(states))
            ops = chain_ops(states[src], rng)
            if not ops:
                break
            add(src, rng.choice(ops))
    fmts = [rng.random() < 0.3 for _ in range(n)]
    if any(st["x"]["op"] == "split" for st in steps) and not S51_FIXED:
        fmts = [False] * n                                 # S51 (see S51_FIXED)
    if force_u is not None:
        fmts[force_u] = True
    return {"k": "C", "ids": ids, "shape": shape, "auth": auth, "act": auth, "d": d,
            "fmts": fmts, "mut": rng.random() < 0.5,
            "tree": tree, "pts": states[0]["pts"], "steps": steps, "template": template}


def gen_atree(rng, depth, dims, d, own_p, act_p, level_max):
    """["n", own, act, [[c, sub]...]]; own shapes cover the whole level (level_max + 1 .. +3)"""
    cs = sorted(c for c in range(dims[0]) if rng.random() < rng.choice([0.3, 0.6]))
    es = []
    for c in cs:
        if depth == 1:
            es.append([c, (0 if d == NONE_D else d) if rng.random() < 0.15 else rng.randint(1, 9)])
        else:
            es.append([c, gen_atree(rng, depth - 1, dims[1:], d, own_p, act_p, level_max[1:])])
    own = dims[0] + rng.randint(0, 2) if rng.random() < own_p else None
    act = None
    if rng.random() < act_p:
        lo = rng.randint(0, cs[0]) if cs else 0
        hi = (cs[-1] + 1 + rng.randint(0, 2)) if cs else rng.randint(0, 2)
        act = [lo, hi]
    return ["n", own, act, es]


def dense_of(rng, dims, d, p_zero):
    if len(dims) == 1:
        return [(0 if d == NONE_D else d) if rng.random() < p_zero else rng.randint(1, 9) for _ in range(dims[0])]
    return [dense_of(rng, dims[1:], d, p_zero) for _ in range(dims[0])]


def ref_make_fiber(pl, d):
    """reference rendering of Fiber.fromUncompressed: the atree literal it must produce
    (elements equal to the default and sub-lists without any element are dropped; every fiber
    is given shape=len(list))"""
    if isinstance(pl[0], list):
        es = []
        for c, p in enumerate(pl):
            sub = ref_make_fiber(p, d)
            if sub[3]:
                es.append([c, sub])
    else:
        es = [[c, p] for c, p in enumerate(pl) if p != d]
    return ["n", len(pl), None, es]


def ref_random(shape, density, interval, seed, d):
    """reference rendering of the draw order of Fiber.fromRandom (scalar density)"""
    import random as R
    R.seed(seed)

    def go(shape, dens):
        es = []
        for c in range(shape[0]):
            if R.random() < dens[0]:
                if len(shape) == 1:
                    p = R.randint(1, interval)
                    if p == d:
                        continue
                else:
                    p = go(shape[1:], dens[1:])
                    if not p[3] or all(is_empty_a(x, d) for _, x in p[3]):
                        continue
            else:
                if d == 0:
                    continue
                p = 0
            es.append([c, p])
        return ["n", None, None, es]
    return go(shape, (len(shape) - 1) * [1.0] + [density])


def is_empty_a(t, d):
    if isinstance(t, int):
        return t == d
    return all(is_empty_a(x, d) for _, x in t[3])


def gen_kb_ctor(rng):
    depth = rng.choice([1, 2, 2, 3])
    dims = [rng.randint(1, 4) for _ in range(depth)]
    d = rng.choice([0, 0, 3, NONE_D])
    names = NAMES[:]
    rng.shuffle(names)
    ids = names[:depth]
    via = rng.choice(["fromUncompressed", "fromUncompressed", "fromRandom", "makePopulated",
                      "Fiber.fromUncompressed"])
    if via == "Fiber.fromUncompressed":                    # the fibers' own shape=len(list) decide
        dense = dense_of(rng, dims, d, rng.choice([0.0, 0.3, 0.7, 1.0]))
        return {"k": "B", "via": via, "ids": ids, "shape": None, "d": d,
                "tree": ref_make_fiber(dense, d), "dense": dense}
    if via == "fromUncompressed":
        dense = dense_of(rng, dims, d, rng.choice([0.0, 0.3, 0.7, 1.0]))
        given = [x + rng.randint(0, 2) for x in dims] if rng.random() < 0.4 else None
        return {"k": "B", "via": via, "ids": ids, "shape": given or dims, "d": d,
                "tree": ref_make_fiber(dense, d), "dense": dense, "given_shape": given}
    if via == "makePopulated":
        initial = rng.choice([0 if d == NONE_D else d, 1, 2, 7])
        dense = dense_of(rng, dims, initial, 1.0)
        return {"k": "B", "via": via, "ids": ids, "shape": dims, "d": d,
                "tree": ref_make_fiber(dense, d), "initial": initial}
    seed = rng.randint(0, 10 ** 6)
    density = rng.choice([0.2, 0.5, 0.9])
    return {"k": "B", "via": via, "ids": ids, "shape": dims, "d": d,
            "tree": ref_random(dims, density, 6, seed, d), "seed": seed, "density": density}


def gen_kb(rng):
    depth = rng.choice([1, 2, 2, 3])
    dims = [rng.randint(1, 6) for _ in range(depth)]
    d = rng.choice([0, 0, 3, NONE_D])
    names = NAMES[:]
    rng.shuffle(names)
    ids = names[:depth]
    own_p = rng.choice([0.0, 0.0, 0.3, 1.0])
    act_p = rng.choice([0.0, 0.0, 0.3])
    tree = gen_atree(rng, depth, dims, d, own_p, act_p, dims)
    shape = [x + rng.randint(0, 2) for x in dims] if rng.random() < 0.4 else None
    return {"k": "B", "ids": ids, "shape": shape, "d": d, "tree": tree}


def gen_raw(rng, names):
    n = rng.randint(0, 5)
    coords = sorted(rng.sample(range(8), n))
    own = rng.choice([None, None, 8, 10])
    act = None
    if rng.random() < 0.3:
        lo = rng.randint(0, 3)
        act = [lo, lo + rng.randint(1, 8)]
    owned = None
    if rng.random() < 0.45:                                # root of a 1-rank tensor
        owned = {"shape": rng.choice([None, None, 8, 9, 12])}
    return {"id": names.pop(), "own": own, "act": act, "coords": coords, "owned": owned}


def gen_kl(rng):
    names = NAMES[:]
    rng.shuffle(names)
    a = gen_raw(rng, names)
    b = gen_raw(rng, names)
    o = rng.choice(["and", "or", "xor", "sub", "pop", "prune", "intersection", "union",
                    "project", "project", "project"])
    op = {"o": o}
    if o == "project":
        op["m"] = rng.choice([1, 1, 2, -1, -1, -2, 3])
        op["k"] = rng.randint(-3, 12)
        op["interval"] = None if rng.random() < 0.6 else sorted(rng.sample(range(-4, 20), 2))
        op["rank_id"] = None if rng.random() < 0.5 else names.pop()
        if (op["interval"] is None and a["act"] is None and a["own"] is None and not a["coords"]
                and (a["owned"] is None or a["owned"]["shape"] is None)):
            a["own"] = 8                                   # empty active range: outside wf
    return {"k": "L", "op": op, "a": a, "b": b}


def streams(tier, rng):
    mul = 1 if tier == "quick" else 12
    yield ("transform-attrs", [gen_kx(rng) for _ in range(700 * mul)], False)
    yield ("build", [gen_kb(rng) for _ in range(450 * mul)], False)
    yield ("constructors", [gen_kb_ctor(rng) for _ in range(300 * mul)], False)
    yield ("lazy", [gen_kl(rng) for _ in range(350 * mul)], False)
    yield ("chains", [gen_chain(rng) for _ in range(400 * mul)], False)


def nontrivial(c):
    if c["k"] == "C":
        return len(c["steps"]) >= 2
    if c["k"] == "X":
        return bool(c["tree"])
    if c["k"] == "B":
        return bool(c["tree"][3])
    return bool(c["a"]["coords"])


def describe(c):
    if c["k"] == "C":
        return {"kind": "C:" + c["template"], "chain": "-".join(st["x"]["op"] for st in c["steps"]),
                "authoritative": c["auth"], "reuses_operand": len({st["src"] for st in c["steps"]}) < len(c["steps"])}
    if c["k"] == "X":
        x = c["x"]
        return {"kind": "X:" + x["op"] + (":" + x.get("style", "") if "style" in x else ""),
                "authoritative": c["auth"], "nonzero_default": c["d"] != 0,
                "has_flattened_rank": any(isinstance(r, list) for r in c["ids"])}
    if c["k"] == "B":
        return {"kind": "B:" + c.get("via", "fromFiber"), "explicit_shape": c["shape"] is not None,
                "nonzero_default": c["d"] != 0}
    return {"kind": "L:" + c["op"]["o"]}


# ------------------------------------------------------------------ implementation side
def _tup(x):
    return tuple(_tup(e) for e in x) if isinstance(x, list) else x


def _d_in(d):
    """the default as handed to the implementation: None for the sentinel, else dressed (T2)"""
    return None if d == NONE_D else U.dress(d)


def _d_out(x):
    from fibertree import Payload
    v = Payload.get(x)
    return NONE_D if v is None else U.undress(v)


def _mk_fiber(coords, pays, **kw):
    """T3: in touch mode every fiber is built in two stages around a battery of read-only queries
    (all but the last element, U.touch, then the last element by append), so whatever a read
    remembers (active range, maximum coordinate, shape, default) is stale afterwards"""
    from fibertree import Fiber
    staged = U.MODE["touch"] and len(coords) >= 2
    if staged:
        f = Fiber(list(coords[:-1]), list(pays[:-1]), **kw)
    else:
        f = Fiber(list(coords), list(pays), **kw)
    if U.MODE["touch"]:
        U.touch(f)
    if staged:
        f.append(coords[-1], pays[-1])
    return f


def _retouch(T):
    """read -> join: the fibers were read before they joined T; read the finished tensor once more"""
    if not U.MODE["touch"]:
        return
    for rank in T.ranks:
        for f in rank.getFibers():
            U.touch(f)
    for q in (lambda: T.getShape(), lambda: T.getDefault(), lambda: T.countValues()):
        try:
            q()
        except Exception:
            pass


def _replace_default(T, d):
    """T2: a float default that is replaced once after having been read - nothing of the first may survive"""
    if U.MODE["touch"] and U.MODE["vkind"] == "float" and d != NONE_D:
        T.setDefault(float(d) + 0.5)
        for q in (lambda: T.getDefault(), lambda: T.ranks[-1].getDefault(), lambda: T.getRoot().getDefault()):
            try:
                q()
            except Exception:
                pass
        T.setDefault(float(d))


def _build_x(t):
    coords = [_tup(c) for c, _ in t]
    pays = [U.dress(s) if isinstance(s, int) else _build_x(s) for _, s in t]
    return _mk_fiber(coords, pays)


def _build_a(t, d0):
    _, own, act, es = t
    coords = [c for c, _ in es]
    pays = [U.dress(s) if isinstance(s, int) else _build_a(s, d0) for _, s in es]
    kw = {}
    if own is not None:
        kw["shape"] = own
    if act is not None:
        kw["active_range"] = tuple(act)
    if es and isinstance(es[0][1], int) or not es:
        kw["default"] = U.dress(d0)
    return _mk_fiber(coords, pays, **kw)


def _dflt(x):
    from fibertree import Fiber
    if isinstance(x, type) and issubclass(x, Fiber):
        return []
    return [_d_out(x)]


def _attrs(T):
    s = T.getShape(authoritative=True)
    return [[enc_rid(r) for r in T.getRankIds()], [] if s is None else [[enc_sh(x) for x in s]],
            _d_out(T.getDefault()), [T.getFormat(r) == "U" for r in T.getRankIds()], bool(T.isMutable())]


def _dense_in(x):
    return [_dense_in(e) for e in x] if isinstance(x, list) else U.dress(x)


def _content(T):
    """the stored points with a non-default value (one coordinate per level walked), in a canonical
    order; a transform over an uncompressed ("U") rank materialises that rank's default-valued
    positions, which are not content"""
    from fibertree import Fiber
    d = _d_out(T.getDefault())
    out = []

    def walk(f, pre):
        for c_, p in zip(f.coords, f.payloads):
            if isinstance(p, Fiber):
                walk(p, pre + [enc_sh(c_)])
            elif U.undress(p.value) != d:
                out.append(pre + [enc_sh(c_)])
    walk(T.getRoot(), [])
    return sorted(out, key=_key)


def _ranges(T):
    """per rank: the distinct active ranges its fibers report"""
    out = []
    for rank in T.ranks:
        rs = []
        for f in rank.getFibers():
            a = f.getActive()
            e = [enc_sh(a[0]), enc_sh(a[1])]
            if e not in rs:
                rs.append(e)
        out.append(sorted(rs, key=_key))
    return out


def _tree_ok(T, check_iter=True):
    """leaf payloads sit exactly at the last rank, every rank lists exactly the fibers of its level, and
    for every fiber active-range iteration equals occupancy iteration (an exception is a failure)"""
    from fibertree import Fiber
    n = len(T.ranks)
    levels = [[] for _ in range(n + 1)]
    ok = True

    def walk(f, lvl):
        nonlocal ok
        if lvl >= n:
            ok = False
            return
        levels[lvl].append(f)
        for p in f.payloads:
            if isinstance(p, Fiber):
                walk(p, lvl + 1)
            elif lvl != n - 1:
                ok = False
    walk(T.getRoot(), 0)
    for i, rank in enumerate(T.ranks):
        fs = rank.getFibers()
        if len(fs) != len(levels[i]) or any(a is not b for a, b in zip(fs, levels[i])):
            ok = False
        for f in (fs if check_iter else []):
            try:
                if [c_ for c_, _ in f.iterActive()] != [c_ for c_, _ in f.iterOccupancy()]:
                    ok = False
            except Exception:
                ok = False
    return 1 if ok else 0


def make_tensor(c):
    from fibertree import Tensor
    T = Tensor.fromFiber(rank_ids=copy.deepcopy(c["ids"]), fiber=_build_x(c["tree"]),
                         shape=[_tup(s) for s in c["shape"]] if c["auth"] else None, default=_d_in(c["d"]))
    _replace_default(T, c["d"])
    for r, f in zip(c["ids"], c["fmts"]):
        T.setFormat(r, "U" if f else "C")
    T.setMutable(c["mut"])
    _retouch(T)
    return T


def apply_x(T, x):
    op = x["op"]
    if op == "split":
        a = x["arg"]
        if x["flavour"] == "uniform":
            return T.splitUniform(a + 1, depth=x["depth"])
        if x["flavour"] == "nonuniform":
            return T.splitNonUniform([0, a, a + 2], depth=x["depth"])
        if x["flavour"] == "equal":
            return T.splitEqual(a, depth=x["depth"])
        return T.splitUnEqual([a, 1, 5], depth=x["depth"])
    if op == "swizzle":
        return T.swizzleRanks(copy.deepcopy(x["ids"]))
    if op == "swap":
        return T.swapRanks(depth=x["depth"])
    if op == "flatten":
        return T.flattenRanks(depth=x["depth"], levels=x["levels"], coord_style=x["style"])
    if op == "merge":
        return T.mergeRanks(depth=x["depth"], levels=x["levels"], coord_style=x["style"])
    return T.unflattenRanks(depth=x["depth"], levels=x["levels"])


def run_impl(c):
    import warnings
    warnings.simplefilter("ignore")
    from fibertree import Fiber, Tensor
    if c["k"] == "C":
        Ts = [make_tensor(c)]
        for st in c["steps"]:
            Ts.append(apply_x(Ts[st["src"]], st["x"]))
        # everything is observed only now: an operand must still report what it reported before
        acts = [c["act"]] + [st["act"] for st in c["steps"]]
        # the iterActive = iterOccupancy verdict and the ranges are taken where all ranges derive from the
        # declared shape (act); split partitions have ranges of their own (C08's subject; a split of a split
        # partition after a linear flatten was seen with iterActive != iterOccupancy - reported as a suspect)
        return [[_attrs(T), _content(T), _tree_ok(T, a), _ranges(T) if a else []] for T, a in zip(Ts, acts)]
    if c["k"] == "X":
        T = make_tensor(c)
        before = _attrs(T)
        R = apply_x(T, c["x"])
        assert _attrs(T) == before, "operand attributes changed"
        return _attrs(R)
    if c["k"] == "B":
        via = c.get("via", "fromFiber")
        if via == "fromFiber":
            root = _build_a(c["tree"], 5)
            est = root.estimateShape()
            T = Tensor.fromFiber(rank_ids=list(c["ids"]), fiber=root, shape=c["shape"], default=_d_in(c["d"]))
            _replace_default(T, c["d"])
        else:
            if via == "Fiber.fromUncompressed":
                T = Tensor.fromFiber(rank_ids=list(c["ids"]),
                                     fiber=Fiber.fromUncompressed(_dense_in(c["dense"]), default=_d_in(c["d"])),
                                     shape=None, default=_d_in(c["d"]))
            elif via == "fromUncompressed":
                T = Tensor.fromUncompressed(rank_ids=list(c["ids"]), root=_dense_in(c["dense"]),
                                            shape=c["given_shape"], default=_d_in(c["d"]))
            elif via == "makePopulated":
                T = Tensor.makePopulated(list(c["ids"]), list(c["shape"]), initial=U.dress(c["initial"]),
                                         default=_d_in(c["d"]))
                assert T.isMutable()
            else:
                T = Tensor.fromRandom(rank_ids=list(c["ids"]), shape=list(c["shape"]), density=c["density"],
                                      interval=6, seed=c["seed"], default=_d_in(c["d"]))
            est = T.getRoot().estimateShape()
        _retouch(T)
        auth = T.getShape(authoritative=True)
        levels = []
        for rank in T.ranks:
            fos = []
            for f in rank.getFibers():
                fos.append([enc_rid(f.getRankAttrs().getId()), _dflt(f.getDefault()), list(f.coords),
                            list(f.getActive()), [c_ for c_, _ in f.iterActive()],
                            [c_ for c_, _ in f.iterOccupancy()]])
            levels.append([enc_rid(rank.getId()), _dflt(rank.getDefault()), fos])
        return [est, T.getShape(), [] if auth is None else [auth], levels]
    fs = []
    keep = []
    for r in (c["a"], c["b"]):
        kw = {}
        if r["own"] is not None:
            kw["shape"] = r["own"]
        if r["act"] is not None:
            kw["active_range"] = tuple(r["act"])
        f = _mk_fiber(list(r["coords"]), [U.dress(1) for _ in r["coords"]], **kw)
        if r.get("owned") is None:
            f.getRankAttrs().setId(r["id"])
        else:
            # read -> join: the fiber was read (touch mode) before it becomes the root of a tensor
            sh = r["owned"]["shape"]
            T = Tensor.fromFiber(rank_ids=[r["id"]], fiber=f, shape=None if sh is None else [sh])
            keep.append(T)
            _retouch(T)
            f = T.getRoot()
        fs.append(f)
    a, b = fs
    op = c["op"]
    o = op["o"]
    if o == "and":
        res = a & b
    elif o == "or":
        res = a | b
    elif o == "xor":
        res = a ^ b
    elif o == "sub":
        res = a - b
    elif o == "pop":
        res = a << b
    elif o == "prune":
        res = a.prune(lambda i, c_, p: True)
    elif o == "intersection":
        res = Fiber.intersection(a, b)
    elif o == "union":
        res = Fiber.union(a, b)
    else:
        m, k = op["m"], op["k"]
        res = a.project(trans_fn=lambda c_: m * c_ + k,
                        interval=None if op["interval"] is None else tuple(op["interval"]),
                        rank_id=op["rank_id"])
    return [atom_of(res.getRankAttrs().getId()), list(res.getActive())]


def repro_py(c):
    return ("import sys, json; sys.path.insert(0, '/verif/harness'); sys.path.insert(0, '/verif/harness/props')\n"
            "import c14\ncase = json.loads(%r)\nprint(c14.run_impl(case))\n" % json_dumps(c))


def json_dumps(c):
    import json
    return json.dumps(c)


def shrinks(c):
    if c["k"] == "C":
        if len(c["steps"]) > 1:
            used = {st["src"] for st in c["steps"]}
            if len(c["steps"]) not in used:
                n = copy.deepcopy(c)
                n["steps"].pop()
                yield n
        return
    if c["k"] == "X":
        for i in range(len(c["tree"])):
            n = copy.deepcopy(c)
            del n["tree"][i]
            yield n
        if c["d"] != 0:
            n = copy.deepcopy(c)
            n["d"] = 0
            yield n
        if any(c["fmts"]):
            for i in range(len(c["fmts"])):
                if c["fmts"][i]:
                    n = copy.deepcopy(c)
                    n["fmts"][i] = False
                    yield n
    elif c["k"] == "B" and c.get("via", "fromFiber") != "fromFiber":
        return                                             # tree is derived from dense / seed
    elif c["k"] == "B":
        def subs(t):
            for i in range(len(t[3])):
                n = copy.deepcopy(t)
                del n[3][i]
                yield n
            for i, (co, s) in enumerate(t[3]):
                if not isinstance(s, int):
                    for s2 in subs(s):
                        n = copy.deepcopy(t)
                        n[3][i][1] = s2
                        yield n
        for t2 in subs(c["tree"]):
            n = copy.deepcopy(c)
            n["tree"] = t2
            yield n
    else:
        for key in ("a", "b"):
            for i in range(len(c[key]["coords"])):
                n = copy.deepcopy(c)
                del n[key]["coords"][i]
                yield n


def search(disagreeing, rng, rnd):
    kinds = {c["k"] for c in disagreeing} or {"X", "B", "L", "C"}
    out = []
    for _ in range(200):
        if "X" in kinds:
            out.append(gen_kx(rng))
        if "B" in kinds:
            out.append(gen_kb(rng))
            out.append(gen_kb_ctor(rng))
        if "L" in kinds:
            out.append(gen_kl(rng))
        if "C" in kinds:
            out.append(gen_chain(rng))
    return out
