"""C09 — rank transforms move every point to its image and nothing else
(fibertree/core/tensor.py swizzleRanks/swapRanks/flattenRanks/mergeRanks/unflattenRanks,
fibertree/core/fiber.py swapRanks/_mergeRanksHelper/_mergeToFibertree/unflattenRanks/
updatePayloads*)."""
import copy
import itertools
import coqlit as L
import ftutil as U

ID = "C09"
THEOREMS = ["C09_flatten", "C09_flatten_closed_form", "C09_below", "C09_below_perm", "C09_unflatten",
            "C09_unflatten_inverts_point", "C09_flatten_in_unflatten_domain", "C09_unflatten_flatten",
            "C09_swizzle", "C09_swizzle_perm", "C09_swizzle_wf", "C09_swizzle_inv", "C09_rebuild",
            "C09_swap_fiber", "C09_swap", "C09_swap_point_map",
            "C09_flatten_linear", "C09_linear_closed_form", "C09_split_flatten_abs",
            "C09_content_ok_bijective", "C09_model_meets_spec_swizzle",
            "C09_flatten_closed_form_fiber", "C09_flatten_wf", "C09_model_meets_spec_flatten_root", "C09_below_wf", "C09_descents_compose", "C09_unflatten_wf",
            "C09_swap_wf", "C09_swap_post", "C09_unflatten_flatten_fiber", "C09_split_flatten_fiber", "C09_sq_sums", "C09_merge_groups", "C09_merge_to_fibertree", "C09_merge_level",
            "C09_merge_levels", "C09_merge_point_maps", "C09_below_sq", "C09_content_ok_of_sq",
            "C09_oracle_sound_mfn", "C09_merge_functions", "C09_model_meets_spec", "C09_model_meets_spec_non_merge",
            "C09_order", "C09_oracle_sound", "C09_observation_pipeline"]
COQ_IMPORTS = "From FT Require Import Model.Base Model.Obs Model.C09Transform Model.C09Check."
CHECK_VO = ["Model/C09Check.v"]
CHECKER = "c09_checker"
CASE_TYPE = "c09_case"
SHARD = 150

RULE = ("case = (tensor tree of depth 2-4 with int coordinates inside the shape; leaf default 0, 3 or None (sentinel: "
        "nothing is empty, stored zeros are ordinary values); the operand is built along one of four histories - "
        "fromFiber of Fiber objects (shared builder: float / int-subclass values, two-stage builds around a read "
        "battery, late default, re-assigned children), fromUncompressed, a tensor WITHOUT declared shape grown by "
        "getPayloadRef/<<= in two stages with getShape() and the read battery in between (second stage = larger "
        "coordinates), sub-trees appended from slices or deep copies of slices of a donor tensor - followed by real "
        "mutations: getPayloadRef(point) <<= default for every explicit default, clear() of a populated sub-fiber "
        "for every empty sub-fiber; one operation: swizzle(perm), swizzle then inverse, swap(depth), swap twice, "
        "flatten(depth, levels, tuple|pair|linear), merge(depth, levels, absolute|relative, merge_fn sum|max|min; values "
        "of both signs so that max != sum != min), unflatten(flatten), "
        "flatten-absolute(splitUniform(step))); observation = the result's raw coords/payloads tree (tuple "
        "coordinates keep their nesting, leaf boxing checked) and len(Rank.getFibers()) of every rank, or the "
        "exception. distinct = distinct canonical JSON; non-trivial = the operand has at least two stored points")
TRUSTED = ["Coq 8.16.1 kernel (coqc; coqchk in the thorough tier); vm_compute used; native_compute not used",
           "Print Assumptions of every C09 theorem: Closed under the global context (no axioms)",
           "hand-written Gallina model coq/Model/C09Transform.v of the transforms, tied to the repository by "
           "the differential correspondence check of this run (sampled + exhaustive small scope in thorough)",
           "harness: harness/check.py, harness/props/c09.py, CPython 3.12 running the implementation",
           "tuple (a,b,c) and right-nested pair (a,(b,c)) coordinates are both the list [a;b;c] in the model; the "
           "nesting is restored by the observation encoder from the style and compared exactly"]
ASSUMPTIONS = ["operand coordinates are Python ints inside the authoritative shape (tuple coordinates only arise "
               "as outputs of flatten and inputs of unflatten)",
               "mergeRanks is exercised with merge_fn in {default sum, max, min} (callables on the list of colliding leaf payloads) and leaf default 0; C09_model_meets_spec covers merge_fn = sum, max/min are decided by oracle + correspondence",
               "Rank.getFibers() of the operand lists the fibers of its level (C02): the all-empty guards of "
               "Tensor.swapRanks/unflattenRanks are modelled on the tree level"]
EXPLANATION = ("theorems: C09_model_meets_spec - for every well-formed case (all 8 operations, every depth, number of "
               "levels and style; merge_fn = sum) the faithful model's observation satisfies the oracle; merges with max/min are "
               "decided by the executable model + the max/min oracle (C09_oracle_sound_mfn) on every case; clause theorems: swizzle = sort of "
               "the permuted points (+ inverse, + well-formedness), swap = transposition at any depth, flatten tuple/pair/"
               "linear content and order, unflatten inverts flatten, flatten-absolute of split restores, merge absolute/"
               "relative adds colliding points up (grouping loop, _mergeToFibertree union recursion, any levels), the "
               "Below descent keeps content relations and well-formedness; oracle content_ok/out_wf evaluated on the "
               "implementation's result")

STYLES = {"tuple": 0, "pair": 1, "linear": 2, "absolute": 3, "relative": 4}
MFNS = {"sum": 0, "max": 1, "min": 2}        # merge_fn: None (default sum) / lambda ps: max(ps) / lambda ps: min(ps)


# ------------------------------------------------------------------ generator (pure)

def canon_and_muts(rng, t, depth, shapes, d, path=()):
    """from a literal with explicit defaults / empty sub-fibers build (base literal without them,
    mutation list that re-creates them)"""
    base, muts = [], []
    for c, s in t:
        p = path + (c,)
        if depth == 1:
            if s == d:
                v = rng.randint(1, 9)
                if v == d:
                    v += 1
                base.append([c, v])
                muts.append(["zero", list(p)])
            else:
                base.append([c, s])
        else:
            if not s:
                while True:
                    sub = U.gen_fiber(rng, depth - 1, shapes[1:], d, p_absent=0.4, p_zero=0.0, p_emptysub=0.0)
                    if U.content(sub, d):
                        break
                base.append([c, sub])
                muts.append(["clear", list(p)])
            else:
                b2, m2 = canon_and_muts(rng, s, depth - 1, shapes[1:], d, p)
                base.append([c, b2])
                muts += m2
    return base, muts


def gen_op(rng, n, shapes, d, kind=None):
    kinds = ["swizzle", "swizzle", "swizzle_inv", "swap", "swap", "swapswap", "flatten", "flatten", "flatten",
             "merge", "merge", "flatunflat", "flatunflat", "splitflat"]
    kind = kind or rng.choice(kinds)
    if kind == "merge" and d != 0:
        kind = "flatten"
    if kind in ("swizzle", "swizzle_inv"):
        perm = list(range(n))
        rng.shuffle(perm)
        return [kind, perm]
    if kind in ("swap", "swapswap"):
        return [kind, rng.randint(0, n - 2)]
    if kind == "splitflat":
        dep = rng.randint(0, n - 1)
        return [kind, dep, rng.randint(1, shapes[dep] + 1)]
    dep = rng.randint(0, n - 2)
    lev = rng.randint(1, n - 1 - dep)
    if kind == "flatten":
        st = rng.choice(["tuple", "pair", "linear"])
    elif kind == "merge":
        st = rng.choice(["absolute", "relative"])
    else:
        st = rng.choice(["tuple", "pair"])
    if kind == "merge":
        return [kind, dep, lev, st, rng.choice(["sum", "max", "min"])]
    return [kind, dep, lev, st]


def gen_case(rng, depth=None, kind=None):
    n = depth or rng.choice([2, 2, 3, 3, 3, 4])
    shapes = [rng.randint(1, 4 if n > 2 else 5) for _ in range(n)]
    d = rng.choice([0, 0, 0, 0, 3, U.NONE_D])      # NONE_D: the implementation gets default=None (nothing is empty)
    pa = rng.choice([0.0, 0.15, 0.3, 0.45, 0.6, 0.6, 0.95]) if n < 4 else rng.choice([0.3, 0.45, 0.6, 0.7, 0.95])
    vals = (0, 9) if d == U.NONE_D else (-9, 9) if (d == 0 and rng.random() < 0.35) else (1, 9)   # default None: 0 is a value; negatives: max != sum != min
    pz = 0.0 if d == U.NONE_D else None               # None is not a value one stores
    t = U.gen_fiber(rng, n, shapes, d, p_absent=pa, p_zero=pz, vals=vals)
    if U.tree_size(t) > 70:
        t = U.gen_fiber(rng, n, shapes, d, p_absent=0.7, p_zero=pz, vals=vals)
    base, muts = canon_and_muts(rng, t, n, shapes, d)
    x = rng.random()
    build = "unc" if (d == 0 and x < 0.3) else "grow" if x < 0.5 else "graft" if x < 0.7 else "fiber"
    if build == "grow" and d == U.NONE_D:
        build = "fiber"        # getPayloadRef cannot create a payload when there is no default value
    op = gen_op(rng, n, shapes, d, kind)
    case = {"tree": t, "base": base, "muts": muts, "build": build, "d": d, "shape": shapes, "op": op}
    return fit_build(case, rng)


def fit_build(case, rng):
    """history-specific fields; a tensor without a declared shape cannot be flattened with linear
    coordinates (flattenRanks needs the authoritative shape), so that combination gets the tuple style"""
    if case["build"] == "grow":
        npts = len(U.content(case["base"], None))
        case["stage1"] = rng.randint(0, npts)
        if case["op"][0] == "flatten" and case["op"][3] == "linear":
            case["op"] = case["op"][:3] + [rng.choice(["tuple", "pair"])]
    if case["build"] == "graft":
        case["graft"] = rng.choice(["copy", "copy", "slice", "mixed"])
    return case


def streams(tier, rng):
    n = 2400 if tier == "quick" else 30000
    yield ("random", [gen_case(rng) for _ in range(n)], False)
    # every permutation / every (depth, levels, style) on a few trees per depth
    cases = []
    reps = 5 if tier == "quick" else 40
    for depth in (2, 3, 4):
        ops = []
        for perm in itertools.permutations(range(depth)):
            ops.append(["swizzle", list(perm)])
            ops.append(["swizzle_inv", list(perm)])
        for dep in range(depth - 1):
            ops += [["swap", dep], ["swapswap", dep]]
            for lev in range(1, depth - dep):
                ops += [["flatten", dep, lev, s] for s in ("tuple", "pair", "linear")]
                ops += [["merge", dep, lev, s, m] for s in ("absolute", "relative") for m in ("sum", "max", "min")]
                ops += [["flatunflat", dep, lev, s] for s in ("tuple", "pair")]
        for _ in range(reps):
            c0 = gen_case(rng, depth)
            c0["d"] = c0["d"]
            for o in ops:
                if o[0] == "merge" and c0["d"] != 0:
                    continue
                c = copy.deepcopy(c0)
                c["op"] = o
                if c["build"] == "grow" and o[0] == "flatten" and o[3] == "linear":
                    c["build"] = "fiber"
                cases.append(c)
            for dep in range(depth):
                c = copy.deepcopy(c0)
                c["op"] = ["splitflat", dep, rng.randint(1, c0["shape"][dep] + 1)]
                cases.append(c)
    yield ("all-params", cases, False)
    # flattening three levels of a depth-4 tensor that has empty sub-fibers at several levels
    cases = []
    for _ in range(200 if tier == "quick" else 3000):
        shapes = [rng.randint(1, 3) for _ in range(4)]
        d = rng.choice([0, U.NONE_D])          # default None: stored zeros are ordinary values
        t = U.gen_fiber(rng, 4, shapes, d, p_absent=rng.choice([0.0, 0.2, 0.4]),
                        p_zero=0.0 if d == U.NONE_D else rng.choice([0.0, 0.3]),
                        p_emptysub=rng.choice([0.2, 0.4, 0.6]), vals=(0, 1) if d == U.NONE_D else (1, 9))
        base, muts = canon_and_muts(rng, t, 4, shapes, d)
        op = rng.choice([["flatten", 0, 3, "tuple"], ["flatten", 0, 3, "pair"], ["flatunflat", 0, 3, "tuple"],
                         ["flatunflat", 0, 3, "pair"], ["flatten", 0, 3, "linear"]]
                        + ([["merge", 0, 3, "relative", rng.choice(["sum", "max", "min"])]] if d == 0
                           else [["flatten", 1, 2, "tuple"]]))
        cases.append({"tree": t, "base": base, "muts": muts, "build": "fiber", "d": d, "shape": shapes, "op": op})
    yield ("deep-flatten-empties", cases, False)
    # merges with many colliding points: dense trees, few coordinates in the merged ranks, every
    # (depth, levels, style, merge_fn); negative values too, so that max != sum != min
    cases = []
    for _ in range(360 if tier == "quick" else 6000):
        n = rng.choice([2, 3, 3, 4, 4])
        shapes = [rng.randint(2, 3) for _ in range(n)]
        vals = rng.choice([(1, 9), (-9, 9), (-5, -1)])
        t = U.gen_fiber(rng, n, shapes, 0, p_absent=rng.choice([0.0, 0.2, 0.4]), p_zero=rng.choice([0.0, 0.2]),
                        p_emptysub=rng.choice([0.0, 0.2]), vals=vals)
        base, muts = canon_and_muts(rng, t, n, shapes, 0)
        dep = rng.randint(0, n - 2)
        lev = rng.randint(1, n - 1 - dep)
        op = ["merge", dep, lev, rng.choice(["absolute", "relative"]), rng.choice(["sum", "max", "max", "min", "min"])]
        cases.append(fit_build({"tree": t, "base": base, "muts": muts, "build": rng.choice(["fiber", "unc", "grow", "graft"]),
                                "d": 0, "shape": shapes, "op": op}, rng))
    yield ("merge-fn", cases, False)
    if tier == "thorough":
        # exhaustive small scope: depth 2, shape 2x2, per coordinate absent/default/value (leaf)
        # and absent/empty/populated (interior), x every operation
        cases = []
        leafs = [[], [[0, 0]], [[0, 1]], [[1, 2]], [[0, 0], [1, 3]], [[0, 4], [1, 5]], [[0, 6], [1, 0]]]
        subs = [None] + leafs
        ops = [["swizzle", [1, 0]], ["swizzle_inv", [1, 0]], ["swap", 0], ["swapswap", 0],
               ["flatten", 0, 1, "tuple"], ["flatten", 0, 1, "pair"], ["flatten", 0, 1, "linear"],
               ["merge", 0, 1, "absolute", "sum"], ["merge", 0, 1, "relative", "sum"], ["merge", 0, 1, "absolute", "max"],
               ["merge", 0, 1, "relative", "min"], ["flatunflat", 0, 1, "tuple"],
               ["splitflat", 0, 1], ["splitflat", 1, 2], ["splitflat", 0, 2]]
        for a, b_ in itertools.product(subs, subs):
            t = ([[0, a]] if a is not None else []) + ([[1, b_]] if b_ is not None else [])
            base, muts = canon_and_muts(rng, t, 2, [2, 2], 0)
            for o in ops:
                cases.append({"tree": t, "base": base, "muts": muts, "build": "fiber", "d": 0,
                              "shape": [2, 2], "op": o})
        yield ("exhaustive-2x2", cases, True)


def nontrivial(case):
    return len(U.content(case["tree"], case["d"])) >= 2


def describe(case):
    return {"depth": len(case["shape"]), "op": case["op"][0],
            "style": case["op"][3] if len(case["op"]) > 3 else "-",
            "merge_fn": case["op"][4] if case["op"][0] == "merge" else "-",
            "explicit_default": U.has_explicit_default(case["tree"], case["d"]),
            "empty_subfiber": U.has_empty_sub(case["tree"], case["d"]),
            "empty_tensor": not U.content(case["tree"], case["d"]),
            "build": case["build"]}


def op_to_coq(o):
    k = o[0]
    if k == "swizzle":
        return "(OSwizzle %s)" % L.lst(L.nat(i) for i in o[1])
    if k == "swizzle_inv":
        return "(OSwizzleInv %s)" % L.lst(L.nat(i) for i in o[1])
    if k == "swap":
        return "(OSwap %s)" % L.nat(o[1])
    if k == "swapswap":
        return "(OSwapSwap %s)" % L.nat(o[1])
    if k == "splitflat":
        return "(OSplitFlat %s %s)" % (L.nat(o[1]), L.z(o[2]))
    if k == "merge":
        return "(OMerge %s %s %s %s)" % (L.nat(o[1]), L.nat(o[2]), L.z(STYLES[o[3]]), L.z(MFNS[o[4]]))
    ctor = {"flatten": "OFlatten", "flatunflat": "OFlatUnflat"}[k]
    return "(%s %s %s %s)" % (ctor, L.nat(o[1]), L.nat(o[2]), L.z(STYLES[o[3]]))


def case_to_coq(c):
    return "(Build_c09_case %s %s %s %s)" % (L.tree(c["tree"]), L.z(c["d"]), L.zlist(c["shape"]),
                                             op_to_coq(c["op"]))


# ------------------------------------------------------------------ implementation side

def _coord(c):
    if isinstance(c, tuple):
        return [_coord(x) for x in c]
    return int(c)


def snap(f):
    """raw coords/payloads tree; tuple coordinates keep their nesting; a leaf that is not a singly
    boxed int is reported as [-2, boxing depth] (which no model observation contains)"""
    from fibertree import Fiber, Payload
    out = []
    for c, p in zip(f.coords, f.payloads):
        if isinstance(p, Fiber):
            out.append([_coord(c), snap(p)])
        else:
            k = 0
            while isinstance(p, Payload):
                p = p.value
                k += 1
            p = U.undress(p)
            if k != 1 or not isinstance(p, int):
                out.append([_coord(c), [-2, k]])
            else:
                out.append([_coord(c), p])
    return out


def dense(t, depth, shapes):
    if depth == 0:
        return t
    m = {c: s for c, s in t}
    if depth == 1:
        return [U.dress(m[i]) if i in m else 0 for i in range(shapes[0])]
    return [dense(m.get(i, []), depth - 1, shapes[1:]) for i in range(shapes[0])]


def _points(t, prefix=()):
    out = []
    for c, s in t:
        if isinstance(s, int):
            out.append((prefix + (c,), s))
        else:
            out += _points(s, prefix + (c,))
    return out


def build(case):
    """the operand: a canonical tensor built along one of four histories, then the real mutations that
    leave explicit defaults and empty sub-fibers behind.
      fiber  Tensor.fromFiber of Fiber objects (shared builder, representation modes)
      unc    Tensor.fromUncompressed
      grow   a tensor WITHOUT a declared shape grown by point insertion (getPayloadRef / <<=) in two
             stages with read-only queries (getShape ...) in between; the second stage stores the points
             with the larger coordinates, i.e. beyond the extent seen at the read
      graft  the sub-trees under the root are put in place with Fiber.append of fibers that already
             belong to another tensor (slices of a donor tensor, or deep copies of them)"""
    import copy
    from fibertree import Tensor
    n = len(case["shape"])
    ids = U.RANK_NAMES[:n]
    d = case["d"]
    kind = case["build"]
    if kind == "unc":
        T = Tensor.fromUncompressed(ids, dense(case["base"], n, case["shape"]), shape=list(case["shape"]))
    elif kind == "grow":
        T = Tensor(rank_ids=ids)
        if d != 0:
            T.setDefault(U.dress(d))
        pts = sorted(_points(case["base"]), key=lambda pv: (max(pv[0]), pv[0]))
        k = case.get("stage1", len(pts) // 2)
        for i, (cs, v) in enumerate(pts):
            if i == k:
                T.getShape()
                U.touch(T.getRoot())
                for r in T.ranks:
                    for f in r.getFibers():
                        U.touch(f)
                T.getShape()
            ref = T.getRoot().getPayloadRef(*cs)
            ref <<= U.dress(v)
        if k >= len(pts):
            T.getShape()
    elif kind == "graft":
        A = U.build_tensor(case["base"], n, case["shape"], d)
        T = Tensor(rank_ids=ids, shape=list(case["shape"]))
        if d != 0:
            T.setDefault(U.dress(d))
        root = T.getRoot()
        for i, (c, _) in enumerate(case["base"]):
            sub = A.getRoot().getPayload(c)
            how = case.get("graft", "copy")
            if how == "copy" or (how == "mixed" and i % 2 == 0):
                sub = copy.deepcopy(sub)
            root.append(c, sub)
    else:
        T = U.build_tensor(case["base"], n, case["shape"], d)
    for kind, p in case["muts"]:
        if kind == "zero":
            ref = T.getPayloadRef(*p)
            ref <<= U.dress(d)
        else:
            T.getPayload(*p).clear()
    return T


def apply_op(T, o):
    n = len(T.getRankIds())
    ids = T.getRankIds()
    k = o[0]
    if k == "swizzle":
        return T.swizzleRanks([ids[i] for i in o[1]])
    if k == "swizzle_inv":
        R = T.swizzleRanks([ids[i] for i in o[1]])
        return R.swizzleRanks(list(ids))
    if k == "swap":
        return T.swapRanks(o[1])
    if k == "swapswap":
        return T.swapRanks(o[1]).swapRanks(o[1])
    if k == "flatten":
        return T.flattenRanks(depth=o[1], levels=o[2], coord_style=o[3])
    if k == "merge":
        fn = {"sum": None, "max": (lambda ps: max(ps)), "min": (lambda ps: min(ps))}[o[4]]
        return T.mergeRanks(depth=o[1], levels=o[2], coord_style=o[3], merge_fn=fn)
    if k == "flatunflat":
        return T.flattenRanks(depth=o[1], levels=o[2], coord_style=o[3]).unflattenRanks(depth=o[1], levels=o[2])
    if k == "splitflat":
        return T.splitUniform(o[2], depth=o[1]).flattenRanks(depth=o[1], levels=1, coord_style="absolute")
    raise ValueError(k)


def run_impl(case):
    U.MODE["none_default"] = case["d"] == U.NONE_D
    T = build(case)
    before = snap(T.getRoot())
    if before != case["tree"]:
        return [-1, 98]                      # the mutation sequence did not produce the stated operand
    try:
        R = apply_op(T, case["op"])
    except Exception:
        return [-1, 3]
    if snap(T.getRoot()) != before:
        return [-1, 96]                      # operand changed (C10's business, but never expected)
    return [snap(R.getRoot()), [len(r.getFibers()) for r in R.ranks]]


def repro_py(case):
    return ("import sys; sys.path.insert(0,'/verif/harness'); sys.path.insert(0,'/verif/harness/props')\n"
            "import c09\ncase = %r\nT = c09.build(case)\nprint('operand', c09.snap(T.getRoot()))\n"
            "R = c09.apply_op(T, case['op'])\nprint('result ', c09.snap(R.getRoot()), "
            "[len(r.getFibers()) for r in R.ranks])\n" % (case,))


def _rebase(c, rng=None):
    import random
    rng = rng or random.Random(1)
    n = len(c["shape"])
    c["base"], c["muts"] = canon_and_muts(rng, c["tree"], n, c["shape"], c["d"])
    if c.get("build") not in ("grow", "graft"):
        c["build"] = "fiber"
    if c["build"] == "grow":
        c["stage1"] = len(U.content(c["base"], None)) // 2
    return c


def shrinks(case):
    t = case["tree"]

    def paths(t, depth, pre=()):
        for i, (c, s) in enumerate(t):
            yield pre + (i,)
            if depth > 1:
                yield from paths(s, depth - 1, pre + (i,))
    n = len(case["shape"])
    for p in paths(t, n):
        c = copy.deepcopy(case)
        node = c["tree"]
        for i in p[:-1]:
            node = node[i][1]
        del node[p[-1]]
        yield _rebase(c)


def search(disagreeing, rng, rnd):
    out = []
    for c in disagreeing[:10]:
        for _ in range(20):
            out.append(gen_case(rng, depth=len(c["shape"]), kind=c["op"][0]))
    out += [gen_case(rng) for _ in range(200)]
    return out
