"""C01 on unowned fibertrees (plain nested Fibers): getPayloadRef with insertion
(coq/Model/StoreUnownedCheck.v).  Known finding S21 lives here (region 21)."""
import coqlit as L
import ftutil as U

ID = "C01"
MODNAME = "c01_unowned"
THEOREMS = []
COQ_IMPORTS = "From FT Require Import Model.Base Model.Obs Model.Store Model.StoreCheck Model.StoreUnownedCheck."
CHECK_VO = ["Model/StoreUnownedCheck.v"]
CHECKER = "un_checker"
CASE_TYPE = "un_case"
SHARD = 200

WITNESS = {"n": 3, "tree": [[0, [[1, [[3, 7]]]]], [2, []]], "pt": [2, 1, 4]}


def gen_case(rng):
    n = rng.choice([1, 2, 2, 3, 3])
    shapes = [rng.randint(2, 6) for _ in range(n)]
    tree = U.gen_fiber(rng, n, shapes, 0)
    if rng.random() < 0.6:
        # mostly trees without empty fibers above the last interior level (region 0)
        tree = strip_high_empty(tree, n, 0)
    pt = [rng.randint(0, 6) for _ in range(n)]
    if tree and rng.random() < 0.5:       # walk along an existing path for a while
        t = tree
        for k in range(n):
            if not t or isinstance(t, int):
                break
            c, sub = rng.choice(t)
            pt[k] = c
            t = sub
            if rng.random() < 0.3:
                break
    return {"n": n, "tree": tree, "pt": pt}


def strip_high_empty(t, n, lvl):
    out = []
    for c, s in t:
        if isinstance(s, int):
            out.append([c, s])
        else:
            if not s and lvl + 2 < n + 0 and lvl + 1 < n - 1 + 1 and (lvl + 2) < n:
                continue
            out.append([c, strip_high_empty(s, n, lvl + 1)])
    return out


def streams(tier, rng):
    k = 200 if tier == "quick" else 4000
    yield ("unowned-witness-S21", [WITNESS], False)
    yield ("unowned-getPayloadRef", [gen_case(rng) for _ in range(k)], False)


def nontrivial(case):
    return bool(case["tree"])


def describe(case):
    return {"unowned_depth": case["n"]}


def case_to_coq(c):
    return "(Build_un_case %s %s %s)" % (L.nat(c["n"]), L.tree(c["tree"]), L.zlist(c["pt"]))


def run_impl(case):
    from fibertree.core.fiber import CoordinateError
    f = U.build_fiber(case["tree"], 0)
    rej = 0
    try:
        f.getPayloadRef(*case["pt"])
    except (AssertionError, CoordinateError, IndexError, TypeError, AttributeError):
        rej = 1
    return [U.snap(f), rej]
