"""C19 — intersection and merge cost models count what the hardware idiom would do
(fibertree/model/intersect.py, fibertree/model/compute.py, trace rows of Fiber.__and__ and of
Fiber.intersection(style="leader-follower"))."""
import copy
import itertools
import coqlit as L
import ftutil as U

ID = "C19"
THEOREMS = ["C19_two_finger", "C19_two_finger_empty_first_refuted", "C19_skip_ahead", "C19_leader_follower", "C19_leader_follower_style", "C19_batching",
            "C19_presented_rows", "C19_swaps_tree", "C19_swaps_rounds", "C19_swaps_merge",
            "C19_swaps_values", "C19_merge_unbounded", "C19_swaps_unbounded", "C19_swaps_unbounded_defined",
            "C19_model_meets_spec"]
COQ_IMPORTS = ("From FT Require Import Model.Base Model.Obs Model.C19Intersect Model.C19Compute "
               "Model.C19Check.")
CHECK_VO = ["Model/C19Check.v"]
CHECKER = "c19_checker"
CASE_TYPE = "c19_case"
SHARD = 120

RULE = ("three case kinds. L: as I but every intersection is Fiber.intersection(a, b, style='leader-follower') "
        "(leader ends last / follower entirely below / empty follower / follower ends last), only the two "
        "leader-follower models fed.  In I and L every outer loop level is declared 'C' or 'U'; a 'U' level "
        "walks every coordinate 0..n-1 of a fiber that stores only some of them (absent and explicit-default "
        "coordinates, declared or estimated shape), operands and outer fibers built through ftutil "
        "(value kinds, staged construction with read-only queries in between).  "
        "I: a loop nest of depth 0-2 over 1-6 consecutive two-operand intersections "
        "(operands with 0-8 coordinates: empty, disjoint, interleaved, identical, one-sided tails, "
        "explicit-default elements) run under Metrics with intersect_0/1 traced, the traces consumed and "
        "fed to TwoFinger/SkipAhead/LeaderFollower(a)/LeaderFollower(b) models under five schedules "
        "(fiber by fiber, one shot, one random batching, two with EMPTY batches at the start / in the middle / "
        "at the end; the two-finger object is fed from the first non-empty batch on); observation = header length, every trace row "
        "of both sides, getNumIntersects() of every model after every call.  S: Compute.numSwaps on a "
        "tensor of depth 2-3 and on a copy with other payload values, radix 2..5/inf, latency 1..3/'N'; "
        "observation = both totals.  distinct = distinct canonical JSON; non-trivial = some intersection "
        "has two non-empty operands / some fiber merges at least two lists")
TRUSTED = ["Coq 8.16.1 kernel (coqc; coqchk in the thorough tier); vm_compute used; native_compute not used",
           "Print Assumptions of every C19 theorem: Closed under the global context (no axioms)",
           "hand-written Gallina models coq/Model/C19Intersect.v (trace emission of Fiber.__and__ under "
           "Metrics, of Fiber.intersection(style='leader-follower'), the three intersect models after the S19 fix: commit) and coq/Model/C19Compute.v "
           "(Compute.numSwaps), tied to the implementation by the differential correspondence check of this run",
           "harness: harness/check.py, harness/props/c19.py, CPython 3.12 running the implementation"]
ASSUMPTIONS = ["operand coordinate lists strictly increasing (Fiber invariant, property C01)",
               "the loop nest visits fibers in lexicographically increasing outer coordinates (a for loop over "
               "a fiber yields increasing coordinates), all at the same depth; traces are consumed only "
               "between whole intersections (any number of times, also before the first one)",
               "the two-finger object is not handed an empty FIRST batch (it raises IndexError there: "
               "C19_two_finger_empty_first_refuted, fix proposed)",
               "swap tensors: leaf default 0, compressed format; radix >= 2 (radix 1 never terminates in the "
               "implementation); intersection operands: default 0, 3 or None (sentinel %d in the model)" % -999983,
               "bisect.bisect_right is modelled by a linear scan (equal on the sorted head list)",
               "swap tensors have exactly depth+2 ranks"]
EXPLANATION = ("theorems: for every loop nest and every batching the fixed two-finger / skip-ahead / "
               "leader-follower models, run on the modelled trace rows, return the merge-step count / runs+matches "
               "/ presented elements of the raw coordinate lists; integer-latency numSwaps = closed form over list and "
               "element counts per merge round (whole tensor); unbounded-latency numSwaps = register-bag reference "
               "(1 + number of greater waiting fronts per entering element); numSwaps independent of payload values; "
               "oracle = those reference quantities evaluated on the implementation's totals")


# ------------------------------------------------------------------ generators
def gen_operand(rng, shape, style):
    n = rng.choice([0, 0, 1, 1, 2, 3, 4, 6, 8])
    n = min(n, shape)
    cs = sorted(rng.sample(range(shape), n))
    pz = style["pz"]
    return [[c, 0 if rng.random() < pz else rng.randint(1, 9)] for c in cs]


def gen_pair(rng, style):
    shape = rng.choice([2, 4, 6, 10])
    a = gen_operand(rng, shape, style)
    k = rng.random()
    if k < 0.12:
        b = copy.deepcopy(a)                                  # identical
    elif k < 0.24 and a:
        m = a[-1][0]
        b = [[m + 1 + i, 1] for i in range(rng.randint(0, 3))]    # disjoint, b beyond a
    elif k < 0.36 and a:
        cut = rng.randint(0, len(a))
        b = [[c, 1] for c, _ in a[:cut]]                      # b = prefix of a: a keeps a tail
    else:
        b = gen_operand(rng, shape, style)
    if rng.random() < 0.5:
        a, b = b, a
    return a, b


def gen_fids(rng, d, fmts=None):
    """outer loop coordinates of the consecutive intersections; a 'U' level is dense from 0"""
    fmts = fmts or ["C"] * d

    def level(l):
        if fmts[l] == "U":
            return list(range(rng.randint(2, 5) if l == d - 1 else rng.randint(1, 3)))
        return sorted(rng.sample(range(7 if d == 1 else 5), rng.randint(1, 5 if d == 1 else 3)))
    if d == 0:
        return [[]]
    if d == 1:
        return [[c] for c in level(0)]
    out = []
    for i in level(0):
        for j in level(1):
            out.append([i, j])
    return out[:6]


def gen_outer(rng, d, fids, fmts):
    """per level: format, and for a 'U' level which coordinates the outer fiber does not store (holes),
    stores with the default payload (zeros), and whether its shape is declared or left to be estimated"""
    outer = []
    for l in range(d):
        if fmts[l] != "U":
            outer.append({"fmt": "C"})
            continue
        prefixes = sorted({tuple(f[:l + 1]) for f in fids})
        ph = rng.choice([0.2, 0.4, 0.6])
        holes, zeros = [], []
        for p in prefixes:
            r = rng.random()
            if r < ph:
                holes.append(list(p))
            elif r < ph + 0.15:
                zeros.append(list(p))
        outer.append({"fmt": "U", "holes": holes, "zeros": zeros, "declare": rng.random() < 0.5})
    return outer


def random_sched(rng, n):
    s = []
    while n > 0:
        k = rng.randint(1, n)
        s.append(k)
        n -= k
    return s


def with_empties(rng, sched):
    """the same batching with empty batches (0) put in: at the start (a flush before the traced rank has ever
    been iterated), in the middle, at the end - each position independently, sometimes twice"""
    out = []
    for i in range(len(sched) + 1):
        p = 0.6 if i in (0, len(sched)) else 0.35
        while rng.random() < p:
            out.append(0)
            p = 0.3
        if i < len(sched):
            out.append(sched[i])
    return out


NONE_D = -999983      # stands for default None ("no empty value"): no payload ever equals it


def fdef(f):
    """default of the two operands of one intersection (4th field, 0 when missing)"""
    return f[3] if len(f) > 3 else 0


def gen_nest(rng, d, pair):
    fmts = [rng.choice(["C", "C", "U"]) for _ in range(d)]
    style = {"pz": rng.choice([0.0, 0.0, 0.1, 0.3])}
    fids = gen_fids(rng, d, fmts)
    fibers = []
    dflt = rng.choice([0, 0, 0, NONE_D, NONE_D, 3])
    if dflt == NONE_D:
        style["pz"] = rng.choice([0.2, 0.4])       # stored zeros are ordinary values there
    for fid in fids:
        a, b = pair(rng, style)
        fibers.append([fid, a, b, dflt])
    n = len(fibers)
    scheds = [[1] * n, [n], random_sched(rng, n)]
    scheds.append(with_empties(rng, rng.choice(scheds)))
    scheds.append([0] + with_empties(rng, random_sched(rng, n)))
    return {"fibers": fibers, "scheds": scheds, "outer": gen_outer(rng, d, fids, fmts)}


def gen_I(rng, d=None):
    d = rng.choice([0, 1, 1, 1, 2, 2]) if d is None else d
    c = gen_nest(rng, d, gen_pair)
    c["kind"] = "I"
    return c


def gen_pair_lf(rng, style):
    """leader a, follower b: the follower may end before the leader does (or be empty, or lie entirely below)"""
    shape = rng.choice([3, 6, 10])
    a = gen_operand(rng, shape, style)
    lo = min([c for c, _ in a] or [0])
    k = rng.random()
    if k < 0.2:
        b = []                                                                 # empty follower
    elif k < 0.4 and lo > 0:
        b = [[c, rng.choice([0, 1, 2])] for c in sorted(rng.sample(range(lo), rng.randint(1, min(3, lo))))]  # entirely below
    elif k < 0.6 and a:
        cut = rng.randint(0, len(a) - 1)
        b = [[c, 1] for c, _ in a[:cut]]                                        # leader ends last
    elif k < 0.7:
        b = copy.deepcopy(a)
    else:
        b = gen_operand(rng, shape + 2, style)
    return a, b


def gen_L(rng, d=None):
    d = rng.choice([0, 1, 1, 1, 2]) if d is None else d
    c = gen_nest(rng, d, gen_pair_lf)
    c["kind"] = "L"
    return c


def revalue(t, rng):
    if isinstance(t, int):
        return 0 if t == 0 else rng.randint(1, 99)
    return [[c, revalue(s, rng)] for c, s in t]


def gen_S(rng):
    depth = rng.choice([0, 0, 0, 1])
    shapes = [rng.randint(1, 4) for _ in range(depth)] + [rng.randint(1, 7), rng.randint(1, 7)]
    t = U.gen_fiber(rng, depth + 2, shapes, 0)
    radix = rng.choice([2, 2, 3, 4, 5, None])
    lat = rng.choice([1, 2, 3, 3, None, None])
    return {"kind": "S", "t": t, "u": revalue(t, rng), "depth": depth, "radix": radix, "lat": lat}


def exhaustive_pairs():
    """every pair of operands over coordinates 0..3, as fiber 1 of a two-fiber nest followed by a fixed
    second intersection, under both extreme schedules"""
    subsets = [[c for c in range(4) if m >> c & 1] for m in range(16)]
    cases = []
    for a, b in itertools.product(subsets, subsets):
        fa = [[c, 1] for c in a]
        fb = [[c, 1] for c in b]
        fibers = [[[1], fa, fb], [[4], [[0, 1], [2, 1]], [[0, 1], [1, 1], [3, 1]]], [[5], fb, fa]]
        cases.append({"kind": "I", "fibers": fibers, "scheds": [[1, 1, 1], [3], [2, 1], [0, 1, 0, 2, 0], [0, 0, 3]]})
        cases.append({"kind": "L", "fibers": fibers, "scheds": [[1, 1, 1], [3], [0, 2, 0, 1, 0]]})
    return cases


def streams(tier, rng):
    n = 330 if tier == "quick" else 6000
    m = 150 if tier == "quick" else 3000
    k = 200 if tier == "quick" else 3000
    yield ("witness-S19", [WITNESS_S19_TAIL, WITNESS_S19_EMPTY], False)
    yield ("witness-swaps", WITNESS_SWAPS, False)
    yield ("witness-wave3", WITNESS_W3, False)
    yield ("witness-wave4", WITNESS_W4, False)
    yield ("intersect", [gen_I(rng) for _ in range(n)], False)
    yield ("leader-follower", [gen_L(rng) for _ in range(k)], False)
    yield ("swaps", [gen_S(rng) for _ in range(m)], False)
    if tier == "thorough":
        yield ("exhaustive-4x4", exhaustive_pairs(), True)


# S19 as found in the unfixed tree: (a) fiber 0 ends on a match while b keeps a tail row -> one shot counts
# 5 comparisons where fiber by fiber counts 4; (b) an empty operand in the first fiber trips the entry assert
WITNESS_S19_TAIL = {"kind": "I", "scheds": [[1, 1], [2]],
                    "fibers": [[[0], [[1, 1], [3, 1]], [[3, 1], [5, 1]]],
                               [[2], [[0, 1], [4, 1]], [[0, 1], [4, 1]]]]}
WITNESS_S19_EMPTY = {"kind": "I", "scheds": [[1, 1], [2]],
                     "fibers": [[[0], [], [[3, 1], [5, 1]]],
                                [[2], [[0, 1], [4, 1]], [[0, 1], [4, 1]]]]}


# wave 3: (A3) leader-follower style with the leader ending last / follower entirely below / empty follower;
# (B3) an uncompressed outer rank with an absent coordinate preceded by another one, traces consumed in one shot
_LF = [([0, 2, 3, 4], [1, 2, 4]), ([0, 2, 3], [1, 2, 4, 9]), ([0, 2, 5, 7], [1, 2, 3]), ([4, 5, 6], [0, 1]), ([1, 2, 3], [])]
# wave 4: a flush at the top of the outer loop body plus one after the loop (empty first batch), a first outer
# iteration that skips the inner loop, empty batches in the middle and at the end
def _w4(kind):
    return {"kind": kind, "scheds": [[0, 1, 1, 1, 0], [0, 0, 3], [1, 0, 0, 2], [3, 0], [1, 1, 1]],
            "fibers": [[[j], [[0, 1], [2, 1], [5, 1], [7, 1]], [[1, 1], [2, 1], [3, 1]]] for j in range(3)]}


WITNESS_W4 = [_w4("I"), _w4("L")]

WITNESS_W3 = [{"kind": "L", "scheds": [[1] * 3, [3]],
               "fibers": [[[j], [[c, 1] for c in a], [[c, 1] for c in b]] for j in range(3)]} for a, b in _LF] + [
    {"kind": "I", "scheds": [[1] * 4, [4]],
     "fibers": [[[j], [[0, 1], [2, 1], [3, 1]], [[1, 1], [2, 1], [4, 1]]] for j in range(4)],
     "outer": [{"fmt": "U", "holes": [[1]], "zeros": [], "declare": False}]},
    {"kind": "I", "scheds": [[1] * 4, [4], [2, 2]],
     "fibers": [[[j], [[0, 1], [2, 1], [3, 1]], [[1, 1], [2, 1], [4, 1]]] for j in range(4)],
     "outer": [{"fmt": "U", "holes": [[3]], "zeros": [[1]], "declare": True}]},
]


# the tensors of test/test_compute.py (hand-computed totals 24, 63, 15) plus a two-round unbounded-latency merge
_T3 = [[0, [[1, 1], [3, 1], [5, 1]]], [1, [[0, 1], [2, 1], [3, 1]]], [2, [[1, 1], [4, 1]]]]
_T3b = [[0, [[1, 1], [3, 1], [5, 1]]], [1, [[1, 1], [2, 1], [3, 1]]], [2, [[0, 1], [4, 1]]]]
WITNESS_SWAPS = [
    {"kind": "S", "t": _T3b[:2], "u": _T3b[:2], "depth": 0, "radix": 100, "lat": 3},
    {"kind": "S", "t": _T3b, "u": _T3b, "depth": 0, "radix": 2, "lat": 3},
    {"kind": "S", "t": _T3, "u": _T3, "depth": 0, "radix": None, "lat": None},
    {"kind": "S", "t": _T3 + [[5, [[2, 7], [3, 0], [9, 2]]]], "u": _T3 + [[5, [[2, 1], [3, 0], [9, 1]]]],
     "depth": 0, "radix": 2, "lat": None},
]


def occ(f, d=0):
    return [c for c, v in f if v != d]


def nontrivial(case):
    if case["kind"] == "I":
        return any(occ(f[1], fdef(f)) and occ(f[2], fdef(f)) for f in case["fibers"])
    if case["kind"] == "L":
        return any(occ(f[1], fdef(f)) for f in case["fibers"])
    def lists(t, depth):
        if depth > 0:
            return max([lists(s, depth - 1) for _, s in t if not U.is_empty_lit(s)] or [0])
        return len([1 for _, s in t if not U.is_empty_lit(s)])
    return lists(case["t"], case["depth"]) >= 2


def sched_desc(case):
    ss = case["scheds"]
    return {"sched_empty_first": any(s and s[0] == 0 for s in ss),
            "sched_empty_middle": any(0 in s[1:-1] and any(x for x in s[:i]) and any(x for x in s[i + 1:])
                                      for s in ss for i in range(1, len(s) - 1) if s[i] == 0),
            "sched_empty_last": any(s and s[-1] == 0 for s in ss)}


def outer_desc(case):
    outer = case.get("outer") or []
    us = [o for o in outer if o["fmt"] == "U"]
    return {"outer_U": bool(us), "outer_U_hole": any(o["holes"] for o in us),
            "outer_U_hole_after_coord": any(h[-1] > 0 for o in us for h in o["holes"] + o["zeros"])}


def describe(case):
    if case["kind"] == "L":
        fs = case["fibers"]
        cls = set()
        for f in fs:
            a, bs = occ(f[1], fdef(f)), [c for c, _ in f[2]]
            if a and not bs:
                cls.add("empty-follower")
            elif a and bs and bs[-1] < a[0]:
                cls.add("follower-below")
            elif a and bs and bs[-1] < a[-1]:
                cls.add("leader-ends-last")
            elif a and bs:
                cls.add("follower-ends-last-or-equal")
        d = {"kind": "L", "nest_depth": len(fs[0][0]), "fibers": len(fs), "operand_default": fdef(fs[0])}
        for k in ("empty-follower", "follower-below", "leader-ends-last", "follower-ends-last-or-equal"):
            d["L_" + k] = k in cls
        d.update(outer_desc(case))
        d.update(sched_desc(case))
        return d
    if case["kind"] == "I":
        fs = case["fibers"]
        ends = set()
        for f in fs:
            a, b = occ(f[1], fdef(f)), occ(f[2], fdef(f))
            if not a or not b:
                ends.add("empty-side")
            elif a[-1] == b[-1]:
                ends.add("match-end")
            else:
                ends.add("tail")
            if a and a == b:
                ends.add("identical")
            if a and b and not set(a) & set(b):
                ends.add("disjoint")
        return {"kind": "I", "nest_depth": len(fs[0][0]), "fibers": len(fs),
                "has_empty_side": "empty-side" in ends, "has_match_end": "match-end" in ends,
                "has_tail": "tail" in ends, "has_identical": "identical" in ends,
                "has_disjoint": "disjoint" in ends,
                "explicit_default": any(v == fdef(f) for f in fs for _, v in f[1] + f[2]),
                "stored_zero_under_None": any(fdef(f) == NONE_D and v == 0 for f in fs for _, v in f[1] + f[2]),
                "operand_default": fdef(fs[0]), **outer_desc(case), **sched_desc(case)}
    return {"kind": "S", "swap_depth": case["depth"], "radix": case["radix"], "latency": case["lat"],
            "explicit_default_S": U.has_explicit_default(case["t"], 0)}


# ------------------------------------------------------------------ Coq literals
def zz(f):
    return L.lst(L.tup(L.z(c), L.z(v)) for c, v in f)


def case_to_coq(c):
    if c["kind"] in ("I", "L"):
        # the outer formats / holes are not part of the Coq case: an uncompressed level walks every coordinate,
        # so the sequence of intersections, their outer coordinates and their stamps are the same
        fs = L.lst("(Build_fpair %s %s %s %s)" % (L.zlist(f[0]), L.z(fdef(f)), zz(f[1]), zz(f[2])) for f in c["fibers"])
        sch = L.lst(L.lst(L.nat(k) for k in s) for s in c["scheds"])
        return "(%s %s %s)" % ("CI" if c["kind"] == "I" else "CL", fs, sch)
    return "(CS %s %s %s %s %s)" % (L.tree(c["t"]), L.tree(c["u"]), L.nat(c["depth"]),
                                    L.opt(c["radix"], L.z), L.opt(c["lat"], L.z))


# ------------------------------------------------------------------ implementation driver
NEST_NAMES = ["I", "J"]


def run_nest(case, sched, models):
    """run the loop nest under Metrics; after the intersections numbered in `sched` consume both traces and
    feed them to `models` (a list of (object, side) with side in {0, 1, 2=both}); returns
    (header length, rows0, rows1, per-model list of getNumIntersects() after every call).
    Every fiber is built before the metrics session starts (ftutil: value kinds, staged construction)."""
    from fibertree import Fiber, Metrics
    fibers = case["fibers"]
    outer = case.get("outer") or []
    style = case["kind"]
    d = len(fibers[0][0])
    order = [tuple(f[0]) for f in fibers]
    pending = list(sched)           # numbers of intersections per batch; 0 = an empty batch
    in_batch = [0]
    counts = [[] for _ in models]   # per model: getNumIntersects() after every call, or [-1, 1] once it raised
    dead = [False] * len(models)
    rows = [[], []]
    done = [0]

    def operand(lit, dflt):
        f = U.build_fiber([[c, v] for c, v in lit], None if dflt == NONE_D else dflt)
        if dflt == NONE_D:
            assert f.getDefault() is None
        f.getRankAttrs().setId("K")
        return f
    table = {tuple(f[0]): (operand(f[1], fdef(f)), operand(f[2], fdef(f))) for f in fibers}

    loops = {}
    for level in range(d):
        o = outer[level] if level < len(outer) else {"fmt": "C"}
        for prefix in sorted({p[:level] for p in order}):
            cs = []
            for p in order:
                if p[:level] == prefix and (not cs or cs[-1] != p[level]):
                    cs.append(p[level])
            if o["fmt"] == "U":
                assert cs == list(range(len(cs)))
                holes = {tuple(h) for h in o["holes"]}
                zeros = {tuple(z) for z in o["zeros"]}
                stored = [c for c in cs if prefix + (c,) not in holes]
                lit = [[c, 0 if prefix + (c,) in zeros else 1] for c in stored]
                if o["declare"] or not stored or stored[-1] != cs[-1]:
                    f = Fiber([c for c, _ in lit], [U.dress(v) for _, v in lit], shape=len(cs))
                    if U.MODE["touch"]:
                        U.touch(f)
                else:
                    f = U.build_fiber(lit)       # shape estimated from the last stored coordinate
                f.getRankAttrs().setFormat("U")
            else:
                f = U.build_fiber([[c, 1] for c in cs])
            f.getRankAttrs().setId(NEST_NAMES[level])
            loops[(level, prefix)] = f

    def feed():
        t0 = Metrics.consumeTrace("K", "intersect_0")
        t1 = Metrics.consumeTrace("K", "intersect_1")
        rows[0] += t0
        rows[1] += t1
        for k, (m, side, from_first_data) in enumerate(models):
            if dead[k] or (from_first_data and done[0] == 0):
                continue
            try:
                if side == 2:
                    m.addTraces(t0, t1)
                else:
                    m.addTraces(t1 if side else t0)
                counts[k].append(m.getNumIntersects())
            except (AssertionError, IndexError, AttributeError, TypeError, KeyError):
                dead[k] = True
                counts[k] = [-1, 1]

    def drain():
        """consume-and-feed for every batch that is complete (a 0 entry is complete at once)"""
        while pending and pending[0] == in_batch[0]:
            feed()
            pending.pop(0)
            in_batch[0] = 0

    def loop(level, prefix):
        if level == d:
            a_k, b_k = table[prefix]
            if style == "L":
                for _ in Fiber.intersection(a_k, b_k, style="leader-follower"):
                    pass
            else:
                for _ in a_k & b_k:
                    pass
            done[0] += 1
            in_batch[0] += 1
            drain()
            return
        for c, _ in loops[(level, prefix)]:
            loop(level + 1, prefix + (c,))

    Metrics.beginCollect()
    try:
        Metrics.trace("K", "intersect_0", consumable=True)
        Metrics.trace("K", "intersect_1", consumable=True)
        drain()                      # leading empty batches: flushes before the traced rank is ever iterated
        loop(0, ())
        assert not pending, "schedule does not add up to the number of intersections"
    finally:
        try:
            Metrics.consumeTrace("K", "intersect_0")
            Metrics.consumeTrace("K", "intersect_1")
        except Exception:
            pass
        Metrics.endCollect()
    hdr = len(rows[0][0])
    assert rows[0][0] == rows[1][0] and not isinstance(rows[0][0][0], int)
    return hdr, rows[0][1:], rows[1][1:], counts


def run_impl(case):
    if case["kind"] in ("I", "L"):
        from fibertree.model import TwoFingerIntersector, SkipAheadIntersector, LeaderFollowerIntersector
        fibers = case["fibers"]
        hdr, r0, r1, _ = run_nest(case, [len(fibers)], [])
        out = []
        for s in case["scheds"]:
            # (object, side, fed only from the first batch that follows an intersection).  The two-finger object
            # is not handed leading empty batches: it raises IndexError on an empty first batch (finding reported
            # with a proposed fix; Coq: C19_two_finger_empty_first_refuted) - every other object gets every batch
            models = [(LeaderFollowerIntersector(), 0, False), (LeaderFollowerIntersector(), 1, False)]
            if case["kind"] == "I":
                models = [(TwoFingerIntersector(), 2, True), (SkipAheadIntersector(), 2, False)] + models
            _, _, _, counts = run_nest(case, s, models)
            out.append(counts)
        return [hdr, r0, r1, out]
    from fibertree.model import Compute
    res = []
    for key in ("t", "u"):
        T = U.build_tensor(case[key], case["depth"] + 2)
        radix = float("inf") if case["radix"] is None else case["radix"]
        lat = "N" if case["lat"] is None else case["lat"]
        try:
            res.append([int(Compute.numSwaps(T, case["depth"], radix, lat))])
        except (AssertionError, IndexError, AttributeError, TypeError, ValueError):
            res.append([])
    return res


def repro_py(case):
    return ("import sys; sys.path.insert(0, '/verif/harness'); sys.path.insert(0, '/verif/harness/props')\n"
            "import c19\ncase = %r\nprint(c19.run_impl(case))\n" % (case,))


def shrinks(case):
    if case["kind"] in ("I", "L"):
        fs = case["fibers"]
        n = len(fs)
        has_u = any(o["fmt"] == "U" for o in case.get("outer") or [])
        if n > 1 and not has_u:
            for i in range(n):
                c = copy.deepcopy(case)
                del c["fibers"][i]
                if len(c["fibers"][0][0]) == 0 and len(c["fibers"]) != 1:
                    continue
                c["scheds"] = [[1] * (n - 1), [n - 1], [0, n - 1], [0] + [1] * (n - 1) + [0]]
                yield c
        for i in range(n):
            for side in (1, 2):
                for j in range(len(fs[i][side])):
                    c = copy.deepcopy(case)
                    del c["fibers"][i][side][j]
                    yield c
        if len(case["scheds"]) > 1:
            for i in range(len(case["scheds"])):
                c = copy.deepcopy(case)
                del c["scheds"][i]
                yield c
        for l, o in enumerate(case.get("outer") or []):
            if o["fmt"] == "U":
                for key in ("holes", "zeros"):
                    for i in range(len(o[key])):
                        c = copy.deepcopy(case)
                        del c["outer"][l][key][i]
                        yield c
    else:
        def drops(t):
            for i in range(len(t)):
                yield t[:i] + t[i + 1:]
            for i, (c, s) in enumerate(t):
                if not isinstance(s, int):
                    for s2 in drops(s):
                        yield t[:i] + [[c, s2]] + t[i + 1:]
        rng = __import__("random").Random(0)
        for t2 in drops(case["t"]):
            c = copy.deepcopy(case)
            c["t"] = t2
            c["u"] = revalue(t2, rng)
            yield c


def search(disagreeing, rng, rnd):
    return [gen_I(rng) for _ in range(150)] + [gen_L(rng) for _ in range(80)] + [gen_S(rng) for _ in range(80)]
