"""C02 over populate loops: the cases, driver and model of C05 (harness/props/c05.py,
coq/Model/C05Populate.v) evaluated with C02's own oracle (coq/Model/StorePopulateCheck.v)."""
from props import c05 as P

ID = "C02"
# the model numbers fiber identities and rank lists in construction (DFS) order: no post-construction
# re-assignment of sub-trees in the shared builder (the histories themselves contain such assignments)
REASSIGN_MODE = False
MODNAME = "c02_pop"
THEOREMS = []
COQ_IMPORTS = P.COQ_IMPORTS + "\nFrom FT Require Import Model.StorePopulateCheck."
CHECK_VO = list(P.CHECK_VO) + ["Model/StorePopulateCheck.v"]
CHECKER = "c02p_checker"
CASE_TYPE = P.CASE_TYPE
SHARD = getattr(P, "SHARD", 250)
case_to_coq = P.case_to_coq
run_impl = P.run_impl
nontrivial = P.nontrivial
if hasattr(P, "describe"):
    describe = P.describe
if hasattr(P, "shrinks"):
    shrinks = P.shrinks
if hasattr(P, "repro_py"):
    repro_py = P.repro_py


def streams(tier, rng):
    for name, cases, exh in P.streams(tier, rng):
        yield ("populate-" + name, cases, exh)
