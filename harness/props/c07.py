"""C07 — every traversal mode enumerates exactly the slice of content it names
(fibertree/core/iterators.py: __iter__, iterOccupancy/Range/Active/Shape/RangeShape(+Ref),
coiter*Shape(+Ref); fibertree/core/fiber.py: project, prune, fromLazy)."""
import copy
import itertools
import coqlit as L
import ftutil as U

ID = "C07"
THEOREMS = ["C07_zrange", "C07_zrange_sorted", "C07_iterRange", "C07_start_pos", "C07_rangeShape",
            "C07_rangeShapeRef", "C07_ref_post", "C07_dispatch", "C07_dispatch_owned", "C07_coiter", "C07_coiterRef",
            "C07_project", "C07_project_compressed", "C07_project_window", "C07_project_sorted", "C07_prune", "C07_lazy_idempotent",
            "C07_fromLazy", "C07_fromLazy_applies", "C07_history", "C07_model_meets_spec"]
COQ_IMPORTS = "From FT Require Import Model.Base Model.Obs Model.C07Iter Model.C07IterCheck."
CHECK_VO = ["Model/C07IterCheck.v"]
CHECKER = "c07_checker"
CASE_TYPE = "c07_case"
SHARD = 120
# representation modes of harness/ftutil.py (wave 3): traversal only delivers payloads, never multiplies
# them, so the opt-in kind "tiny" (v * 2^-40: a non-default value within 1e-9 of the default) is sound
VKINDS = ["int", "int", "float", "sub", "tiny"]

RULE = ("case = (one fiber of depth 1-2 over coordinates -4..8 with absent / explicit-default / value "
        "elements (empty sub-fibers at depth 2), leaf default 0 or 3 (then 0 is a value) or None (sentinel; "
        "nothing is empty, creation-free operations only), values handed over as int / float / int subclass / "
        "tiny float, fibers built in one go or as read-grow histories (U.touch between appends), shape "
        "None/fitting/arbitrary, active range None/arbitrary incl. empty and inverted, format C/U, free-standing or owned as the root of a one-rank tensor whose rank format differs from the fiber's own; up to "
        "two more fibers for co-iteration; 6-10 operations each run on a fresh copy: "
        "iterOccupancy/iterRange/iterActive/__iter__ with every legal start_pos or none, "
        "iterShape/iterActiveShape/iterRangeShape(+Ref) with steps 1-3 and ranges incl. empty, inverted, "
        "beyond shape, coiter*Shape(+Ref) over 1-3 fibers traversed twice, project with k in -3..3 \\ 0, "
        "b in -7..5, optional interval, legal start_pos, traversed twice + fromLazy, iterRange windows over a projection, read / iterRangeShapeRef (growing) / traverse histories, prune with a "
        "predicate on (index, coordinate, payload) traversed twice + fromLazy); observation = yielded "
        "(coordinate, payload value, position of the payload object in the fiber afterwards), stored "
        "elements afterwards, getSavedPos(). distinct = distinct canonical JSON of the case; "
        "non-trivial = the fiber stores at least one element and there is at least one operation")
TRUSTED = ["Coq 8.16.1 kernel (coqc; coqchk in the thorough tier); vm_compute used; native_compute not used",
           "Print Assumptions of every C07 theorem: Closed under the global context (no axioms)",
           "hand-written Gallina model coq/Model/C07Iter.v of iterators.py:16-448 and fiber.py:544-564, "
           "1026-1078, 1179-1341 (with proposed fixes S20 and S23), tied to the working tree by the "
           "differential correspondence check of this run",
           "Python's range(start, end, step) is modelled by zrange (characterised by C07_zrange)",
                      "harness: harness/check.py, harness/props/c07.py, CPython 3.12 running the implementation"]
ASSUMPTIONS = ["free-standing fibers (depth 1-2) or root fibers of one-rank tensors, integer coordinates, strictly ascending stored coordinates (C01)",
               "Metrics collection off",
               "a start_pos is legal iff it is a position of the fiber and every element before it is below "
               "the start of the slice or empty; project additionally asserts coords[start_pos-1] < interval[0]",
               "affine coordinate transforms c -> k*c+b with k != 0; step >= 1"]
EXPLANATION = ("theorems: each traversal of the faithful model = the declarative slice (filter / map over the "
               "range / sorted insertion / retagged filter) for all sorted fibers and parameters; the oracle "
               "c07_spec is that declarative slice evaluated against the implementation's yields")

MAXC = 8
# theme T1: Fiber(default=None) has no empty value - a stored 0 is an ordinary element.  Encoded by a
# sentinel default that never occurs as a payload: the implementation gets None, a None it hands out
# as the stand-in for an absent coordinate is observed as the sentinel.  Only creation-free operations
# are generated for it (getPayloadRef / fromLazy cannot create a None payload: they assert).
NONE_D = -999983
NONE_KINDS = ["occ", "range", "range", "active", "iter", "shape", "ashape", "rshape", "coshape", "coashape",
              "corshape", "window", "window"]
MINC = -4     # stored coordinates range over MINC..MAXC (negative ones are legal: halos, c -> c-k projections)


# ------------------------------------------------------------------ generators (pure)

def gen_leaf_fiber(rng, d, p_absent, p_dflt, lo=0, hi=MAXC):
    es = []
    for c in range(lo, hi + 1):
        r = rng.random()
        if r < p_absent:
            continue
        if rng.random() < p_dflt:
            es.append([c, d])
        else:
            v = rng.choice([0, 1, 2, 5, 7, 9]) if d != 0 else rng.randint(1, 9)
            es.append([c, v])
    return es


def gen_es(rng, d, depth):
    p_absent = rng.choice([0.0, 0.2, 0.5, 0.5, 0.8, 0.95])
    p_dflt = rng.choice([0.0, 0.15, 0.4, 0.4, 1.0])
    n = rng.choice([3, 5, MAXC])
    lo0 = rng.choice([0, 0, MINC, MINC, -2, -1])
    if depth == 1:
        return gen_leaf_fiber(rng, d, p_absent, p_dflt, lo0, n)
    es = []
    for c in range(lo0, n + 1):
        if rng.random() < p_absent:
            continue
        if rng.random() < p_dflt:
            es.append([c, rng.choice([[], [[1, d]], [[0, d], [2, d]]])])
        else:
            es.append([c, gen_leaf_fiber(rng, d, 0.5, 0.2, rng.choice([0, -2]), 3)])
    return es


def legal_sps(es, d, low):
    """positions p such that every element before p is low or empty"""
    out = []
    for p in range(len(es)):
        out.append(p)
        c, t = es[p]
        if not (low(c) or U.is_empty_lit(t, d)):
            break
    return out


def pick_sp(rng, es, d, low, prob=0.6):
    if rng.random() > prob:
        return None
    sps = legal_sps(es, d, low)
    return rng.choice(sps) if sps else None


def grow_es(es, d, cs):
    """the stored elements after getPayloadRef(c) for every c of cs: absent coordinates hold the default"""
    dt = [] if es and not isinstance(es[0][1], int) else d
    have = {c for c, _ in es}
    out = [list(e) for e in es] + [[c, copy.deepcopy(dt)] for c in sorted(set(cs) - have)]
    return sorted(out, key=lambda e: e[0])


def est_shape(es):
    return es[-1][0] + 1 if es else 0


def eff_U(case):
    """the format __iter__ follows: the owner rank's if the fiber is owned, else its own"""
    return case["fmtU"] if case.get("owner") is None else case["owner"]


def active_of(case):
    if case["active"] is not None:
        return case["active"]
    s = case["shape"]
    return [0, s if s else est_shape(case["es"])]


def gen_bound(rng):
    return rng.choice([None, 0, rng.randint(MINC - 1, MAXC + 3), rng.randint(MINC - 1, MAXC + 3)])


def gen_op(rng, case, kind=None):
    es, d = case["es"], case["d"]
    kind = kind or rng.choice(["occ", "range", "range", "active", "shape", "ashape", "rshape", "rshape",
                               "iter", "coshape", "coashape", "corshape", "project", "project",
                               "project", "prune", "prune", "window", "grow", "grow"])
    if kind == "occ":
        return {"op": "occ", "sp": pick_sp(rng, es, d, lambda c: False)}
    if kind == "range":
        lo, hi = gen_bound(rng), gen_bound(rng)
        return {"op": "range", "lo": lo, "hi": hi,
                "sp": pick_sp(rng, es, d, lambda c: lo is not None and c < lo)}
    if kind == "active":
        a0 = active_of(case)[0]
        return {"op": "active", "sp": pick_sp(rng, es, d, lambda c: c < a0)}
    if kind == "iter":
        if eff_U(case):
            return {"op": "iter", "sp": rng.choice([None, 0, 1, 50])}
        return {"op": "iter", "sp": pick_sp(rng, es, d, lambda c: False)}
    if kind in ("shape", "ashape", "coshape", "coashape"):
        return {"op": kind, "ref": rng.random() < 0.5}
    if kind in ("rshape", "corshape"):
        lo = rng.choice([0, rng.randint(MINC - 1, MAXC + 1)])
        hi = rng.choice([lo, lo - 2, rng.randint(MINC - 1, MAXC + 4), rng.randint(lo, MAXC + 4)])
        return {"op": kind, "lo": lo, "hi": hi, "step": rng.choice([1, 1, 2, 3]), "ref": rng.random() < 0.5}
    if kind == "project":
        k = rng.choice([-3, -2, -1, -1, 1, 1, 2, 3])
        b = rng.randint(-7, 5)
        iv = None
        if rng.random() < 0.6:
            imgs = sorted(k * c + b for c in range(MINC, MAXC + 1))
            lo = rng.choice([0, rng.randint(imgs[0] - 2, imgs[-1] + 2)])
            hi = rng.choice([lo, lo - 1, rng.randint(lo, imgs[-1] + 3)])
            iv = [lo, hi]
        sp = None
        if k > 0 and rng.random() < 0.5:
            sps = [p for p in legal_sps(es, d, lambda c: iv is not None and k * c + b < iv[0])
                   if iv is None or p == 0 or es[p - 1][0] < iv[0]]
            sp = rng.choice(sps) if sps else None
        return {"op": "project", "k": k, "b": b, "iv": iv, "sp": sp}
    if kind == "grow":
        # a history: reads, a reference traversal that may grow the fiber (also past its end), then an
        # operation whose slice depends on the content / the active range the fiber has by then
        if case.get("owner") is not None or d == NONE_D:
            kind = rng.choice(["active", "ashape", "iter"])
            return gen_op(rng, case, kind)
        top = (es[-1][0] if es else 0)
        lo = rng.choice([0, top, top + 1, rng.randint(MINC - 1, MAXC + 1)])
        hi = rng.choice([top + 1 + rng.randint(0, 4), rng.randint(lo, max(lo, MAXC + 5)), lo + rng.randint(0, 3)])
        step = rng.choice([1, 1, 2, 3])
        grown = copy.deepcopy(case)
        grown["es"] = grow_es(es, d, range(lo, hi, step))
        inner = gen_op(rng, grown, rng.choice(["active", "active", "ashape", "ashape", "coashape", "iter", "iter",
                                               "shape", "occ", "project", "prune", "window", "grow"]))
        return {"op": "grow", "lo": lo, "hi": hi, "step": step, "then": inner}
    if kind == "window":
        o = gen_op(rng, case, "project")
        lo = rng.choice([None, 0, 0, rng.randint(-12, 12)])
        hi = rng.choice([None, lo, rng.randint(-12, 14), rng.randint(0, 14)])
        return {"op": "window", "k": o["k"], "b": o["b"], "iv": o["iv"], "lo": lo, "hi": hi}
    if kind == "prune":
        m = rng.randint(1, 4)
        pr = {"a": rng.randint(-1, 2), "b": rng.randint(-1, 2), "e": rng.randint(0, 1), "m": m,
              "th": rng.randint(0, m)}
        sp = None
        if es and rng.random() < 0.4:
            sp = rng.randrange(len(es)) if eff_U(case) else pick_sp(rng, es, d, lambda c: False, 1.0)
        return {"op": "prune", "sp": sp, **pr}
    raise ValueError(kind)


def gen_case(rng, depth=None, zero_only=False, nops=None, kinds=None, none_default=False):
    d = rng.choice([0, 0, 0, 3])
    depth = depth or rng.choice([1, 1, 1, 2])
    es = gen_es(rng, d, depth)
    if none_default:
        d, depth, kinds = NONE_D, 1, NONE_KINDS
        es = [[c, rng.choice([0, 0, 1, 4, 7])] for c, _ in gen_leaf_fiber(rng, 0, rng.choice([0.2, 0.5, 0.8]), 0.0,
                                                                       rng.choice([0, MINC]), rng.choice([3, MAXC]))]
    if zero_only:
        es = [[c, d] for c, _ in gen_leaf_fiber(rng, d, 0.5, 1.0, rng.choice([0, MINC]))] or [[2, d]]
    shape = rng.choice([None, None, est_shape(es), rng.randint(0, MAXC + 3), rng.randint(MINC, MAXC + 3)])
    active = None
    if rng.random() < 0.35:
        a0 = rng.choice([0, rng.randint(MINC - 1, MAXC)])
        active = [a0, rng.choice([a0, a0 - 1, rng.randint(a0, MAXC + 3)])]
    owner = None
    if depth == 1 and rng.random() < 0.3:
        owner = rng.random() < 0.5      # root fiber of a one-rank tensor; the rank's format is "U"?
    case = {"es": es, "d": d, "shape": shape, "active": active, "fmtU": rng.random() < (0.5 if owner is not None else 0.3),
            "owner": owner, "others": [gen_es(rng, d, depth) for _ in range(rng.choice([0, 1, 1, 2]))]}
    n = nops or rng.randint(6, 10)
    case["ops"] = [gen_op(rng, case, rng.choice(kinds) if kinds else None) for _ in range(n)]
    if none_default:
        case["others"] = [[[c, rng.choice([0, 2, 5])] for c, _ in o] for o in case["others"]]
        for o in case["ops"]:
            if "ref" in o:
                o["ref"] = False
    return case


def streams(tier, rng):
    big = tier != "quick"
    n = 600 if not big else 12000
    yield ("random", [gen_case(rng) for _ in range(n)], False)
    yield ("all-default", [gen_case(rng, depth=1, zero_only=True, kinds=["project", "prune", "occ", "shape", "iter"])
                           for _ in range(60 if not big else 600)], False)
    yield ("lazy", [gen_case(rng, kinds=["project", "project", "prune", "window"]) for _ in range(250 if not big else 4000)], False)
    yield ("boundary", boundary_cases(rng, 120 if not big else 1500), False)
    yield ("histories", [gen_case(rng, kinds=["grow"]) for _ in range(100 if not big else 2000)], False)
    yield ("none-default", [gen_case(rng, none_default=True) for _ in range(80 if not big else 1500)], False)
    if big:
        yield ("exhaustive-4coords", exhaustive_cases(), True)


def boundary_cases(rng, n):
    out = []
    for _ in range(n):
        c = gen_case(rng, nops=1)
        es, d = c["es"], c["d"]
        ops = []
        last = len(es) - 1
        for lo in (None, 0, es[0][0] if es else 1, es[-1][0] if es else 2, -1):
            for hi in (lo, None, (es[-1][0] + 1) if es else 3, MAXC + 5):
                sps = [None] + legal_sps(es, d, lambda x: lo is not None and x < lo)
                ops.append({"op": "range", "lo": lo, "hi": hi, "sp": sps[-1]})
        if es:
            # start_pos at the last position, legal because everything before is below the range
            ops.append({"op": "range", "lo": es[-1][0], "hi": None, "sp": last})
            ops.append({"op": "project", "k": 1, "b": 0, "iv": [es[-1][0], es[-1][0] + 1], "sp": last})
        s = c["shape"] if c["shape"] is not None else est_shape(es)
        ops.append({"op": "rshape", "lo": 0, "hi": s + 3, "step": 1, "ref": True})
        ops.append({"op": "rshape", "lo": s, "hi": s, "step": 1, "ref": True})
        ops.append({"op": "rshape", "lo": 3, "hi": 0, "step": 2, "ref": False})
        ops.append({"op": "corshape", "lo": -1, "hi": s + 2, "step": 3, "ref": True})
        c["ops"] = ops
        out.append(c)
    return out


def exhaustive_cases():
    """every leaf fiber over coordinates 0..3 and over -2..1 (absent / explicit default / value per coordinate), both
    formats, with a fixed battery of operations incl. every legal start_pos"""
    out = []
    for pat, off in itertools.product(itertools.product([None, 0, 4], repeat=4), (0, -2)):
        es = [[c + off, v] for c, v in enumerate(pat) if v is not None]
        for fmtU, owner in ((False, None), (True, None), (False, True), (True, False)):
            case = {"es": es, "d": 0, "shape": None, "active": None, "fmtU": fmtU, "owner": owner,
                    "others": [[[1, 2]]]}
            ops = [{"op": "iter", "sp": None}, {"op": "shape", "ref": False}, {"op": "shape", "ref": True},
                   {"op": "coashape", "ref": True}]
            for lo, hi in [(None, None), (1, 3), (2, 2), (0, 9), (3, 1), (0, 0), (0, 2), (-1, 2)]:
                for sp in [None] + legal_sps(es, 0, lambda c: lo is not None and c < lo):
                    ops.append({"op": "range", "lo": lo, "hi": hi, "sp": sp})
            for k, b in [(1, 0), (2, 1), (-1, 3), (-2, 0)]:
                for iv in [None, [0, 3], [1, 9], [2, 2]]:
                    ops.append({"op": "project", "k": k, "b": b, "iv": iv, "sp": None})
            ops.append({"op": "prune", "a": 1, "b": 0, "e": 0, "m": 2, "th": 1, "sp": None})
            ops.append({"op": "prune", "a": 0, "b": 1, "e": 1, "m": 3, "th": 2, "sp": None})
            case["ops"] = ops
            out.append(case)
    return out


def nontrivial(case):
    return bool(case["es"]) and bool(case["ops"])


def describe(case):
    kinds = sorted({o["op"] for o in case["ops"]})
    return {"depth": 1 if all(isinstance(s, int) for _, s in case["es"]) else 2,
            "format": "U" if eff_U(case) else "C",
            "owned": case.get("owner") is not None,
            "explicit_default": U.has_explicit_default(case["es"], case["d"]),
            "all_stored_empty": bool(case["es"]) and U.is_empty_lit(case["es"], case["d"]),
            "nonzero_default": case["d"] != 0,
            "none_default": case["d"] == NONE_D,
            "any_start_pos": any(o.get("sp") is not None for o in case["ops"]),
            "reversing_projection": any(o["op"] in ("project", "window") and o["k"] < 0 for o in case["ops"]),
            "ref_mode": any(o.get("ref") for o in case["ops"]),
            "history": any(o["op"] == "grow" for o in case["ops"]),
            "ops": len(case["ops"])}


# ------------------------------------------------------------------ Coq literals

def fibl(t):
    return L.lst(L.tup(L.z(c), L.tree(s)) for c, s in t)


def zo(x):
    return L.opt(x, L.z)


def op_to_coq(o):
    k = o["op"]
    if k == "occ":
        return "(OpOcc %s)" % zo(o["sp"])
    if k == "range":
        return "(OpRange %s %s %s)" % (zo(o["lo"]), zo(o["hi"]), zo(o["sp"]))
    if k == "active":
        return "(OpActive %s)" % zo(o["sp"])
    if k == "iter":
        return "(OpIter %s)" % zo(o["sp"])
    if k in ("shape", "ashape", "coshape", "coashape"):
        return "(%s %s)" % ({"shape": "OpShape", "ashape": "OpActiveShape", "coshape": "OpCoShape",
                             "coashape": "OpCoActiveShape"}[k], L.b(o["ref"]))
    if k in ("rshape", "corshape"):
        return "(%s %s %s %s %s)" % ("OpRangeShape" if k == "rshape" else "OpCoRangeShape",
                                     L.z(o["lo"]), L.z(o["hi"]), L.z(o["step"]), L.b(o["ref"]))
    if k == "project":
        iv = "None" if o["iv"] is None else "(Some (%s, %s))" % (L.z(o["iv"][0]), L.z(o["iv"][1]))
        return "(OpProject %s %s %s %s)" % (L.z(o["k"]), L.z(o["b"]), iv, zo(o["sp"]))
    if k == "grow":
        return "(OpGrow %s %s %s %s)" % (L.z(o["lo"]), L.z(o["hi"]), L.z(o["step"]), op_to_coq(o["then"]))
    if k == "window":
        iv = "None" if o["iv"] is None else "(Some (%s, %s))" % (L.z(o["iv"][0]), L.z(o["iv"][1]))
        return "(OpWindow %s %s %s %s %s)" % (L.z(o["k"]), L.z(o["b"]), iv, zo(o["lo"]), zo(o["hi"]))
    if k == "prune":
        return "(OpPrune (Build_pred %s %s %s %s %s) %s)" % (
            L.z(o["a"]), L.z(o["b"]), L.z(o["e"]), L.z(o["m"]), L.z(o["th"]), zo(o["sp"]))
    raise ValueError(k)


def case_to_coq(c):
    act = "None" if c["active"] is None else "(Some (%s, %s))" % (L.z(c["active"][0]), L.z(c["active"][1]))
    fiber = "(Build_fiber %s %s %s %s %s %s)" % (fibl(c["es"]), L.z(c["d"]), zo(c["shape"]), act, L.b(c["fmtU"]),
                                                 L.opt(c.get("owner"), L.b))
    return "(Build_c07_case %s %s %s)" % (fiber, L.lst(fibl(o) for o in c["others"]),
                                          L.lst(op_to_coq(o) for o in c["ops"]))


# ------------------------------------------------------------------ implementation side

def _build(es, d, shape=None, active=None, fmtU=False):
    """values and the default go through U.dress (int / float / int subclass / tiny float).  In touch
    mode the fiber is built as a history (theme T3): the first half of its elements, a battery of
    read-only queries (U.touch: getActive, maxCoord, getShape, getDefault, iterActive ...), then the
    remaining elements one append at a time with the queries repeated - anything a read remembers is
    stale by the time the operation under test runs.  The finished fiber is the same fiber."""
    from fibertree import Fiber
    coords = [c for c, _ in es]
    pays = [U.dress(s) if isinstance(s, int) else _build(s, d) for _, s in es]
    kw = {}
    if shape is not None:
        kw["shape"] = shape
    if active is not None:
        kw["active_range"] = tuple(active)
    n0 = len(coords) // 2 if U.MODE["touch"] else len(coords)
    f = Fiber(coords[:n0], pays[:n0], default=None if d == NONE_D else U.dress(d), **kw)
    if fmtU:
        f.getRankAttrs().setFormat("U")
    for i in range(n0, len(coords)):
        U.touch(f)
        f.append(coords[i], pays[i])
    return f


def _val(p):
    from fibertree import Fiber, Payload
    if isinstance(p, Fiber):
        return [[c, _val(q)] for c, q in zip(p.coords, p.payloads)]
    if p is None:
        return NONE_D       # the stand-in for an absent coordinate of a default=None fiber
    n = 0
    while isinstance(p, Payload):
        p = p.value
        n += 1
    p = U.undress(p)
    if n != 1 or isinstance(p, bool) or not isinstance(p, int):
        return [-2, n]
    return p


def _origin(f, p):
    for j, q in enumerate(f.payloads):
        if q is p:
            return j
    return -1


def _pred(o):
    from fibertree import Fiber, Payload

    def fn(i, c, p):
        v = len(p.coords) if isinstance(p, Fiber) else U.undress(Payload.get(p))
        return (o["a"] * i + o["b"] * c + o["e"] * v) % o["m"] < o["th"]
    return fn


def run_op(case, o):
    from fibertree import Fiber, Payload
    fs = [_build(case["es"], case["d"], case["shape"], case["active"], case["fmtU"])]
    if case.get("owner") is not None:
        # the fiber becomes the root of a one-rank tensor; its own RankAttrs keep their format
        from fibertree import Tensor
        T = Tensor.fromFiber(rank_ids=["M"], fiber=fs[0],
                             default=None if case["d"] == NONE_D else U.dress(case["d"]))
        T.setFormat("M", "U" if case["owner"] else "C")
        if U.MODE["touch"]:
            U.touch(fs[0])
        assert T.getRoot() is fs[0] and fs[0].getOwner() is not None
    fs += [_build(t, case["d"]) for t in case["others"]]
    f = fs[0]
    while o["op"] == "grow":
        U.touch(f)                                   # reads that reach getActive / maxCoord / getShape
        for _ in f.iterRangeShapeRef(o["lo"], o["hi"], o["step"]):
            pass
        o = o["then"]
    k = o["op"]
    involved = fs if k.startswith("co") else [f]
    extra = []

    def single(it):
        got = [(c, p, _val(p)) for c, p in it]
        return [[c, v, _origin(f, p)] for c, p, v in got]

    def co(lazy):
        got = []
        for c, p in lazy:
            ps = Payload.get(p)
            got.append((c, ps, [_val(q) for q in ps]))
        return [[c, vs, [_origin(g, q) for g, q in zip(fs, ps)]] for c, ps, vs in got]

    def lazy3(lz):
        a = single(lz)
        b_ = single(lz)
        m = Fiber.fromLazy(lz)
        snap = [[c, _val(p)] for c, p in zip(m.coords, m.payloads)]
        extra.append(snap)
        return [a, b_, U.content(snap, case["d"])]

    try:
        if k == "occ":
            res = [single(f.iterOccupancy(start_pos=o["sp"]))]
        elif k == "range":
            res = [single(f.iterRange(o["lo"], o["hi"], start_pos=o["sp"]))]
        elif k == "active":
            res = [single(f.iterActive(start_pos=o["sp"]))]
        elif k == "iter":
            res = [single(f.__iter__(start_pos=o["sp"]))]
        elif k == "shape":
            res = [single(f.iterShapeRef() if o["ref"] else f.iterShape())]
        elif k == "ashape":
            res = [single(f.iterActiveShapeRef() if o["ref"] else f.iterActiveShape())]
        elif k == "rshape":
            fn = f.iterRangeShapeRef if o["ref"] else f.iterRangeShape
            res = [single(fn(o["lo"], o["hi"], o["step"]))]
        elif k == "coshape":
            lz = Fiber.coiterShapeRef(fs) if o["ref"] else Fiber.coiterShape(fs)
            res = [co(lz), co(lz)]
        elif k == "coashape":
            lz = Fiber.coiterActiveShapeRef(fs) if o["ref"] else Fiber.coiterActiveShape(fs)
            res = [co(lz), co(lz)]
        elif k == "corshape":
            fn = Fiber.coiterRangeShapeRef if o["ref"] else Fiber.coiterRangeShape
            lz = fn(fs, o["lo"], o["hi"], o["step"])
            res = [co(lz), co(lz)]
        elif k == "project":
            kk, bb = o["k"], o["b"]
            lz = f.project(trans_fn=lambda c: kk * c + bb,
                           interval=None if o["iv"] is None else tuple(o["iv"]), start_pos=o["sp"])
            res = lazy3(lz)
        elif k == "window":
            kk, bb = o["k"], o["b"]
            lz = f.project(trans_fn=lambda c: kk * c + bb,
                           interval=None if o["iv"] is None else tuple(o["iv"]))
            res = [single(lz.iterRange(o["lo"], o["hi"]))]
        elif k == "prune":
            res = lazy3(f.prune(_pred(o), start_pos=o["sp"]))
        else:
            raise ValueError(k)
    except AssertionError:
        res = [-1, 1]
    except Exception as e:      # incl. StopIteration
        res = [-1, 9]
    post = [[[c, _val(p)] for c, p in zip(g.coords, g.payloads)] for g in involved]
    if k in ("project", "prune"):
        return [res, post, [f.getSavedPos(), extra[0] if extra else []]]
    return [res, post, f.getSavedPos()]


def run_impl(case):
    return [run_op(case, o) for o in case["ops"]]


def repro_py(case):
    return ("import sys; sys.path.insert(0,'/verif/harness'); sys.path.insert(0,'/verif/harness/props')\n"
            "import c07\ncase = %r\nfor o, r in zip(case['ops'], c07.run_impl(case)): print(o, '->', r)\n" % (case,))


def _clear_sp(o):
    """a start_pos is legal relative to the stored elements and the range: drop it when those change"""
    while True:
        if o.get("sp") is not None:
            o["sp"] = None
        if o["op"] != "grow":
            return
        o = o["then"]


def shrinks(case):
    for i in range(len(case["ops"])):
        if len(case["ops"]) > 1:
            c = copy.deepcopy(case)
            c["ops"] = [case["ops"][i]]
            yield c
    if len(case["ops"]) == 1:
        o = case["ops"][0]
        # dropping a stored element keeps a start_pos legal only if it is re-derived: drop it
        for i in range(len(case["es"])):
            c = copy.deepcopy(case)
            del c["es"][i]
            _clear_sp(c["ops"][0])
            yield c
        if o["op"] == "grow":
            c = copy.deepcopy(case)
            c["ops"] = [o["then"]]
            _clear_sp(c["ops"][0])
            yield c
        for i in range(len(case["others"])):
            c = copy.deepcopy(case)
            del c["others"][i]
            yield c
        for key in ("shape", "active"):
            if case[key] is not None:
                c = copy.deepcopy(case)
                c[key] = None
                _clear_sp(c["ops"][0])
                yield c
        if o.get("iv") is not None:
            c = copy.deepcopy(case)
            c["ops"][0]["iv"] = None
            c["ops"][0]["sp"] = None
            yield c
        if o.get("sp") is not None:
            c = copy.deepcopy(case)
            c["ops"][0]["sp"] = None
            yield c
        if case["fmtU"] and case.get("owner") is None:
            c = copy.deepcopy(case)
            c["fmtU"] = False
            yield c
        if case.get("owner") is not None:
            c = copy.deepcopy(case)
            c["fmtU"] = c["owner"]
            c["owner"] = None
            yield c


def search(disagreeing, rng, rnd):
    kinds = sorted({o["op"] for c in disagreeing for o in c["ops"]}) or None
    return [gen_case(rng, kinds=kinds) for _ in range(300)]
