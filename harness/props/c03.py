"""C03 — Point access behaves like a map from points to values (shared history model: coq/Model/Store.v, harness/store_hist.py)."""
import store_hist as H

ID = "C03"
# the model numbers fiber identities and rank lists in construction (DFS) order: no post-construction
# re-assignment of sub-trees in the shared builder (the histories themselves contain such assignments)
REASSIGN_MODE = False
THEOREMS = ["C03_getPayload", "C03_getPayload_prefix", "C03_getPayloadRef", "C03_reads_pure",
            "C03_start_pos", "C03_position", "C03_model_meets_spec", "C03_step_refines", "C03_content_is_map"]
COQ_IMPORTS = "From FT Require Import Model.Base Model.Obs Model.Store Model.StoreCheck."
CHECK_VO = ["Model/StoreCheck.v"]
CHECKER = "c03_checker"
CASE_TYPE = "hist_case"
SHARD = 120
RULE = ("case = (tensor tree of depth 1-3 with explicit defaults / empty sub-fibers, leaf default, history of "
        "1-10 public operations addressed by coordinate path); observation = state snapshot (raw tree, per-rank "
        "fiber lists as paths, owner flags) before the history and after every step plus each step's outcome and "
        "return value. distinct = distinct canonical JSON; non-trivial = non-empty tree and >= 1 op")
TRUSTED = ["Coq 8.16.1 kernel (coqc; coqchk in the thorough tier)",
           "Print Assumptions of every C03 theorem: Closed under the global context",
           "hand-written model coq/Model/Store.v (getPayload, getPayloadRef/_create_payload/_createDefault, getPosition(Ref), "
           "_coord2pos with start_pos), tied to /repo by the per-step differential correspondence of this run",
           "oracle c03_holds (replay of the history on an association list) evaluated on the implementation's observations; "
           "that the model's own observation satisfies it for every well-formed case and every history is proved "
           "(C03_model_meets_spec, Proofs/StoreMapCheck.v) and additionally re-checked per case at run time (verdict bit 4)",
           "harness/store_hist.py, harness/check.py"]
ASSUMPTIONS = ["tensors (owned trees) of depth 1-3; points are full points or proper prefixes; handles are written through immediately "
               "(assignment <<= v and in-place += v), which is faithful because no operation of this family ever removes an element",
               "every other operation of the shared model (append, __setitem__, clear, updateCoords, updatePayloads, iterRangeShapeRef and the "
               "fiber-valued append/extend/__setitem__ (with or without a coordinate)/<<=) is accepted by the oracle's re-synchronisation branch: C03_model_meets_spec covers "
               "histories that mix them with the access families (stream 'with-mutators')",
               "start_pos: the cases carry a seed k, the shortcut used is k mod len; 'legal' = every coordinate before it is smaller "
               "than the one looked for (getPayload additionally refuses, by its own assertion, a shortcut whose coordinate is larger)"]
case_to_coq = H.case_to_coq
run_impl = H.run_impl
nontrivial = H.nontrivial
describe = H.describe
shrinks = H.shrinks
repro_py = H.repro_py
KINDS = H.ACCESS_KINDS


def streams(tier, rng):
    n = 300 if tier == "quick" else 6000
    yield ("random-histories", [H.gen_case(rng, KINDS) for _ in range(n)], False)
    # access families interleaved with every mutator of the shared model (the oracle re-synchronises its map after them)
    yield ("with-mutators", [H.gen_case(rng, KINDS + H.ALL_KINDS) for _ in range(n // 2)], False)


def search(disagreeing, rng, rnd):
    return [H.gen_case(rng, KINDS, maxlen=14) for _ in range(300)]
