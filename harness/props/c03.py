"""C03 — Point access behaves like a map from points to values (shared history model: coq/Model/Store.v, harness/store_hist.py)."""
import store_hist as H

ID = "C03"
THEOREMS = []
COQ_IMPORTS = "From FT Require Import Model.Base Model.Obs Model.Store Model.StoreCheck."
CHECK_VO = ["Model/StoreCheck.v"]
CHECKER = "c03_checker"
CASE_TYPE = "hist_case"
SHARD = 120
RULE = ("case = (tensor tree of depth 1-3 with explicit defaults / empty sub-fibers, leaf default, history of "
        "1-10 public operations addressed by coordinate path); observation = state snapshot (raw tree, per-rank "
        "fiber lists as paths, owner flags) before the history and after every step plus each step's outcome and "
        "return value. distinct = distinct canonical JSON; non-trivial = non-empty tree and >= 1 op")
TRUSTED = []
ASSUMPTIONS = []
case_to_coq = H.case_to_coq
run_impl = H.run_impl
nontrivial = H.nontrivial
describe = H.describe
shrinks = H.shrinks
repro_py = H.repro_py
KINDS = H.ACCESS_KINDS


def streams(tier, rng):
    n = 300 if tier == "quick" else 6000
    yield ("random-histories", [H.gen_case(rng, KINDS) for _ in range(n)], False)


def search(disagreeing, rng, rnd):
    return [H.gen_case(rng, KINDS, maxlen=14) for _ in range(300)]
