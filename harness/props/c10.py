"""C10 — value-returning operations never disturb or alias their operands; observers are pure.

Model with object identity: coq/Model/C10Model.v; observation/oracle: coq/Model/C10Check.v;
implementation-side identity snapshots: harness/c10_util.py."""
import coqlit as L
import ftutil as U

ID = "C10"
THEOREMS = ["C10_deepcopy", "C10_operand_unchanged", "C10_fresh", "C10_independent",
            "C10_readonly_partial", "C10_S17_unfixed_refuted", "C10_S16_unfixed_refuted",
            "C10_oracle_meaning", "C10_model_meets_spec"]
COQ_IMPORTS = ("From FT Require Import Model.Base Model.Obs Model.C08Split Model.C10Model Model.C10Check.")
CHECK_VO = ["Model/C10Check.v"]
CHECKER = "c10_checker"
CASE_TYPE = "c10_case"
SHARD = 60
CASE_TIMEOUT = 30

RULE = ("two-step cases = a second value-returning operation (or a call that must be rejected: levels/depth out of range) applied to the RESULT of a first one (flatten of flatten, merge of flatten, unflatten of flatten, split of split, swap of split ...), the first result being the operand whose state must not change; the flag also covers rank ids/shapes/formats/defaults of every operand and the identity of mutable rank-id lists. value cases = (operation in {deepcopy/copy, splitUniform/NonUniform/Equal/UnEqual with halos and relative "
        "coordinates, flattenRanks, unflattenRanks, swapRanks, fiber+k, fiber*k, fiber+fiber, fiber*fiber, "
        "tensor.updateCoords, tensor.updatePayloads, root.copy(preserve_owner=False), Tensor.fromFiber(another tensor's root "
        "or sub-fiber) on operands with stored-but-empty sub-fibers}, fiber-level on unowned fibers or tensor-level on tensors of 1-3 "
        "ranks, operand trees of depth 1-3 with explicit defaults and empty sub-fibers); observation = identity "
        "snapshots (structure, id() numbers of every Fiber/Payload/RankAttrs/default/Rank object, rank lists, owner reported by every fiber) of the "
        "and the owner each fiber reports) of the operands before and after, of the result, of the operands after mutating every box/fiber/rank list of the "
        "result, of the result before/after mutating the operands, + flag(attribute values of the operands kept). "
        "read-only cases = two tensors of 1-3 ranks and 1-6 observers from {getPayload(point), | iteration, ^ "
        "iteration, ==, iterUncompressed, external: isEmpty/countValues/shape/len/iteration/&/-/str/repr/format/YAML dump/Format "
        "footprints/image rendering twice}; observation = identity snapshots of both tensors before/after + "
        "flag(attribute values kept, two renderings and two dumps byte-identical). distinct = distinct canonical "
        "JSON; non-trivial = some operand has a stored element")
TRUSTED = ["Coq 8.16.1 kernel (coqc; coqchk in the thorough tier); vm_compute for the Examples / refuted witnesses",
           "Print Assumptions of every C10 theorem: Closed under the global context",
           "hand-written model coq/Model/C10Model.v (labelled trees; deepcopy = relabelling by the fresh counter; "
           "operations = copy/move/create pipelines of fiber.py/tensor.py), tied to the working tree by this run's "
           "differential correspondence on identity snapshots",
           "pickle round trip = isomorphic identity-disjoint copy (modelled as a label shift, checked differentially)",
           "the partition computed by the splitters is taken from coq/Model/C08Split.v (property C08's model)",
           "harness/props/c10.py, harness/c10_util.py (id() numbering, snapshots, follow-up mutations), harness/check.py",
           "printing, YAML dump, Format footprints and image rendering are external observers: no write in the model; "
           "checked only differentially (snapshot before = after, two outputs byte-identical)"]
ASSUMPTIONS = ["fiber-level operations are exercised on unowned fibers, tensor-level ones on tensors; depth=0 forms only "
               "(the *Below / depth>0 forms, swizzleRanks, mergeRanks with a merge function, nonEmpty, prune, project, "
               "concat, uncompress are not modelled)",
               "leaf default 0; integer payloads; ordered unique fibers",
               "attribute objects are compared by identity (disjointness); attribute VALUES of the operands are compared "
               "in the harness (flag), not modelled",
               "operands of + and * are leaf-level fibers"]
EXPLANATION = ("theorems: deepcopy is isomorphic and identity-disjoint; every modelled value-returning operation leaves "
               "the operand snapshots as they were and its result carries only labels >= the counter (fresh) hence "
               "shares nothing; a label-addressed mutation of one side cannot change a tree that is label-disjoint; "
               "observers built on _createDefault(addtorank=False) leave tree and rank lists unchanged; S16/S17 refuted "
               "witnesses for the unfixed code")


# ------------------------------------------------------------------ literals

def conv(t):
    """ftutil literal ([c, sub]) -> C10 literal ([[c], sub])"""
    if isinstance(t, int):
        return t
    return [[[c], conv(s)] for c, s in t]


def pt_coq(t):
    if isinstance(t, int):
        return "(PL %s)" % L.z(t)
    return "(PN %s)" % L.lst("(%s, %s)" % (L.zlist(c), pt_coq(s)) for c, s in t)


def sp_coq(o):
    _, kind, arg, pre, post, rel, shape = o
    k = {"uniform": "(KUniform %s)" % L.z(arg) if kind == "uniform" else None,
         "equal": "(KEqual %s)" % L.z(arg) if kind == "equal" else None,
         "nonuniform": "(KNonUniform %s)" % L.zlist(arg) if kind == "nonuniform" else None,
         "unequal": "(KUnEqual %s)" % L.zlist(arg) if kind == "unequal" else None}[kind]
    return "(VSplit (Build_sparams %s %s %s %s) %s)" % (k, L.z(pre), L.z(post), L.b(rel), L.opt(shape, L.z))


def op_coq(o):
    k = o[0]
    if k == "copy":
        return "VCopy"
    if k == "split":
        return sp_coq(o)
    if k == "flatten":
        return "VFlatten"
    if k == "unflatten":
        return "VUnflatten"
    if k == "swap":
        return "VSwap"
    if k == "arith":
        return "(VArith %s)" % {"adds": "(AddS %s)" % L.z(o[2]), "muls": "(MulS %s)" % L.z(o[2]),
                                "addf": "AddF", "mulf": "MulF"}[o[1]]
    if k == "updcoords":
        return "(VUpdCoords %s)" % L.z(o[1])
    if k == "updpay":
        return "(VUpdPayloads %s)" % L.z(o[1])
    if k == "copynoowner":
        return "VCopyNoOwner"
    if k == "fromfiber":
        return "(VFromFiber %s)" % L.opt(o[1], L.nat)
    raise ValueError(k)


def obs_coq(o):
    if o[0] == "get":
        return "(RGet %s)" % L.zlist(o[1])
    if o[0] in ("union", "xor"):
        return "RUnion"
    if o[0] == "eq":
        return "REq"
    if o[0] == "iterunc":
        return "(RIterUnc %s)" % L.nat(16)
    return "RExternal"


def case_to_coq(c):
    if c["kind"] == "V":
        return "(CV %s %s %s %s)" % (L.nat(c["n"]), L.z(c.get("d", 0)), op_coq(c["op"]), L.lst(pt_coq(t) for t in c["ops"]))
    if c["kind"] == "V2":
        return "(CV2 %s %s %s %s %s)" % (L.nat(c["n"]), L.z(c.get("d", 0)), op_coq(c["op"]), op_coq(c["op2"]), pt_coq(c["ops"][0]))
    if c["kind"] == "J":
        return "(CJ %s %s %s %s)" % (L.nat(c["n"]), L.z(c.get("d", 0)), op_coq(c["op"]), pt_coq(c["ops"][0]))
    return "(CR %s %s %s %s)" % (L.nat(c["n"]), pt_coq(c["a"]), pt_coq(c["b"]), L.lst(obs_coq(o) for o in c["obs"]))


# ------------------------------------------------------------------ generators

def gen_tree(rng, depth, shape=8):
    return conv(U.gen_fiber(rng, depth, [rng.randint(2, shape) for _ in range(depth)], 0))


def flatten_lit(t):
    out = []
    for c1, sub in t:
        for c0, p in sub:
            if not U.is_empty_lit(unconv(p), 0):
                out.append([c1 + c0, p])
    return out


def unconv(t):
    if isinstance(t, int):
        return t
    return [[c[0], unconv(s)] for c, s in t]


def gen_split(rng, owned):
    kind = rng.choice(["uniform", "uniform", "equal", "nonuniform", "unequal"])
    pre, post = rng.choice([(0, 0), (0, 0), (1, 0), (0, 2), (2, 1)])
    rel = rng.random() < 0.3
    if kind == "uniform":
        arg = rng.randint(1, 5)
    elif kind == "equal":
        arg = rng.randint(1, 3)
    elif kind == "nonuniform":
        arg = sorted(rng.sample(range(0, 10), rng.randint(1, 4)))
        if arg[0] != 0 and rng.random() < 0.7:
            arg = [0] + arg
    else:
        arg = [rng.randint(1, 3) for _ in range(rng.randint(1, 3))]
    shape = 16 if owned else rng.choice([None, None, 16])
    return ["split", kind, arg, pre, post, rel, shape]


VKINDS = ["copy", "split", "split", "flatten", "unflatten", "unflatten", "swap", "arith", "arith",
          "updcoords", "updpay", "copynoowner", "fromfiber", "fromfiber"]


def add_empties(rng, t, depth):
    """replace some interior children by stored-but-empty sub-fibers: zero-length, all explicit
    defaults, or (depth permitting) a fiber of empty fibers"""
    if depth <= 1:
        return t
    out = []
    for c, sub in t:
        r = rng.random()
        if r < 0.2:
            sub = []
        elif r < 0.4:
            if depth == 2:
                sub = [[[k], 0] for k in sorted(rng.sample(range(6), rng.randint(1, 2)))]
            else:
                sub = [[[k], rng.choice([[], [[[1], 0]]])] for k in sorted(rng.sample(range(6), rng.randint(1, 2)))]
        else:
            sub = add_empties(rng, sub, depth - 1)
        out.append([c, sub])
    if depth >= 2 and len(out) < 2 and rng.random() < 0.7:
        cs = [c[0] for c, _ in out]
        c = (max(cs) + 1) if cs else 0
        out.append([[c], []])
    return out


def gen_v(rng, kind=None):
    c = gen_v0(rng, kind)
    # tensor-level operands may have a non-zero leaf default (stored zeros are then ordinary values)
    c["d"] = rng.choice([0, 0, 7, 7, 3]) if c["n"] > 0 and c["op"][0] != "unflatten" else 0
    return c


def gen_v0(rng, kind=None):
    kind = kind or rng.choice(VKINDS)
    if kind == "copy":
        n = rng.choice([0, 0, 1, 2, 3])
        depth = n or rng.randint(1, 3)
        return {"kind": "V", "n": n, "op": ["copy"], "ops": [gen_tree(rng, depth)]}
    if kind == "split":
        n = rng.choice([0, 0, 1, 2])
        depth = n or rng.randint(1, 2)
        return {"kind": "V", "n": n, "op": gen_split(rng, n > 0), "ops": [gen_tree(rng, depth)]}
    if kind == "flatten":
        n = rng.choice([0, 0, 2, 3])
        depth = n or rng.choice([2, 2, 3])
        return {"kind": "V", "n": n, "op": ["flatten"], "ops": [gen_tree(rng, depth)]}
    if kind == "unflatten":
        for _ in range(20):
            depth = rng.choice([2, 2, 3])
            t = flatten_lit(gen_tree(rng, depth))
            if t:
                break
        else:
            t = [[[0, 1], 5]] if depth == 2 else [[[0, 1], [[[2], 5]]]]
        n = rng.choice([0, 0, depth - 1])
        return {"kind": "V", "n": n, "op": ["unflatten"], "ops": [t]}
    if kind == "swap":
        n = rng.choice([0, 0, 2, 3])
        depth = n or 2
        for _ in range(20):
            t = gen_tree(rng, depth)
            if flatten_lit(t):
                break
        else:
            # tensor level: an all-empty tensor is legal (swapRanks copies the root); fiber level needs an element
            t = gen_tree(rng, depth) if n else [[[1], [[[2], 5]]]]
        return {"kind": "V", "n": n, "op": ["swap"], "ops": [t]}
    if kind == "arith":
        sub = rng.choice(["adds", "muls", "addf", "mulf"])
        ops = [gen_tree(rng, 1)] + ([gen_tree(rng, 1)] if sub in ("addf", "mulf") else [])
        return {"kind": "V", "n": 0, "op": ["arith", sub, rng.choice([0, 1, 2, 3, -1])], "ops": ops}
    if kind == "updcoords":
        n = rng.randint(1, 3)
        return {"kind": "V", "n": n, "op": ["updcoords", rng.choice([1, 2, 5])], "ops": [gen_tree(rng, n)]}
    if kind == "updpay":
        n = rng.randint(1, 3)
        return {"kind": "V", "n": n, "op": ["updpay", rng.choice([1, 2, -1, 3])], "ops": [gen_tree(rng, n)]}
    if kind == "copynoowner":
        n = rng.randint(1, 3)
        return {"kind": "V", "n": n, "op": ["copynoowner"], "ops": [add_empties(rng, gen_tree(rng, n, 6), n)]}
    if kind == "fromfiber":
        n = rng.randint(1, 3)
        t = add_empties(rng, gen_tree(rng, n, 6), n)
        sub = None
        if n >= 2 and t and rng.random() < 0.4:
            sub = rng.randrange(len(t))
        return {"kind": "V", "n": n, "op": ["fromfiber", sub], "ops": [t]}
    raise ValueError(kind)


def res_ranks(n, o):
    k = o[0]
    if k in ("copy", "swap", "updcoords", "updpay"):
        return n
    if k in ("split", "unflatten"):
        return n + 1 if n else 0
    if k == "flatten":
        return max(n - 1, 0)
    if k in ("arith", "copynoowner"):
        return 0
    if k == "fromfiber":
        return n if o[1] is None else n - 1
    raise ValueError(k)


FIRST = ["copy", "split", "flatten", "flatten", "flatten", "unflatten", "swap", "updcoords", "updpay", "fromfiber",
         "copynoowner"]


def gen_first(rng):
    """a tensor-level first operation (leaf default 0) whose result is the operand of the second step"""
    for _ in range(50):
        c = gen_v0(rng, rng.choice(FIRST))
        if c["n"] == 0:
            continue
        if c["op"][0] == "fromfiber" and c["op"][1] is not None:
            continue
        if c["op"][0] == "swap" and not flatten_lit(c["ops"][0]):
            continue
        c["d"] = 0
        return c
    raise RuntimeError("gen_first")


def gen_second(rng, c):
    """an operation that is legal on the result of c's operation"""
    n, o1 = c["n"], c["op"]
    n1 = res_ranks(n, o1)
    if o1[0] == "flatten":                       # tuple coordinates in the top rank
        ks = ["copy", "fromfiber", "copynoowner", "updpay", "unflatten", "unflatten"] + (["flatten", "flatten", "merge", "merge"] if n1 >= 2 else [])
    elif n1 == 0:                                # an unowned fiber (copy without owner)
        ks = ["copy", "split"]
    else:
        ks = ["copy", "split", "fromfiber", "copynoowner", "updcoords", "updpay"] + (["flatten", "merge", "swap"] if n1 >= 2 else [])
    k = rng.choice(ks)
    if k == "split":
        o2 = gen_split(rng, True)
    elif k == "fromfiber":
        o2 = ["fromfiber", None]
    elif k == "merge":
        o2 = ["flatten", "merge"]
    elif k in ("updcoords", "updpay"):
        o2 = [k, rng.choice([1, 2, 3])]
    else:
        o2 = [k]
    return o2


def gen_v2(rng):
    c = gen_first(rng)
    o2 = gen_second(rng, c)
    # region 1 of C10Check.c10_region (a halo split shares a payload fiber between two partitions;
    # copy(preserve_owner=False) then leaves it ownerless in the operand): reported, not generated
    while c["op"][0] == "split" and (c["op"][3] or c["op"][4]) and o2[0] in ("copynoowner", "fromfiber"):
        o2 = gen_second(rng, c)
    return {"kind": "V2", "n": c["n"], "d": 0, "op": c["op"], "op2": o2, "ops": c["ops"]}


def gen_j(rng):
    c = gen_first(rng)
    while c["op"][0] == "copynoowner":          # the rejected calls are tensor-level ones
        c = gen_first(rng)
    return {"kind": "J", "n": c["n"], "d": 0, "op": c["op"], "ops": c["ops"], "rej": rng.randrange(6)}


EXT = ["isempty", "count", "shape", "len", "iter", "iter", "and", "sub", "str", "yaml", "format", "image"]


def gen_r(rng):
    n = rng.randint(1, 3)
    a = gen_tree(rng, n, 6)
    b = gen_tree(rng, n, 6) if rng.random() < 0.85 else a
    obs = []
    for _ in range(rng.randint(1, 6)):
        k = rng.choice(["get", "get", "union", "xor", "eq", "iterunc", "ext", "ext", "ext"])
        if k == "get":
            obs.append(["get", [rng.randint(0, 6) for _ in range(rng.randint(1, n))]])
        elif k == "ext":
            obs.append(["ext", rng.choice(EXT)])
        else:
            obs.append([k])
    return {"kind": "R", "n": n, "a": a, "b": b, "obs": obs}


def streams(tier, rng):
    nv = 360 if tier == "quick" else 6000
    nr = 160 if tier == "quick" else 2500
    yield ("value-returning", [gen_v(rng) for _ in range(nv)], False)
    yield ("read-only", [gen_r(rng) for _ in range(nr)], False)
    n2 = 150 if tier == "quick" else 2500
    nj = 50 if tier == "quick" else 800
    yield ("two-step", [gen_v2(rng) for _ in range(n2)], False)
    yield ("rejected-second-call", [gen_j(rng) for _ in range(nj)], False)
    # the witnesses of S17 / S16 (fixed in the worktree the model describes)
    yield ("suspects", [
        {"kind": "V", "n": 0, "op": ["unflatten"], "ops": [[[[0, 1], 3], [[3, 0], 7]]]},
        {"kind": "R", "n": 2, "a": conv([[0, [[1, 3]]], [3, [[0, 7]]]]), "b": conv([[1, [[1, 3]]], [3, [[0, 7]]]]),
         "obs": [["union"], ["eq"], ["xor"]]},
        {"kind": "V2", "n": 3, "d": 0, "op": ["flatten"], "op2": ["flatten"], "ops": [conv([[0, [[1, [[2, 5]]]]]])]},
        {"kind": "J", "n": 3, "d": 0, "op": ["flatten"], "ops": [conv([[0, [[1, [[2, 5]]]]]])], "rej": 0},
    ], False)


def has_elem(t):
    return not isinstance(t, int) and len(t) > 0


def nontrivial(c):
    if c["kind"] in ("V", "V2", "J"):
        return any(has_elem(t) for t in c["ops"])
    return has_elem(c["a"]) or has_elem(c["b"])


def describe(c):
    if c["kind"] == "V2":
        return {"family": "two-step", "op": c["op"][0] + ">" + (c["op2"][1] if c["op2"][0] == "flatten" and len(c["op2"]) > 1 else c["op2"][0])}
    if c["kind"] == "J":
        return {"family": "rejected", "op": c["op"][0], "rej": c["rej"]}
    if c["kind"] == "V":
        op = c["op"][0] + ("-" + c["op"][1] if c["op"][0] in ("split", "arith") else "")
        return {"family": "value", "op": op, "level": "tensor" if c["n"] else "fiber",
                "default": c.get("d", 0),
                "explicit_default": any(U.has_explicit_default(unconv_any(t), 0) for t in c["ops"])}
    return {"family": "read-only", "ranks": c["n"], "observers": len(c["obs"]),
            "has_union_or_eq": any(o[0] in ("union", "xor", "eq") for o in c["obs"])}


def unconv_any(t):
    if isinstance(t, int):
        return t
    return [[c[-1], unconv_any(s)] for c, s in t]


# ------------------------------------------------------------------ implementation driver

def _apply_op(o, n, xs):
    import copy
    x = xs[0]
    k = o[0]
    if k == "copy":
        return copy.deepcopy(x) if n else x.copy()
    if k == "split":
        _, kind, arg, pre, post, rel, _shape = o
        kw = {"relativeCoords": rel, "pre_halo": pre, "post_halo": post}
        if kind == "uniform":
            return x.splitUniform(arg, **kw)
        if kind == "equal":
            return x.splitEqual(arg, **kw)
        if kind == "nonuniform":
            return x.splitNonUniform(list(arg), **kw)
        return x.splitUnEqual(list(arg), **kw)
    if k == "flatten":
        return x.mergeRanks() if len(o) > 1 and o[1] == "merge" else x.flattenRanks()
    if k == "unflatten":
        return x.unflattenRanks()
    if k == "swap":
        return x.swapRanks()
    if k == "arith":
        if o[1] == "adds":
            return x + o[2]
        if o[1] == "muls":
            return x * o[2]
        if o[1] == "addf":
            return x + xs[1]
        return x * xs[1]
    if k == "updcoords":
        kk = o[1]
        return x.updateCoords(lambda i, c, p: c + kk)
    if k == "updpay":
        kk = o[1]
        return x.updatePayloads(lambda i, c, p: p + kk, depth=n - 1)
    if k == "copynoowner":
        return x.getRoot().copy(preserve_owner=False)
    if k == "fromfiber":
        import c10_util as X
        from fibertree import Tensor
        if o[1] is None:
            return Tensor.fromFiber(rank_ids=X.RANKS[:n], fiber=x.getRoot(), shape=[X.SHAPE] * n)
        return Tensor.fromFiber(rank_ids=X.RANKS[1:n], fiber=x.getRoot().payloads[o[1]], shape=[X.SHAPE] * (n - 1))
    raise ValueError(k)


def _build_operands(case):
    import c10_util as X
    n, o = case["n"], case["op"]
    if n:
        flat = X.lit_width(case["ops"][0]) if o[0] == "unflatten" else 1
        return [X.build_tensor(t, n, flat, case.get("d", 0)) for t in case["ops"]]
    shape = o[6] if o[0] == "split" else None
    return [X.build_fiber(t, shape) for t in case["ops"]]


def _trace(xs, n, o):
    """snapshot, operation, snapshot both sides, mutate the result, snapshot, mutate the operands,
    snapshot the result; flag = attribute values (rank ids, shapes, formats, defaults, active
    ranges, owners, name) of the operands kept and no mutable rank-id list shared with the result"""
    import c10_util as X
    w = X.World()
    s0 = [X.snap(w, x) for x in xs]
    a0 = [X.attr_values(x) for x in xs]
    try:
        r = _apply_op(o, n, xs)
    except Exception as e:     # the generator stays inside the accepted domain; report the class
        return [-1, 1]
    s1 = [X.snap(w, x) for x in xs]
    flag = [X.attr_values(x) for x in xs] == a0
    ids_r = X.id_lists(r)
    flag = flag and not any(X.id_lists(x) & ids_r for x in xs)
    sr = X.snap(w, r)
    X.mutate(r, 7)
    s2 = [X.snap(w, x) for x in xs]
    sr1 = X.snap(w, r)
    seen = set()
    for x in xs:
        X.mutate(x, 5, seen)
    sr2 = X.snap(w, r)
    return [s0, s1, sr, s2, sr1, sr2, 1 if flag else 0]


def run_v(case):
    return _trace(_build_operands(case), case["n"], case["op"])


def run_v2(case):
    xs = _build_operands(case)
    try:
        r1 = _apply_op(case["op"], case["n"], xs)
    except Exception:
        return [-1, 3]
    return _trace([r1], res_ranks(case["n"], case["op"]), case["op2"])


def _rejected_call(r1, n1, k):
    """a call on r1 that must be refused; returns True if it raised"""
    from fibertree import Tensor
    calls = []
    if isinstance(r1, Tensor):
        calls = [lambda: r1.flattenRanks(depth=0, levels=n1 + 1),
                 lambda: r1.mergeRanks(depth=0, levels=n1 + 1),
                 lambda: r1.flattenRanks(depth=max(n1 - 1, 0), levels=2),
                 lambda: r1.swapRanks(depth=n1 - 1),
                 lambda: r1.unflattenRanks(depth=n1 + 1),
                 lambda: r1.splitUniform(2, depth=n1 + 1)]
    else:
        calls = [lambda: r1.flattenRanks(depth=0, levels=7),
                 lambda: r1.swapRanks() if not r1.payloads or not hasattr(r1.payloads[0], "coords") else r1.flattenRanks(levels=7),
                 lambda: r1.splitUniform(0)]
    try:
        calls[k % len(calls)]()
    except BaseException:
        return True
    return False


def run_j(case):
    import c10_util as X
    xs = _build_operands(case)
    try:
        r1 = _apply_op(case["op"], case["n"], xs)
    except Exception:
        return [-1, 3]
    w = X.World()
    s0 = X.snap(w, r1)
    a0 = X.attr_values(r1)
    if not _rejected_call(r1, res_ranks(case["n"], case["op"]), case["rej"]):
        return [-1, 2]
    s1 = X.snap(w, r1)
    return [[s0], [s1], 1 if X.attr_values(r1) == a0 else 0]


def _external(kind, A, B, n):
    """observers with no write in the model; returns False if two renderings/dumps differ"""
    import io, os, tempfile, contextlib
    ra, rb = A.getRoot(), B.getRoot()
    if kind == "isempty":
        ra.isEmpty()
        [f.isEmpty() for r in A.ranks for f in r.fibers]
    elif kind == "count":
        A.countValues()
        ra.countValues()
    elif kind == "shape":
        A.getShape()
        A.getShape(authoritative=True)
        ra.getShape()
        ra.estimateShape()
        ra.getActive()
        ra.getRankIds()
        A.getDepth()
        ra.maxCoord()
        ra.minCoord()
    elif kind == "len":
        len(ra)
        ra.getCoords()
        ra.getPayloads()
    elif kind == "iter":
        for _ in ra:
            pass
        for _ in ra.iterOccupancy():
            pass
        for _ in ra.iterShape():
            pass
        for _ in A:
            pass
    elif kind == "and":
        for _ in ra & rb:
            pass
    elif kind == "sub":
        for _ in ra - rb:
            pass
    elif kind == "str":
        return (str(A), repr(A), "%s" % ra, repr(ra), f"{ra:n}") == (str(A), repr(A), "%s" % ra, repr(ra), f"{ra:n}")
    elif kind == "yaml":
        outs = []
        for _ in range(2):
            fd, p = tempfile.mkstemp(suffix=".yaml")
            os.close(fd)
            try:
                A.dump(p)
                outs.append(open(p, "rb").read())
            finally:
                os.remove(p)
        return outs[0] == outs[1]
    elif kind == "format":
        from fibertree.model.format import Format
        spec = {rid: {"format": "C", "cbits": 8, "pbits": 16, "fhbits": 1, "rhbits": 2} for rid in A.getRankIds()}
        fm = Format(A, spec)
        v1 = (fm.getTensor(), [fm.getRank(r) for r in A.getRankIds()], fm.getSubTree())
        v2 = (fm.getTensor(), [fm.getRank(r) for r in A.getRankIds()], fm.getSubTree())
        return v1 == v2
    elif kind == "image":
        try:
            from fibertree.graphics.tree_image import TreeImage
            from fibertree.graphics.tensor_image import TensorImage
        except Exception:
            return True
        outs = []
        with contextlib.redirect_stdout(io.StringIO()):
            for _ in range(2):
                b = []
                for cls in (TreeImage, TensorImage):
                    im = cls(A).im
                    buf = io.BytesIO()
                    im.save(buf, format="PNG")
                    b.append(buf.getvalue())
                if n <= 2:
                    from fibertree.graphics.uncompressed_image import UncompressedImage
                    im = UncompressedImage(A).im
                    buf = io.BytesIO()
                    im.save(buf, format="PNG")
                    b.append(buf.getvalue())
                outs.append(b)
        return outs[0] == outs[1]
    return True


def run_r(case):
    import c10_util as X
    n = case["n"]
    w = X.World()
    A = X.build_tensor(case["a"], n)
    B = X.build_tensor(case["b"], n)
    s0 = [X.snap(w, A), X.snap(w, B)]
    a0 = [X.attr_values(A), X.attr_values(B)]
    ok = True
    for o in case["obs"]:
        if o[0] == "get":
            A.getPayload(*o[1])
        elif o[0] == "union":
            for _ in A.getRoot() | B.getRoot():
                pass
        elif o[0] == "xor":
            for _ in A.getRoot() ^ B.getRoot():
                pass
        elif o[0] == "eq":
            A.getRoot() == B.getRoot()
        elif o[0] == "iterunc":
            for _ in A.getRoot().iterUncompressed():
                pass
        else:
            ok = _external(o[1], A, B, n) and ok
    s1 = [X.snap(w, A), X.snap(w, B)]
    ok = ok and [X.attr_values(A), X.attr_values(B)] == a0
    return [s0, s1, 1 if ok else 0]


def run_impl(case):
    k = case["kind"]
    return run_v(case) if k == "V" else run_v2(case) if k == "V2" else run_j(case) if k == "J" else run_r(case)


def repro_py(case):
    return ("import sys; sys.path.insert(0,'/verif/harness'); sys.path.insert(0,'/verif/harness/props')\n"
            "import c10\ncase = %r\nobs = c10.run_impl(case)\nprint(obs)\n"
            "# value cases: obs = [operands before, operands after, result, operands after mutating the result,\n"
            "#   result after that, result after mutating the operands, attrs flag]; each snapshot = [structure, object numbers, rank lists, owner codes]\n"
            % (case,))


def shrinks(case):
    import copy

    def drops(t):
        for i in range(len(t)):
            c = copy.deepcopy(t)
            del c[i]
            yield c
        for i, (co, s) in enumerate(t):
            if not isinstance(s, int):
                for j in range(len(s)):
                    c = copy.deepcopy(t)
                    del c[i][1][j]
                    yield c
    if case["kind"] in ("V", "V2", "J"):
        for k in range(len(case["ops"])):
            for t in drops(case["ops"][k]):
                c = copy.deepcopy(case)
                c["ops"][k] = t
                yield c
    else:
        for i in range(len(case["obs"])):
            if len(case["obs"]) > 1:
                c = copy.deepcopy(case)
                del c["obs"][i]
                yield c
        for key in ("a", "b"):
            for t in drops(case[key]):
                c = copy.deepcopy(case)
                c[key] = t
                yield c


def search(disagreeing, rng, rnd):
    kinds = set()
    for c in disagreeing:
        if c["kind"] == "V":
            kinds.add(c["op"][0])
    out = []
    for _ in range(200):
        if kinds and rng.random() < 0.7:
            out.append(gen_v(rng, rng.choice(sorted(kinds))))
        else:
            out.append(gen_v(rng) if rng.random() < 0.6 else gen_r(rng))
    return out
