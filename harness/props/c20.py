"""C20 — Encoding a tensor in a compression format loses nothing (fibertree/codec)."""
import itertools
import coqlit as L
import ftutil as U

ID = "C20"
THEOREMS = ["C20_roundtrip", "C20_roundtrip_whole", "C20_lookup", "C20_scan_U", "C20_scan_C", "C20_scan_B",
            "C20_scan_B_mask", "C20_mask_positions", "C20_size_leaf", "C20_size_interior",
            "C20_arrays_are_fibers", "C20_model_meets_spec"]
COQ_IMPORTS = "From FT Require Import Model.Base Model.Obs Model.C20Codec Model.C20CodecCheck."
CHECK_VO = ["Model/C20CodecCheck.v"]
CHECKER = "c20_checker"
CASE_TYPE = "c20_case"
SHARD = 120

RULE = ("case = (tensor tree of depth 1-3 with rank shapes 1-5 incl. explicit zeros, empty sub-fibers, empty and "
        "all-zero tensors; one descriptor in {U,C,B}^depth - every tree is paired with all 3^depth descriptors; "
        "imposed shape absent or >= the tensor shape per rank; lookup queries -1..max dim+1; plus a history "
        "stream: tensor WITHOUT a declared shape built by getPayloadRef point insertion in two stages, between "
        "which its shape is read / it is encoded once / its fibers are queried, the second stage growing the "
        "extent - the model's shapes are the final extents); observation = "
        "payloads_root, coords_/payloads_ arrays per rank, and for every encoded fiber object of every level: "
        "format, coords, occupancies, leaf payloads, len(payloads), the slice scan through setupSlice/nextInSlice/"
        "handleToCoord/handleToPayload/payloadToValue, coordToHandle(q) per query, getSize(); scans are taken twice, "
        "fiber after fiber and interleaved in a depth-first walk (parent scan in flight while the children are "
        "scanned), lookups sequentially and round-robin over all fibers - the disciplines must agree. distinct = distinct "
        "canonical JSON of the case; non-trivial = tensor has at least one non-zero leaf")
TRUSTED = ["Coq 8.16.1 kernel (coqc; coqchk in the thorough tier); vm_compute used; native_compute not used",
           "Print Assumptions of every C20 theorem: Closed under the global context (no axioms)",
           "hand-written Gallina model coq/Model/C20Codec.v of fibertree/codec/tensor_codec.py and "
           "codec/formats/{uncompressed,coord_list,bitvector,compression_format}.py (with the proposed fixes S15 and "
           "S24 applied), tied to the working tree by the differential correspondence check of this run",
           "harness: harness/check.py, harness/props/c20.py, CPython 3.12 running the implementation",
           "rank shapes are inputs of the model (the tensor is built with an explicit shape); every tensor rank has "
           "fibertree format C, leaf default 0"]
ASSUMPTIONS = ["leaf default 0 and fibertree rank format C (the codec hard-codes 0 as the empty value and iterates "
               "with `for ind, val in a`)",
               "imposed shape >= tensor shape per rank (Codec.encode asserts it)",
               "the occupancy value returned by Uncompressed.encodeFiber (len(output_tensor[depth])) is outside the "
               "footprint: it is never written to an array and only stored in fields of U fibers that no modelled "
               "method reads",
               "the stub cache (get/__setitem__/miss_count) stands in for boltons LRU; cache contents and stats "
               "counters are not observed"]
EXPLANATION = ("theorems: layout-only decoder inverts the encoder's arrays for every descriptor and depth "
               "(content equality, exact consumption); ceiling-midpoint binary search = first stored coordinate "
               ">= query; slice scans of U/C/B fibers enumerate the layout's elements; getSize = word count of the "
               "layout; per-rank arrays = concatenation of the fibers' arrays; the oracle evaluated on the "
               "implementation's arrays and handle-API results is proved to hold of the model for all well-formed cases")

FMTS = "UCB"


def gen_tree(rng, depth=None):
    depth = depth or rng.choice([1, 2, 2, 3, 3])
    shapes = [rng.randint(1, 5) for _ in range(depth)]
    kind = rng.random()
    if kind < 0.06:
        tree = []                                     # empty tensor
    elif kind < 0.12:
        tree = U.gen_fiber(rng, depth, shapes, 0, p_zero=1.0)   # all-zero tensor (explicit zeros only)
    else:
        tree = U.gen_fiber(rng, depth, shapes, 0)
    return tree, shapes


def mk_case(rng, tree, shapes, desc):
    r = rng.random()
    if r < 0.4:
        imposed = None
    elif r < 0.5:
        imposed = list(shapes)
    else:
        imposed = [s + rng.choice([0, 1, 1, 2, 3]) for s in shapes]
    top = max(imposed or shapes)
    return {"tree": tree, "desc": "".join(desc), "shapes": shapes, "imposed": imposed,
            "queries": list(range(-1, top + 2))}


def all_points(tree, prefix=()):
    """every stored leaf (incl. explicit zeros) as [point, value], in stored order"""
    out = []
    for c, sub in tree:
        if isinstance(sub, int):
            out.append([list(prefix) + [c], sub])
        else:
            out += all_points(sub, prefix + (c,))
    return out


def est_shapes(tree, depth):
    """extent of the stored coordinates per rank (what a tensor without a declared shape reports)"""
    sh = [0] * depth

    def walk(t, k):
        for c, sub in t:
            sh[k] = max(sh[k], c + 1)
            if not isinstance(sub, int):
                walk(sub, k + 1)
    walk(tree, 0)
    return sh


MIDS = ["tensor_shape", "encode", "root_shape", "touch", "leaf_shape", "none"]


def gen_grown(rng):
    """T3/T4: a tensor WITHOUT a declared shape, built by point insertion in two stages; between the stages
    its shape is read / it is encoded once / its fibers are queried; the second stage usually inserts
    beyond the extent seen at that time.  The case's tree is the final tree, its shapes the final extents."""
    while True:
        depth = rng.choice([1, 2, 2, 3])
        dims = [rng.randint(2, 6) for _ in range(depth)]
        tree = U.gen_fiber(rng, depth, dims, 0, p_emptysub=0.0, p_zero=rng.choice([0.0, 0.0, 0.2]))
        pts = all_points(tree)
        if len(pts) >= 2:
            break
    tree = tree_of(pts)      # insertion never leaves an empty interior fiber behind
    shapes = est_shapes(tree, depth)
    order = list(pts)
    r = rng.random()
    if r < 0.6:
        # stage 2 holds the largest coordinates of some rank: the extent grows after the read
        k_rank = rng.randrange(depth)
        order.sort(key=lambda pv: (pv[0][k_rank], rng.random()))
    else:
        rng.shuffle(order)
    k = rng.randint(1, len(order) - 1)
    build = {"order": order, "k": k, "mid": rng.choice(MIDS)}
    fam = []
    for d in itertools.product(FMTS, repeat=depth):
        r = rng.random()
        imposed = None if r < 0.8 else [s_ + rng.choice([0, 1, 2]) for s_ in shapes]
        fam.append({"tree": tree, "desc": "".join(d), "shapes": shapes, "imposed": imposed,
                    "queries": list(range(-1, max(imposed or shapes) + 2)), "build": build})
    return fam


def gen_family(rng, depth=None):
    tree, shapes = gen_tree(rng, depth)
    return [mk_case(rng, tree, shapes, d) for d in itertools.product(FMTS, repeat=len(shapes))]


def streams(tier, rng):
    n = 45 if tier == "quick" else 700
    cases = []
    for _ in range(n):
        cases += gen_family(rng)
    yield ("random-all-descriptors", cases, False)
    # imposed-shape stress for the bit-vector / uncompressed lower ranks (S15)
    cases = []
    for _ in range(10 if tier == "quick" else 150):
        tree, shapes = gen_tree(rng, rng.choice([2, 3]))
        for d in itertools.product(FMTS, repeat=len(shapes)):
            if "B" in d[:-1]:
                c = mk_case(rng, tree, shapes, d)
                c["imposed"] = [s + rng.randint(1, 3) for s in shapes]
                c["queries"] = list(range(-1, max(c["imposed"]) + 2))
                cases.append(c)
    yield ("imposed-shape-under-B", cases, False)
    # wide masks: more than 32 bits per fiber (mask words in getSize), long coordinate lists
    cases = []
    for _ in range(12 if tier == "quick" else 120):
        dim = rng.choice([31, 32, 33, 64, 65, 70])
        coords = sorted(rng.sample(range(dim), rng.randint(0, min(dim, 18))))
        leaf = [[c, rng.randint(0, 9)] for c in coords]
        for d in FMTS:
            cases.append({"tree": leaf, "desc": d, "shapes": [dim], "imposed": None,
                          "queries": list(range(-1, dim + 2))})
        top = [[0, leaf]] if rng.random() < 0.5 else [[1, leaf], [2, []]]
        for d in itertools.product(FMTS, repeat=2):
            cases.append({"tree": top, "desc": "".join(d), "shapes": [3, dim], "imposed": None,
                          "queries": [-1, 0, 1, dim // 2, dim - 1, dim]})
    yield ("wide-fibers", cases, False)
    # T3/T4: no declared shape, built by insertion, read / encoded once, grown, then encoded
    cases = []
    for _ in range(14 if tier == "quick" else 200):
        cases += gen_grown(rng)
    yield ("grown-by-insertion-no-declared-shape", cases, False)
    if tier == "thorough":
        # exhaustive small scope: depth 2, shape 2x2; per interior coordinate absent / empty /
        # each leaf fiber over {absent, 0, v}^2; all 9 descriptors; natural and imposed shape
        leafs = []
        for a, b_ in itertools.product([None, 0, 3], [None, 0, 4]):
            leafs.append(([[0, a]] if a is not None else []) + ([[1, b_]] if b_ is not None else []))
        subs = [None] + leafs
        cases = []
        for a, b_ in itertools.product(subs, subs):
            t = ([[0, a]] if a is not None else []) + ([[1, b_]] if b_ is not None else [])
            for d in itertools.product(FMTS, repeat=2):
                for imp in (None, [3, 2], [2, 4]):
                    cases.append({"tree": t, "desc": "".join(d), "shapes": [2, 2], "imposed": imp,
                                  "queries": [-1, 0, 1, 2, 3]})
        yield ("exhaustive-2x2", cases, True)


def nontrivial(case):
    return bool(U.content(case["tree"], 0))


def describe(case):
    return {"depth": len(case["shapes"]), "desc": case["desc"],
            "imposed": "none" if case["imposed"] is None else
                       ("equal" if case["imposed"] == case["shapes"] else "larger"),
            "explicit_zero": U.has_explicit_default(case["tree"], 0),
            "empty_subfiber": U.has_empty_sub(case["tree"], 0),
            "all_zero": not U.content(case["tree"], 0),
            "build": ("insertion/" + case["build"]["mid"]) if "build" in case else "fromFiber+declared shape"}


def case_to_coq(c):
    fm = {"U": "FU", "C": "FC", "B": "FB"}
    return "(Build_c20_case %s %s %s %s %s)" % (
        L.tree(c["tree"]), L.lst(fm[x] for x in c["desc"]), L.zlist(c["shapes"]),
        L.opt(c["imposed"], L.zlist), L.zlist(c["queries"]))


class _Cache(dict):
    """stand-in for boltons.cacheutils.LRU: get / __setitem__ / miss_count"""
    miss_count = 0
    hit_count = 0

    def get(self, k, d=None):
        return dict.get(self, k, d)


def _build_by_insertion(case, depth):
    """Tensor(rank_ids=...) without a shape + getPayloadRef(point) <<= value, in two stages around a read"""
    from fibertree import Tensor, Codec
    b = case["build"]
    T = Tensor(rank_ids=U.RANK_NAMES[:depth])

    def store(items):
        for pt, v in items:
            ref = T.getRoot().getPayloadRef(*pt)
            ref <<= U.dress(v)
    store(b["order"][:b["k"]])
    mid = b["mid"]
    if mid == "tensor_shape":
        T.getShape()
    elif mid == "root_shape":
        T.getRoot().getShape()
    elif mid == "leaf_shape":
        f = T.getRoot()
        while f.payloads and hasattr(f.payloads[0], "coords"):
            f = f.payloads[0]
        f.getShape()
        f.getShape(all_ranks=False)
    elif mid == "touch":
        U.touch(T.getRoot())
        for rk in T.ranks:
            for f in list(rk.getFibers()):
                U.touch(f)
    elif mid == "encode":
        ranks = T.getRankIds()
        codec = Codec(tuple(case["desc"]), [True] * depth)
        out = codec.get_output_dict(ranks)
        try:
            codec.encode(-1, T.getRoot(), ranks, out, [[] for _ in range(depth + 1)], shape=None)
        except Exception:
            pass
    store(b["order"][b["k"]:])
    return T


def _z(x):
    """an integer word of an array; integral floats / int subclasses are their value, anything else is kept
    (coqlit marks it, so it differs from every model observation)"""
    x = U.undress(x)
    return int(x) if isinstance(x, int) else x


def _o(x):
    return [] if x is None else [_z(x)]


def run_impl(case):
    from fibertree import Codec
    from fibertree.codec.formats.uncompressed import Uncompressed
    from fibertree.codec.formats.coord_list import CoordinateList
    from fibertree.codec.formats.bitvector import Bitvector
    depth = len(case["shapes"])
    if "build" in case:
        T = _build_by_insertion(case, depth)
    else:
        T = U.build_tensor(case["tree"], depth, case["shapes"], 0)
    ranks = T.getRankIds()
    codec = Codec(tuple(case["desc"]), [True] * depth)
    out = codec.get_output_dict(ranks)
    ot = [[] for _ in range(depth + 1)]
    codec.encode(-1, T.getRoot(), ranks, out, ot, shape=case["imposed"])
    arrays = []
    for r in ranks:
        arrays.append([[int(x) for x in out["coords_" + r.lower()]],
                       [_z(x) for x in out["payloads_" + r.lower()]]])
    levels = []
    cache = _Cache()
    for lvl in range(1, depth + 1):
        leaf = lvl == depth
        fl = []
        for f in ot[lvl]:
            f.cache = cache
            code = 0 if isinstance(f, Uncompressed) else 1 if isinstance(f, CoordinateList) else \
                2 if isinstance(f, Bitvector) else 9
            vals = [_z(p) for p in f.payloads] if leaf else []
            # slice scan through the fiber's own handle interface
            f.setupSlice(0)
            scan = []
            for _ in range(4 * (len(f.coords) + len(f.payloads)) + 16):
                h = f.nextInSlice()
                if h is None:
                    break
                c = f.handleToCoord(h)
                p = f.handleToPayload(h)
                v = f.payloadToValue(p) if (leaf and p is not None) else None
                scan.append([_o(c), _o(p), _o(v)])
            else:
                scan.append([[-7], [-7], [-7]])      # the scan did not terminate
            lookups = [_o(f.coordToHandle(q)) for q in case["queries"]]
            try:
                size = int(f.getSize())
            except AssertionError:
                size = -1
            fl.append([code, [int(x) for x in f.coords], [int(x) for x in f.occupancies], vals,
                       len(f.payloads), scan, lookups, size])
        levels.append(fl)
    _interleaved(case, ot, depth, levels)
    return [[int(x) for x in out["payloads_root"]], arrays, levels]


def _interleaved(case, ot, depth, levels):
    """The property speaks of scanning EACH fiber through ITS OWN handle interface: what one fiber yields
    may not depend on what is done to other fibers meanwhile.  Besides the fiber-after-fiber pass above,
    every fiber is therefore scanned a second time during a depth-first walk (a parent's scan is in flight
    while each of its children is scanned completely, as a loop nest over the encoded tensor does), and
    every lookup is repeated round-robin over all fibers.  On a correct implementation both disciplines
    give the same per-fiber results, which is what the model describes; if they differ the interleaved
    result is reported, closed by a [-8] marker (no model observation contains one)."""
    from fibertree.codec.formats.uncompressed import Uncompressed
    from fibertree.codec.formats.bitvector import Bitvector

    def nchildren(f):
        return int(f.shape) if isinstance(f, Uncompressed) else \
            sum(1 for b in f.coords if b) if isinstance(f, Bitvector) else len(f.coords)
    base = {}
    for lvl in range(1, depth):
        n = 0
        for i, f in enumerate(ot[lvl]):
            base[(lvl, i)] = n
            n += nchildren(f)
    dfs = {}

    def walk(lvl, i):
        f = ot[lvl][i]
        leaf = lvl == depth
        f.setupSlice(0)
        res = []
        e = 0
        for _ in range(4 * (len(f.coords) + len(f.payloads)) + 16):
            h = f.nextInSlice()
            if h is None:
                break
            c = f.handleToCoord(h)
            p = f.handleToPayload(h)
            v = f.payloadToValue(p) if (leaf and p is not None) else None
            res.append([_o(c), _o(p), _o(v)])
            if not leaf:
                j = base[(lvl, i)] + e
                if j < len(ot[lvl + 1]) and (lvl + 1, j) not in dfs:
                    walk(lvl + 1, j)
            e += 1
        else:
            res.append([[-7], [-7], [-7]])
        dfs[(lvl, i)] = res
    if ot[1]:
        walk(1, 0)
    # lookups, one query at a time over all fibers (deepest level first, so that consecutive calls hit
    # different fibers of the same format)
    fibers = [(lvl, i) for lvl in range(depth, 0, -1) for i in range(len(ot[lvl]))]
    rr = {k: [] for k in fibers}
    for q in case["queries"]:
        for (lvl, i) in fibers:
            rr[(lvl, i)].append(_o(ot[lvl][i].coordToHandle(q)))
    for (lvl, i) in fibers:
        rec = levels[lvl - 1][i]
        got = dfs.get((lvl, i))
        if got != rec[5]:
            rec[5] = (got or []) + [[[-8], [-8], [-8]]]
        if rr[(lvl, i)] != rec[6]:
            rec[6] = rr[(lvl, i)] + [[-8]]


def repro_py(case):
    return ("import sys, io, contextlib; sys.path.insert(0,'/verif/harness'); import ftutil as U\n"
            "from fibertree import Codec\n"
            "T = U.build_tensor(%r, %d, %r, 0)\n"
            "codec = Codec(tuple(%r), [True]*%d); out = codec.get_output_dict(T.getRankIds())\n"
            "ot = [[] for _ in range(%d)]\n"
            "with contextlib.redirect_stdout(io.StringIO()):\n"
            "    codec.encode(-1, T.getRoot(), T.getRankIds(), out, ot, shape=%r)\n"
            "print(out)\n"
            "for lvl in ot[1:]:\n"
            "    for f in lvl:\n"
            "        try: s = f.getSize()\n"
            "        except AssertionError as e: s = 'AssertionError'\n"
            "        print(type(f).__name__, f.coords, f.occupancies, len(f.payloads), s)\n" % (
                case["tree"], len(case["shapes"]), case["shapes"], case["desc"], len(case["shapes"]),
                len(case["shapes"]) + 1, case["imposed"]))


def tree_of(order):
    """tree literal holding exactly the inserted points (coordinates sorted)"""
    def ins(t, pt, v):
        for e in t:
            if e[0] == pt[0]:
                if len(pt) > 1:
                    ins(e[1], pt[1:], v)
                else:
                    e[1] = v
                return
        t.append([pt[0], v if len(pt) == 1 else []])
        t.sort(key=lambda e: e[0])
        if len(pt) > 1:
            ins([e for e in t if e[0] == pt[0]][0][1], pt[1:], v)
    t = []
    for pt, v in order:
        ins(t, pt, v)
    return t


def shrinks(case):
    import copy
    if "build" in case:
        # the tree and the shapes are functions of the insertion history: shrink the history
        b = case["build"]
        depth = len(case["shapes"])
        for i in range(len(b["order"])):
            if len(b["order"]) <= 2:
                break
            c = copy.deepcopy(case)
            del c["build"]["order"][i]
            k = b["k"] - (1 if i < b["k"] else 0)
            c["build"]["k"] = min(max(k, 1), len(c["build"]["order"]) - 1)
            c["tree"] = tree_of(c["build"]["order"])
            c["shapes"] = est_shapes(c["tree"], depth)
            if c["imposed"] is not None:
                c["imposed"] = [max(a, b_) for a, b_ in zip(c["imposed"], c["shapes"])]
            yield c
        if case["imposed"] is not None:
            c = copy.deepcopy(case)
            c["imposed"] = None
            yield c
        if len(case["queries"]) > 1:
            for i in range(len(case["queries"])):
                c = copy.deepcopy(case)
                del c["queries"][i]
                yield c
        return
    t = case["tree"]
    for i in range(len(t)):
        c = copy.deepcopy(case)
        del c["tree"][i]
        yield c
    for i, (co, s) in enumerate(t):
        if not isinstance(s, int):
            for j in range(len(s)):
                c = copy.deepcopy(case)
                del c["tree"][i][1][j]
                yield c
                if not isinstance(s[j][1], int):
                    for k in range(len(s[j][1])):
                        c = copy.deepcopy(case)
                        del c["tree"][i][1][j][1][k]
                        yield c
    if case["imposed"] is not None:
        c = copy.deepcopy(case)
        c["imposed"] = None
        yield c
        for i in range(len(case["imposed"])):
            if case["imposed"][i] > case["shapes"][i]:
                c = copy.deepcopy(case)
                c["imposed"][i] -= 1
                yield c
    if len(case["queries"]) > 1:
        for i in range(len(case["queries"])):
            c = copy.deepcopy(case)
            del c["queries"][i]
            yield c


def search(disagreeing, rng, rnd):
    out = []
    for _ in range(12):
        out += gen_family(rng)
    return out
