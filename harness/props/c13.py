"""C13 — conversions between representations are lossless
(fromUncompressed / uncompress, dictionary and YAML form, fromRandom)."""
import os, json, itertools
import coqlit as L
import ftutil as U

ID = "C13"
THEOREMS = ["C13_fromUncompressed_content", "C13_fromUncompressed_canonical", "C13_shape",
            "C13_roundtrip", "C13_dict_roundtrip", "C13_tensor_yaml_roundtrip_partial",
            "C13_random_inside", "C13_random_full", "C13_oracle_sound_built", "C13_oracle_points",
            "C13_model_meets_spec", "C13_fiber_alldefault_shape_refuted", "C13_yaml_default_refuted",
            "C13_yaml_tuple_refuted"]
COQ_IMPORTS = "From FT Require Import Model.Base Model.Obs Model.C13Convert Model.C13Check."
CHECK_VO = ["Model/C13Check.v"]
CHECKER = "c13_checker"
CASE_TYPE = "c13_case"
SHARD = 120

RULE = ("case kinds: nest = (fiber|tensor path, default, rectangular nest of depth 1-4 incl. all-default "
        "nests and all-default rows, int / dyadic-float entries); tree = (tensor of depth 0-3 incl. explicit "
        "defaults and empty sub-fibers, default, name, shape, optionally flattened to tuple coordinates); "
        "rand = (shape, density scalar or per rank, interval, default, injected draw stream, seed). "
        "observation = built tree, shape, uncompress(shape) and uncompress(); dictionary form, "
        "dict2fiber(fiber2dict), fiber and tensor YAML dump->load (both loaders) with rank ids, shape, name, "
        "tree and == (the dict `==` flag also requires dict2fiber(fiber2dict) to reproduce exactly, tuple nesting included, every tuple-coordinate variant of the tensor: flattened 1-2 levels at depth 0-1, styles tuple/pair, pair twice); fromRandom tree over the injected stream plus reproducibility/inside/full flags "
        "for the real PRNG. default=None (no empty value; fromUncompressed, makePopulated, fromFiber+YAML, "
        "fromRandom) is the sentinel default -999983 that never occurs as a payload, None handed to the "
        "implementation and mapped back; shared representation modes: int / float / int-subclass values "
        "(not the subclass through YAML), read-only query battery between building and converting, fibers "
        "of tree cases built in two stages. distinct = distinct canonical JSON; non-trivial = nest/tree has "
        "a non-default entry, or a random case with non-zero density")
TRUSTED = ["Coq 8.16.1 kernel (coqc; coqchk in the thorough tier); vm_compute used; native_compute not used",
           "Print Assumptions of every C13 theorem: Closed under the global context (no axioms)",
           "hand-written Gallina model coq/Model/C13Convert.v of fiber.py/tensor.py/payload.py conversion code, "
           "tied to the implementation by the differential correspondence check of this run",
           "harness: harness/check.py, harness/props/c13.py, CPython 3.12 running the implementation",
           "PyYAML dump/safe_load (the YAML text layer) and the Mersenne Twister behind random.seed are outside "
           "the model: exercised by the correspondence only",
           "values: Python ints and dyadic floats are mapped to Z by x -> x or x -> 2x (exact); int vs float "
           "type is not modelled (the code compares with == only)"]
ASSUMPTIONS = ["default=None behaves like a default value that no payload ever equals (the model's default is "
               "an integer; the sentinel never occurs in a generated nest, tree or draw)",
               "0 <= random.random() < 1 and 1 <= random.randint(1, n) <= n (the abstract stream has these by "
               "construction)",
               "rank ids and names are opaque (round-tripped by PyYAML as strings)",
               "== of fibers compares content over non-empty elements (property C12)"]
EXPLANATION = ("theorems: make_fiber gives the nest as a map with nothing empty stored, shape = dims, "
               "uncompress(make_fiber n) = n for all rectangular nests incl. all-default; dict and tensor "
               "dictionary round trips; from_random inside the shape, full at density 1, prefix-determined; "
               "oracle c13_holds evaluated on the implementation's outputs")

NAMES = ["", "A", "foo", "my tensor", "Z_1"]
ERR = {"AssertionError": 1, "IndexError": 3, "TypeError": 4, "SystemExit": 6}


# ------------------------------------------------------------------ values
# mode 0: Z = the int itself; mode 1: Z = 2x, odd -> float, even -> int;
# mode 2: Z = 2x, every entry and the default are floats; mode 3: entries floats, default int
#
# default=None ("no empty value": Tensor.makePopulated, fromRandom, Fiber(default=None)) is the sentinel
# NONE_D in the case: a value that never occurs as a payload, so in the model nothing equals the default
# and nothing is empty - exactly what None means.  The implementation is handed None; a None that comes
# back (as the default, or as a fill value) is mapped to NONE_D again.
# In mode 0 the values take the shared representation mode (U.dress: int / float / int subclass).
NONE_D = -999983


def dec(z, mode, is_default=False):
    if z == NONE_D:
        assert is_default, "the sentinel never occurs as a payload"
        return None
    if mode == 0:
        return U.dress(z) if DRESS else z
    if mode == 1:
        return z // 2 if z % 2 == 0 else z / 2.0
    if mode == 2 or not is_default:
        return z / 2.0
    return z // 2 if z % 2 == 0 else z / 2.0


DRESS = True      # run_tree switches it off for int-subclass values (see there)


def enc(x, mode):
    if x is None:
        return NONE_D
    x = U.undress(x) if mode == 0 else x
    if isinstance(x, bool) or not isinstance(x, (int, float)):
        raise TypeError("not a number: %r" % (x,))
    z = x if mode == 0 else 2 * x
    zi = int(z)
    if zi != z:
        raise TypeError("not exactly representable: %r" % (x,))
    return zi


def dec_nest(n, mode):
    return [dec_nest(x, mode) for x in n] if isinstance(n, list) else dec(n, mode)


def enc_nest(n, mode):
    return [enc_nest(x, mode) for x in n] if isinstance(n, list) else enc(n, mode)


# ------------------------------------------------------------------ generators

def gen_nest(rng, dims, d, p_def, p_row):
    if len(dims) == 1:
        out = []
        for _ in range(dims[0]):
            if rng.random() < p_def:
                out.append(d)
            else:
                v = rng.randint(-2, 9)
                out.append(v)
        return out
    out = []
    for _ in range(dims[0]):
        if rng.random() < p_row:
            out.append(gen_nest(rng, dims[1:], d, 1.0, 0.0))
        else:
            out.append(gen_nest(rng, dims[1:], d, p_def, p_row))
    return out


def gen_nest_case(rng, depth=None, tensor=None):
    depth = depth or rng.choice([1, 2, 2, 3, 3, 4])
    while True:
        dims = [rng.randint(1, 4) for _ in range(depth)]
        vol = 1
        for s in dims:
            vol *= s
        if vol <= 48:
            break
    mode = rng.choice([0, 0, 1, 2, 3])
    d = rng.choice([0, 0, 0, 3, -1, 1]) * (1 if mode == 0 else 2)
    if mode == 1 and rng.random() < 0.3:
        d = rng.choice([1, 5])             # a float default (0.5 / 2.5)
    p_def = rng.choice([0.0, 0.3, 0.6, 0.9, 1.0])
    p_row = rng.choice([0.0, 0.3, 0.6])
    tp = rng.random() < 0.5 if tensor is None else tensor
    if rng.random() < 0.2:
        # default=None: every entry is stored; zeros (the value a None is most easily confused with)
        # and all-zero rows are frequent
        pz = rng.choice([0.2, 0.5, 0.9, 1.0])
        n = gen_nest(rng, dims, 0, pz, p_row)
        c = {"kind": "nest", "tensor": tp, "d": NONE_D, "dims": dims, "nest": n, "mode": mode}
        if tp and rng.random() < 0.3:
            # Tensor.makePopulated(rank_ids, shape, initial) = fromUncompressed of the constant nest
            v = rng.choice([0, 0, 1, 7])
            c["nest"] = gen_nest(rng, dims, v, 1.0, 0.0)
            c["populated"] = True
        return c
    n = gen_nest(rng, dims, d, p_def, p_row)
    return {"kind": "nest", "tensor": tp, "d": d, "dims": dims, "nest": n, "mode": mode}


def gen_tree_case(rng):
    depth = rng.choice([0, 1, 2, 2, 3])
    mode = rng.choice([0, 0, 1])
    d = rng.choice([0, 0, 0, 3]) * (1 if mode == 0 else 2)
    if depth == 0:
        return {"kind": "tree", "d": 0, "ids": [], "shape": [], "name": rng.randrange(len(NAMES)),
                "tree": rng.randint(-3, 9), "flat": False, "mode": mode}
    shapes = [rng.randint(1, 5) for _ in range(depth)]
    if rng.random() < 0.15:
        # default=None (the sentinel is never stored; zeros are ordinary values - with one stored the
        # case lies in region 2, the YAML form records no default)
        d = NONE_D
        tree = U.gen_fiber(rng, depth, shapes, d, p_zero=0.0, vals=rng.choice([(-2, 9), (1, 9)]))
    else:
        tree = U.gen_fiber(rng, depth, shapes, d, vals=(-2, 9))
    ids = rng.sample(range(len(U.RANK_NAMES)), depth)
    flat = depth >= 2 and rng.random() < 0.15
    return {"kind": "tree", "d": d, "ids": ids, "shape": shapes, "name": rng.randrange(len(NAMES)),
            "tree": tree, "flat": flat, "mode": mode}


def gen_rand_case(rng):
    depth = rng.choice([1, 2, 2, 3])
    shape = [rng.choice([0, 1, 2, 3, 4]) if rng.random() < 0.1 else rng.randint(1, 4) for _ in range(depth)]
    scalar = rng.random() < 0.5
    dens_vals = [0, 300, 500, 1000, 1000]
    if scalar:
        dens = [rng.choice(dens_vals)]
    else:
        dens = [rng.choice(dens_vals + [1000, 1000]) for _ in range(depth)]
    interval = rng.choice([1, 3, 10])
    d = rng.choice([0, 0, 0, 2, 11, -1, NONE_D])
    if d != 0 and not scalar:
        # a non-selected coordinate of an upper rank stores the *leaf* value 0 when default != 0
        # (fiber.py:511-515); Tensor.fromFiber cannot take such a tree - keep the upper ranks dense
        # (for default=None fromRandom asserts it, fiber.py:489)
        dens = [1000] * (depth - 1) + [dens[-1]]
    vol = 1
    for s in shape:
        vol *= max(s, 1)
    k = rng.choice([0, vol, 3 * vol + 3, 3 * vol + 3])
    # draws on and next to the density thresholds are frequent (the comparison is a strict <)
    edge = sorted({x % 1000 for x in dens} | {(x - 1) % 1000 for x in dens} | {0, 999})
    draws = [rng.choice(edge) + 1000 * rng.randint(0, 9) if rng.random() < 0.25 else rng.randint(0, 9999)
             for _ in range(k)]
    return {"kind": "rand", "shape": shape, "dens": dens, "scalar": scalar, "interval": interval,
            "d": d, "draws": draws, "seed": rng.randint(0, 10 ** 6)}


def py_region(c):
    if c["kind"] == "nest":
        def alld(n):
            return all(alld(x) for x in n) if isinstance(n, list) else n == c["d"]
        return 3 if (not c["tensor"] and len(c["dims"]) >= 2 and alld(c["nest"])) else 0
    if c["kind"] == "tree":
        if c["flat"]:
            return 1

        def leaves(t):
            if isinstance(t, int):
                yield t
            else:
                for _, s in t:
                    yield from leaves(s)
        if c["d"] != 0 and any(v in (0, c["d"]) for v in leaves(c["tree"])):
            return 2
    return 0


def known_regions():
    if os.environ.get("C13_INCLUDE_REGIONS"):
        return {1, 2, 3}
    p = os.path.join(os.path.dirname(os.path.dirname(os.path.dirname(os.path.abspath(__file__)))),
                     "known_findings.json")
    try:
        return {k["region"] for k in json.load(open(p)) if k.get("property") == ID and k.get("status") == "known"}
    except Exception:
        return set()


WITNESSES = [
    {"kind": "tree", "d": 0, "ids": [0, 1], "shape": [2, 3], "name": 2,
     "tree": [[1, [[1, 1], [2, 2]]]], "flat": True, "mode": 0},
    {"kind": "tree", "d": 3, "ids": [0, 1], "shape": [2, 3], "name": 2,
     "tree": [[0, [[2, 0]]], [1, [[1, 1], [2, 2]]]], "flat": False, "mode": 0},
    {"kind": "nest", "tensor": False, "d": 0, "dims": [2, 2], "nest": [[0, 0], [0, 0]], "mode": 0},
]


def all_nests(dims, vals):
    if len(dims) == 1:
        return [list(t) for t in itertools.product(vals, repeat=dims[0])]
    subs = all_nests(dims[1:], vals)
    return [list(t) for t in itertools.product(subs, repeat=dims[0])]


def streams(tier, rng):
    quick = tier == "quick"
    kr = known_regions()
    nn, nt, nr = (500, 300, 300) if quick else (8000, 4000, 4000)
    nests = [gen_nest_case(rng) for _ in range(nn)]
    # all-default nests of every depth, both paths, defaults 0 and non-0 (S10)
    for depth in (1, 2, 3, 4):
        for tp in (False, True):
            for d in (0, 3):
                dims = [rng.randint(1, 3) for _ in range(depth)]
                nests.append({"kind": "nest", "tensor": tp, "d": d, "dims": dims,
                              "nest": gen_nest(rng, dims, d, 1.0, 0.0), "mode": 0})
    # default=None nests made of zeros only, every depth, both paths and makePopulated
    for depth in (1, 2, 3, 4):
        dims = [rng.randint(1, 3) for _ in range(depth)]
        for tp, pop in ((False, False), (True, False), (True, True)):
            c = {"kind": "nest", "tensor": tp, "d": NONE_D, "dims": dims,
                 "nest": gen_nest(rng, dims, 0, 1.0, 0.0), "mode": rng.choice([0, 2])}
            if pop:
                c["populated"] = True
            nests.append(c)
    trees = [gen_tree_case(rng) for _ in range(nt)]
    rands = [gen_rand_case(rng) for _ in range(nr)]
    main = [c for c in nests + trees + rands if py_region(c) == 0]
    yield ("nest", [c for c in main if c["kind"] == "nest"], False)
    yield ("tree", [c for c in main if c["kind"] == "tree"], False)
    yield ("rand", [c for c in main if c["kind"] == "rand"], False)
    per = 25 if quick else 250
    inreg = []
    for r in sorted(kr):
        inreg += [c for c in WITNESSES + nests + trees if py_region(c) == r][:per]
    if inreg:
        yield ("known-witness", inreg, False)
    # exhaustive small scope: every 2x2 and 3-long nest over {default, 1, 2}, both paths, d in {0, 2}
    cases = []
    for dims in ([3], [2, 2], [1, 2, 2]) if quick else ([3], [4], [2, 2], [2, 3], [1, 2, 2], [2, 2, 2]):
        for d in (0, 2, NONE_D):
            for n in all_nests(dims, [0, 1, 2]):
                for tp in (False, True):
                    c = {"kind": "nest", "tensor": tp, "d": d, "dims": dims, "nest": n, "mode": 0}
                    if py_region(c) == 0:
                        cases.append(c)
    yield ("exhaustive-small-nests", cases, True)


def nontrivial(c):
    if c["kind"] == "nest":
        def alld(n):
            return all(alld(x) for x in n) if isinstance(n, list) else n == c["d"]
        return not alld(c["nest"])
    if c["kind"] == "tree":
        return c["tree"] != []
    return any(x > 0 for x in c["dens"])


def describe(c):
    r = {"kind": c["kind"], "region": py_region(c)}
    if c["kind"] == "nest":
        r.update(depth=len(c["dims"]), path="tensor" if c["tensor"] else "fiber", mode=c["mode"],
                 all_default=not nontrivial(c), default="None" if c["d"] == NONE_D else c["d"] != 0,
                 populated=bool(c.get("populated")))
    elif c["kind"] == "tree":
        r.update(depth=len(c["shape"]), flat=c["flat"], default="None" if c["d"] == NONE_D else c["d"] != 0,
                 explicit_default=U.has_explicit_default(c["tree"], c["d"]) if c["shape"] else False,
                 empty_subfiber=U.has_empty_sub(c["tree"], c["d"]) if c["shape"] else False)
    else:
        r.update(depth=len(c["shape"]), scalar=c["scalar"], full=all(x >= 1000 for x in c["dens"]),
                 default="None" if c["d"] == NONE_D else c["d"] != 0, draws=len(c["draws"]) > 0)
    return r


# ------------------------------------------------------------------ Coq literals

def nest_lit(n):
    if isinstance(n, list):
        return "(NList %s)" % L.lst(nest_lit(x) for x in n)
    return "(NLeaf %s)" % L.z(n)


def case_to_coq(c):
    if c["kind"] == "nest":
        return "(KNest %s %s %s %s)" % (L.b(c["tensor"]), L.z(c["d"]), L.zlist(c["dims"]), nest_lit(c["nest"]))
    if c["kind"] == "tree":
        T = "(Build_tens %s %s %s %s)" % (L.zlist(c["ids"]), L.zlist(c["shape"]), L.z(c["name"]), L.tree(c["tree"]))
        return "(KTree %s %s %s)" % (L.z(c["d"]), T, L.b(c["flat"]))
    return "(KRand %s %s %s %s %s %s %s)" % (L.zlist(c["shape"]), L.zlist(c["dens"]), L.b(c["scalar"]),
                                             L.z(c["interval"]), L.z(c["d"]), L.zlist(c["draws"]), L.z(c["seed"]))


# ------------------------------------------------------------------ implementation side

def _err(e):
    return [-1, ERR.get(type(e).__name__, 5)]


def _try(fn):
    try:
        return fn()
    except (Exception, SystemExit) as e:
        return _err(e)


def _snap(f, mode):
    """structural snapshot with leaves encoded; a rank-0 root (Payload) -> the value"""
    from fibertree import Fiber, Payload
    if not isinstance(f, Fiber):
        return enc(Payload.get(f), mode)
    out = []
    for c, p in zip(f.coords, f.payloads):
        if isinstance(p, Fiber):
            out.append([c, _snap(p, mode)])
        else:
            if not isinstance(p, Payload) or isinstance(p.value, Payload):
                out.append([c, [-2, 0]])
            else:
                out.append([c, enc(p.value, mode)])
    return out


def _build_fiber(t, mode):
    """tree literal -> Fiber; in the shared "touch" mode every fiber is built in two stages around a
    battery of read-only queries (anything a read remembers is stale when the conversion runs)"""
    from fibertree import Fiber
    coords = [c for c, _ in t]
    pays = [dec(s, mode) if isinstance(s, int) else _build_fiber(s, mode) for _, s in t]
    if U.MODE["touch"] and len(coords) >= 2:
        f = Fiber(coords[:-1], pays[:-1])
        U.touch(f)
        f.append(coords[-1], pays[-1])
        return f
    f = Fiber(coords, pays)
    if U.MODE["touch"]:
        U.touch(f)
    return f


def _dict_v(y, mode):
    if isinstance(y, dict) and "fiber" in y:
        return [list(y["fiber"]["coords"]), [_dict_v(p, mode) for p in y["fiber"]["payloads"]]]
    return enc(y, mode)


def _exact(f):
    """a fiber's coordinates and payloads with their exact Python structure (tuple vs list, nesting)"""
    from fibertree import Fiber, Payload
    return [repr(list(f.coords)),
            [_exact(p) if isinstance(p, Fiber) else repr(Payload.get(p)) for p in f.payloads]]


def _tuple_dict_exact(T):
    """dict2fiber(fiber2dict(f)) reproduces f exactly (and ==) for the tuple-coordinate variants of the
    tensor: flattened over 1 or 2 levels at depth 0 or 1, styles "tuple" and "pair", and pair-flattened twice
    (nested tuples on either side).  A variant whose flattening itself raises is skipped (C09's business);
    an exception in the dictionary round trip is a failure.  Folded into the `root == back` observation."""
    from fibertree import Fiber
    n = len(T.getRankIds())
    variants = []
    for depth in (0, 1):
        for levels in (1, 2):
            if depth + levels + 1 <= n:
                for style in ("tuple", "pair"):
                    variants.append(lambda d=depth, l=levels, s=style: T.flattenRanks(depth=d, levels=l, coord_style=s))
    if n >= 3:
        variants.append(lambda: T.flattenRanks(coord_style="pair").flattenRanks(coord_style="pair"))
        variants.append(lambda: T.flattenRanks(depth=1, coord_style="pair").flattenRanks(coord_style="pair"))
    for mk in variants:
        try:
            f = mk().getRoot()
        except Exception:
            continue
        try:
            b = Fiber.dict2fiber(f.fiber2dict())
            if _exact(b) != _exact(f) or not (f == b) or not (b == f):
                return False
        except Exception:
            return False
    return True


def run_nest(c):
    from fibertree import Fiber, Tensor
    mode = c["mode"]
    nest = dec_nest(c["nest"], mode)
    d = dec(c["d"], mode, True)
    dims = c["dims"]
    ids = U.RANK_NAMES[:len(dims)]
    if c.get("populated"):
        # the constant nest, built by the library itself (default=None is makePopulated's own default)
        flat = nest
        while isinstance(flat, list):
            flat = flat[0]
        T = Tensor.makePopulated(ids, list(dims), initial=flat) if d is None else \
            Tensor.makePopulated(ids, list(dims), initial=flat, default=d)
        f = T.getRoot()
        shape = T.getShape()
    elif c["tensor"]:
        T = Tensor.fromUncompressed(ids, nest, default=d)
        f = T.getRoot()
        shape = T.getShape()
    else:
        f = Fiber.fromUncompressed(nest, default=d)
        shape = f.getShape()
    if U.MODE["touch"]:
        U.touch(f)                            # read-only queries between building and uncompressing
    tree = _snap(f, mode)
    u1 = _try(lambda: enc_nest(f.uncompress(shape=list(dims)), mode))
    u2 = _try(lambda: enc_nest(f.uncompress(), mode))
    tree_after = _snap(f, mode)
    if tree_after != tree:
        tree = [-2, 1]                       # uncompress must not change the tree
    return [tree, list(shape), u1, u2]


def _tens_obs(T, T2, mode):
    ids = [U.RANK_NAMES.index(r) if r in U.RANK_NAMES else -9 for r in T2.getRankIds()]
    nm = NAMES.index(T2.getName()) if T2.getName() in NAMES else -9
    return [ids, list(T2.getShape()), nm, _snap(T2.getRoot(), mode), bool(T == T2)]


def run_tree(c):
    import tempfile, shutil
    from fibertree import Fiber, Tensor, Payload
    global DRESS
    mode = c["mode"]
    # an int *subclass* payload is not a YAML scalar (PyYAML dumps it as a python/object tag, which is
    # the harness's doing, not fibertree's): the YAML cases keep plain ints / floats
    DRESS = U.MODE["vkind"] != "sub"
    try:
        return _run_tree(c)
    finally:
        DRESS = True


def _run_tree(c):
    import tempfile, shutil
    from fibertree import Fiber, Tensor, Payload
    mode = c["mode"]
    d = dec(c["d"], mode, True)
    tmp = tempfile.mkdtemp(prefix="c13_")
    try:
        fn = os.path.join(tmp, "t.yaml")
        if not c["shape"]:
            T = Tensor.fromUncompressed([], dec(c["tree"], mode))
            T.setName(NAMES[c["name"]])
        else:
            T = Tensor.fromFiber(rank_ids=[U.RANK_NAMES[i] for i in c["ids"]], fiber=_build_fiber(c["tree"], mode),
                                 shape=list(c["shape"]), name=NAMES[c["name"]], default=d)
            if U.MODE["touch"]:
                U.touch(T.getRoot())
        if c["flat"]:
            F = T.flattenRanks()
            F.dump(fn)

            def load(loader):
                F2 = loader(fn)
                return [F2.getRankIds() == F.getRankIds(), list(F2.getShape()) == list(F.getShape()),
                        F2.getName() == F.getName(), bool(F == F2)]
            return [_try(lambda: load(Tensor.fromYAMLfile)), _try(lambda: load(lambda f: Tensor(f)))]
        T.dump(fn)
        o1 = _try(lambda: _tens_obs(T, Tensor.fromYAMLfile(fn), mode))
        o2 = _try(lambda: _tens_obs(T, Tensor(fn), mode))
        od = []
        if c["shape"]:
            root = T.getRoot()
            before = _snap(root, mode)
            y = root.fiber2dict()
            back = Fiber.dict2fiber(y)
            ffn = os.path.join(tmp, "f.yaml")
            root.dump(ffn)
            back2 = Fiber.fromYAMLfile(ffn)
            od = [_dict_v(y, mode), [_snap(back, mode)], bool(root == back) and _tuple_dict_exact(T),
                  [_snap(back2, mode)], bool(root == back2)]
            if _snap(T.getRoot(), mode) != before:
                od = [-2, 1]
        return [od, o1, o2]
    finally:
        shutil.rmtree(tmp, ignore_errors=True)


def run_rand(c):
    import random
    from fibertree import Fiber, Tensor
    shape, interval = list(c["shape"]), c["interval"]
    d = None if c["d"] == NONE_D else c["d"]
    dens = [x / 1000.0 for x in c["dens"]]
    density = dens[0] if c["scalar"] else dens
    ids = U.RANK_NAMES[:len(shape)]
    stream = list(c["draws"])

    def pop():
        return stream.pop(0) if stream else 0
    saved = (random.random, random.randint)
    random.random = lambda: (pop() % 1000) / 1000.0
    random.randint = lambda a, b: a + pop() % (b - a + 1)
    try:
        T = Tensor.fromRandom(rank_ids=ids, shape=shape, density=density, interval=interval, default=d)
    finally:
        random.random, random.randint = saved
    if U.MODE["touch"]:
        U.touch(T.getRoot())
    inj = [_snap(T.getRoot(), 0), list(T.getShape())]

    # the real PRNG: same seed twice (fiber and tensor level) -> same tree; inside; full at density 1
    def real():
        f1 = Fiber.fromRandom(shape, density, interval, seed=c["seed"], default=d)
        s1 = U.snap(f1)
        random.seed(c["seed"] + 1)
        random.random()
        f2 = Fiber.fromRandom(shape, density, interval, seed=c["seed"], default=d)
        T3 = Tensor.fromRandom(rank_ids=ids, shape=shape, density=density, interval=interval,
                               seed=c["seed"], default=d)
        repro = s1 == U.snap(f2) == U.snap(T3.getRoot())

        def inside(t, k):
            return all(0 <= co < shape[k] and (isinstance(s, int) or inside(s, k + 1)) for co, s in t)

        def full(t, k):
            if isinstance(t, int):
                return k == len(shape) and t != d
            return k < len(shape) and [co for co, _ in t] == list(range(shape[k])) and all(full(s, k + 1) for _, s in t)
        ok = inside(s1, 0)
        if all(x >= 1000 for x in c["dens"]) and (d is None or not (1 <= d <= interval)) and all(s > 0 for s in shape):
            ok = ok and full(s1, 0)
        return [repro, ok]
    return inj + [_try(real)]


def run_impl(c):
    if c["kind"] == "nest":
        return run_nest(c)
    if c["kind"] == "tree":
        return run_tree(c)
    return run_rand(c)


def repro_py(c):
    return ("import sys, json; sys.path.insert(0, '/verif/harness'); sys.path.insert(0, '/verif/harness/props')\n"
            "import c13\nprint(c13.run_impl(json.loads(%r)))\n" % json.dumps(c))


def shrinks(c):
    import copy
    if c["kind"] == "nest":
        d = 0 if c["d"] == NONE_D else c["d"]     # the sentinel is never written into a nest
        # set one entry to the default; drop the last element of the top list
        def paths(n, pre=()):
            if isinstance(n, list):
                for i, x in enumerate(n):
                    yield from paths(x, pre + (i,))
            elif n != d:
                yield pre
        for p in list(paths(c["nest"]))[:40]:
            k = copy.deepcopy(c)
            n = k["nest"]
            for i in p[:-1]:
                n = n[i]
            n[p[-1]] = d
            yield k
        for lvl in range(len(c["dims"])):
            if c["dims"][lvl] > 1:
                k = copy.deepcopy(c)
                k["dims"][lvl] -= 1

                def cut(n, l):
                    if l == 0:
                        return n[:-1]
                    return [cut(x, l - 1) for x in n]
                k["nest"] = cut(k["nest"], lvl)
                yield k
        if c["mode"] != 0:
            k = copy.deepcopy(c)
            k["mode"] = 0
            yield k
    elif c["kind"] == "tree":
        if c["shape"]:
            for i in range(len(c["tree"])):
                k = copy.deepcopy(c)
                del k["tree"][i]
                yield k
            for i, (co, s) in enumerate(c["tree"]):
                if not isinstance(s, int):
                    for j in range(len(s)):
                        k = copy.deepcopy(c)
                        del k["tree"][i][1][j]
                        yield k
        if c["name"] != 0:
            k = copy.deepcopy(c)
            k["name"] = 0
            yield k
    else:
        if c["draws"]:
            k = copy.deepcopy(c)
            k["draws"] = k["draws"][:-1]
            yield k
            k = copy.deepcopy(c)
            k["draws"] = [0] * len(k["draws"])
            yield k
        for i, s in enumerate(c["shape"]):
            if s > 1:
                k = copy.deepcopy(c)
                k["shape"][i] -= 1
                yield k


def search(disagreeing, rng, rnd):
    kinds = {c["kind"] for c in disagreeing} or {"nest", "tree", "rand"}
    out = []
    for _ in range(100):
        if "nest" in kinds:
            out.append(gen_nest_case(rng))
        if "tree" in kinds:
            out.append(gen_tree_case(rng))
        if "rand" in kinds:
            out.append(gen_rand_case(rng))
    return [c for c in out if py_region(c) == 0]
