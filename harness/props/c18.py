"""C18 — Format footprints add up from the tree exactly (fibertree/model/format.py)."""
import itertools
import json
import coqlit as L
import ftutil as U

ID = "C18"
THEOREMS = ["C18_fiber", "C18_rank", "C18_tensor", "C18_tensor_is_tree_sum", "C18_subtree",
            "C18_whole", "C18_defaults", "C18_model_meets_spec"]
COQ_IMPORTS = "From FT Require Import Model.Base Model.Obs Model.Format Model.FormatCheck."
CHECK_VO = ["Model/FormatCheck.v"]
CHECKER = "c18_checker"
CASE_TYPE = "c18_case"
SHARD = 250

RULE = ("case = (tensor tree of depth 1-3 incl. explicit defaults and empty sub-fibers, leaf default, "
        "rank shapes, per-rank spec dict with each field independently present/missing, root spec, "
        "query points = every prefix of every stored point plus absent/out-of-tree points); "
        "observation = filled spec, getRoot, getTensor, getRank per rank, getFiber and getSubTree per "
        "query point. distinct = distinct canonical JSON of the case; non-trivial = tensor has at least "
        "one stored element and at least one width is non-zero")
TRUSTED = ["Coq 8.16.1 kernel (coqc; coqchk in the thorough tier); vm_compute used; native_compute not used",
           "Print Assumptions of every C18 theorem: Closed under the global context (no axioms)",
           "hand-written Gallina model coq/Model/Format.v of fibertree/model/format.py, tied to /repo by the "
           "differential correspondence check of this run (sampled + exhaustive small scope in thorough)",
           "harness: harness/check.py, harness/props/c18.py, CPython 3.12 running the implementation",
           "rank shapes and the rank fiber lists (C02) are inputs of the model, observed from the tensor"]
ASSUMPTIONS = ["Rank.getFibers() lists exactly the fibers at that depth (property C02) - the model's rank "
               "footprint folds over the tree level; the correspondence compares against the real rank lists",
               "integer widths (the implementation asserts isinstance(int))"]
EXPLANATION = ("theorems: worklist getSubTree = recursive reachable sum; rank lists level-wise = tree sum; "
               "oracle c18_spec evaluated on the implementation's numbers; C18_model_meets_spec ties both")

WIDTHS = [0, 1, 8, 32]
FIELDS = ["rhbits", "fhbits", "cbits", "pbits", "format", "layout"]


def gen_case(rng, depth=None):
    depth = depth or rng.choice([1, 2, 2, 3, 3])
    shapes = [rng.randint(1, 5) for _ in range(depth)]
    d = rng.choice([0, 0, 0, 3])
    if depth >= 2 and rng.random() < 0.35:
        # many stored-but-empty sub-fibers of different occupancy ([] / explicit defaults only): equal
        # under ==, different footprints - each must be counted as the object it is
        tree = U.gen_fiber(rng, depth, shapes, d, p_absent=0.15, p_zero=0.6, p_emptysub=0.4)
    else:
        tree = U.gen_fiber(rng, depth, shapes, d)
    raw = []
    for _ in range(depth):
        if rng.random() < 0.1:
            raw.append(None)
            continue
        r = {}
        for f in FIELDS:
            if rng.random() < 0.25:
                continue
            if f == "format":
                r[f] = rng.choice(["C", "U"])
            elif f == "layout":
                r[f] = rng.choice(["contiguous", "interleaved"])
            else:
                r[f] = rng.choice(WIDTHS)
        raw.append(r)
    if depth >= 2 and rng.random() < 0.3:
        # one common specification for several ranks (handed over as one shared dict by run_impl)
        src = next((r for r in raw if r is not None), None)
        if src is not None:
            raw = [dict(src) if (r is not None and rng.random() < 0.8) else r for r in raw]
    root = None if rng.random() < 0.3 else {k: rng.choice(WIDTHS) for k in ["hbits", "pbits"] if rng.random() < 0.7}
    pts = points_of(tree, depth, shapes, rng)
    # the tensor's OWN per-rank format attribute (Tensor.setFormat) is independent of the
    # specification: a missing spec field must default to "C" whatever the tensor declares
    tfmt = [rng.choice(["C", "C", "U"]) for _ in range(depth)]
    return {"tree": tree, "d": d, "shapes": shapes, "raw": raw, "root": root, "points": pts, "tfmt": tfmt}


def points_of(tree, depth, shapes, rng):
    pts = {()}
    for p, _ in U.content(tree, d=None):
        for k in range(1, depth + 1):
            pts.add(tuple(p[:k]))

    def walk(t, pre):
        if isinstance(t, int):
            return
        for c, s in t:
            pts.add(pre + (c,))
            walk(s, pre + (c,))
    walk(tree, ())
    for _ in range(3):
        k = rng.randint(1, depth)
        pts.add(tuple(rng.randint(0, shapes[i]) for i in range(k)))
    pts = sorted(pts)
    if len(pts) > 14:
        pts = [()] + rng.sample(pts[1:], 13)
    return [list(p) for p in pts]


def streams(tier, rng):
    n = 400 if tier == "quick" else 6000
    yield ("random", [gen_case(rng) for _ in range(n)], False)
    if tier == "thorough":
        # exhaustive small scope: depth 2, shape 2x2, per coordinate absent/default/value (leaf)
        # and absent/empty/populated (interior), x all format pairs
        cases = []
        leafs = [[], [[0, 0]], [[0, 1]], [[1, 2]], [[0, 0], [1, 3]], [[0, 4], [1, 5]]]
        subs = [None] + leafs
        for a, b_ in itertools.product(subs, subs):
            t = ([[0, a]] if a is not None else []) + ([[1, b_]] if b_ is not None else [])
            for fm in itertools.product("CU", "CU"):
                raw = [{"format": fm[0], "fhbits": 1, "cbits": 8, "pbits": 32, "rhbits": 2},
                       {"format": fm[1], "fhbits": 1, "cbits": 8, "pbits": 1}]
                cases.append({"tree": t, "d": 0, "shapes": [2, 2], "raw": raw, "root": {"hbits": 1},
                              "points": [[], [0], [1], [0, 0], [1, 1], [0, 1]]})
        yield ("exhaustive-2x2", cases, True)


def nontrivial(case):
    w = any((r or {}).get(k, 0) for r in case["raw"] for k in ("rhbits", "fhbits", "cbits", "pbits"))
    return bool(case["tree"]) and bool(w)


def describe(case):
    return {"depth": len(case["shapes"]),
            "explicit_default": U.has_explicit_default(case["tree"], case["d"]),
            "tensor_declares_U": "U" in (case.get("tfmt") or []),
            "empty_subfiber": U.has_empty_sub(case["tree"], case["d"]),
            "any_U": any((r or {}).get("format") == "U" for r in case["raw"]),
            "missing_rank_spec": any(r is None for r in case["raw"])}


def case_to_coq(c):
    def raw(r):
        if r is None:
            return "None"
        def zi(k): return L.opt(r.get(k), L.z)
        fm = L.opt(None if "format" not in r else (r["format"] == "U"), L.b)
        lay = L.opt(None if "layout" not in r else (r["layout"] == "interleaved"), L.b)
        return "(Some (Build_raw_rspec %s %s %s %s %s %s))" % (zi("rhbits"), zi("fhbits"), zi("cbits"), zi("pbits"), fm, lay)
    root = "None" if c["root"] is None else "(Some (%s, %s))" % (
        L.opt(c["root"].get("hbits"), L.z), L.opt(c["root"].get("pbits"), L.z))
    return "(Build_c18_case %s %s %s %s %s %s)" % (
        L.tree(c["tree"]), L.z(c["d"]), L.zlist(c["shapes"]), L.lst(raw(r) for r in c["raw"]), root,
        L.lst(L.zlist(p) for p in c["points"]))


def run_impl(case):
    import copy
    from fibertree.model.format import Format
    depth = len(case["shapes"])
    T = U.build_tensor(case["tree"], depth, case["shapes"], case["d"])
    ids = T.getRankIds()
    for rid, f in zip(ids, case.get("tfmt") or []):
        T.setFormat(rid, f)
    spec = {}
    shared = {}
    for rid, r in zip(ids, case["raw"]):
        if r is not None:
            # ranks given the same specification share ONE dict object (dict.fromkeys(ids, {...}), a YAML
            # anchor): reading a rank's specification must not consume it
            key = json.dumps(r, sort_keys=True)
            if key not in shared:
                shared[key] = copy.deepcopy(r)
            spec[rid] = shared[key]
    if case["root"] is not None:
        spec["root"] = dict(case["root"])
    # the same specification object serves two Format objects; the second one is the one observed
    Format(T, spec)
    fm = Format(T, spec)

    def q(fn, *a):
        try:
            v = fn(*a)
            return [int(v)]
        except (AssertionError, Exception):
            return []
    filled = []
    for rid in ids:
        # through the public getters (the footprint and traffic models read the spec this way)
        filled.append([fm.getRHBits(rid), fm.getFHBits(rid), fm.getCBits(rid), fm.getPBits(rid),
                       fm.getFormat(rid) == "U", fm.getLayout(rid) == "interleaved",
                       fm.getElem(rid, "coord"), fm.getElem(rid, "payload"), fm.getElem(rid, "elem")])
    rootspec = [fm.spec["root"]["hbits"], fm.spec["root"]["pbits"]]
    ranks = [fm.getRank(rid) for rid in ids]
    fibers = []
    subs = []
    for p in case["points"]:
        fibers.append(q(fm.getFiber, *p) if len(p) < depth else [])
        subs.append(q(fm.getSubTree, *p))
    return [filled, rootspec, fm.getRoot(), fm.getTensor(), ranks, fibers, subs]


def repro_py(case):
    return ("import sys; sys.path.insert(0,'/verif/harness'); import ftutil as U\n"
            "from fibertree.model.format import Format\n"
            "T = U.build_tensor(%r, %d, %r, %r)\n"
            "spec = %r\nfm = Format(T, spec)\nprint(fm.getTensor(), [fm.getRank(r) for r in T.getRankIds()], "
            "[(p, fm.getSubTree(*p)) for p in %r])\n" % (
                case["tree"], len(case["shapes"]), case["shapes"], case["d"],
                {**{rid: r for rid, r in zip(U.RANK_NAMES, case["raw"]) if r is not None},
                 **({"root": case["root"]} if case["root"] is not None else {})}, case["points"]))


def shrinks(case):
    import copy
    t = case["tree"]
    # drop one top-level element, one query point, one spec field
    for i in range(len(t)):
        c = copy.deepcopy(case)
        del c["tree"][i]
        yield c
    for i in range(len(case["points"])):
        if len(case["points"]) > 1:
            c = copy.deepcopy(case)
            del c["points"][i]
            yield c
    for i, r in enumerate(case["raw"]):
        for k in list((r or {}).keys()):
            c = copy.deepcopy(case)
            del c["raw"][i][k]
            yield c
    for i, (co, s) in enumerate(t):
        if not isinstance(s, int):
            for j in range(len(s)):
                c = copy.deepcopy(case)
                del c["tree"][i][1][j]
                yield c


def search(disagreeing, rng, rnd):
    # neighbourhood = fresh random cases (the space is small and every field is independent)
    return [gen_case(rng) for _ in range(300)]
