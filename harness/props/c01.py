"""C01 — Fibertrees stay well-formed under every history of public mutations (shared history model: coq/Model/Store.v, harness/store_hist.py)."""
import store_hist as H

ID = "C01"
# the model numbers fiber identities and rank lists in construction (DFS) order: no post-construction
# re-assignment of sub-trees in the shared builder (the histories themselves contain such assignments)
REASSIGN_MODE = False
THEOREMS = ["C01_init_wf", "C01_step_wf", "C01_history_wf", "C01_wf_meaning", "C01_wf_tree_spec",
            "C01_reject_atomic", "C01_model_meets_spec"]
COQ_IMPORTS = "From FT Require Import Model.Base Model.Obs Model.Store Model.StoreCheck."
CHECK_VO = ["Model/StoreCheck.v"]
CHECKER = "c01_checker"
CASE_TYPE = "hist_case"
EXTRA = ["c01_pop", "c01_unowned"]   # populate loops: C05's cases and model, this property's oracle
SHARD = 120
RULE = ("case = (tensor tree of depth 1-3 with explicit defaults / empty sub-fibers, leaf default, history of "
        "1-10 public operations addressed by coordinate path); observation = state snapshot (raw tree, per-rank "
        "fiber lists as paths, owner flags) before the history and after every step plus each step's outcome and "
        "return value. distinct = distinct canonical JSON; non-trivial = non-empty tree and >= 1 op")
TRUSTED = ["Coq 8.16.1 kernel (coqc; coqchk in the thorough tier); vm_compute used for the Example only",
           "Print Assumptions of every C01 theorem: Closed under the global context",
           "hand-written model coq/Model/Store.v of the mutators (fiber.py getPayloadRef/_create_payload/_createDefault, "
           "__setitem__, append, clear, updateCoords, updatePayloads; iterators.py iterRangeShapeRef), tied to /repo by the "
           "per-step differential correspondence of this run",
           "harness/store_hist.py (generator, implementation driver, snapshot), harness/check.py"]
ASSUMPTIONS = ["operation set of the model: getPayloadRef(+write through the reference), getPayload, append, __setitem__, clear, "
               "updateCoords (affine maps +-c+k, i.e. injective: the documented 'unique not checked' domain), updatePayloads (p+k), "
               "iterRangeShapeRef, getPosition/getPositionRef/getPayload/getPayloadRef with start_pos; fiber-valued mutators (argument fiber given as a tree literal of the matching depth with strictly increasing coordinates, built unowned with the leaf default at the leaf rank and default Fiber at interior ranks): append(c, fiber), __setitem__(pos, fiber) and __setitem__(pos, CoordPayload(c, fiber)) (coordinate and sub-fiber replaced together; refused for its coordinate before anything is released) on interior fibers, extend(fiber) and fiber <<= fiber at any rank; "
               "tensors (owned trees) of depth 1-3. Fiber in-place arithmetic and populate loops are NOT in this model (populate: C05)",
               "the model builds the sub-fibers of an append/extend/__setitem__ argument afresh; in Python they are the caller's objects, "
               "shared with the argument fiber (aliasing through the argument after the call is outside the model); an argument whose "
               "default is only guessed (an empty unowned interior fiber) makes <<= overwrite the owning rank's default - outside the explored domain",
               "fibers are addressed by coordinate path; leaf references are written through immediately (no stale handles)"]
case_to_coq = H.case_to_coq
run_impl = H.run_impl
nontrivial = H.nontrivial
describe = H.describe
shrinks = H.shrinks
repro_py = H.repro_py
KINDS = H.ALL_KINDS


COORD_KINDS = ["updcoords", "updcoords", "updtbl", "updtbl", "getref", "append", "setitem", "get"]


def streams(tier, rng):
    n = 300 if tier == "quick" else 6000
    yield ("random-histories", [H.gen_case(rng, KINDS) for _ in range(n)], False)
    # coordinate updates need particular images (reflections through 0, re-orderings whose last
    # pair is in order ...): a stream that is mostly updateCoords on dense-ish fibers
    yield ("coordinate-updates", [H.gen_case(rng, COORD_KINDS, maxlen=6, depths=(1, 1, 2)) for _ in range(n // 2)], False)


def search(disagreeing, rng, rnd):
    return [H.gen_case(rng, KINDS, maxlen=14) for _ in range(300)]
