"""C02 — A tensor's rank bookkeeping always mirrors its fibertree (shared history model: coq/Model/Store.v, harness/store_hist.py)."""
import store_hist as H

ID = "C02"
# the model numbers fiber identities and rank lists in construction (DFS) order: no post-construction
# re-assignment of sub-trees in the shared builder (the histories themselves contain such assignments)
REASSIGN_MODE = False
THEOREMS = ["C02_init_mirror_any", "C02_init_mirror", "C02_step_mirror", "C02_history_mirror",
            "C02_mirror_meaning", "C02_owners_spec", "C02_model_meets_spec", "C02_rank_mirrors_spec",
            "C02_oracle_meaning", "C02_mirror_observed"]
COQ_IMPORTS = "From FT Require Import Model.Base Model.Obs Model.Store Model.StoreCheck."
CHECK_VO = ["Model/StoreCheck.v"]
CHECKER = "c02_checker"
CASE_TYPE = "hist_case"
EXTRA = ["c02_pop", "c02_ctor"]   # populate loops: C05's cases and model, this property's oracle
SHARD = 120
RULE = ("case = (tensor tree of depth 1-3 with explicit defaults / empty sub-fibers, leaf default, history of "
        "1-10 public operations addressed by coordinate path); observation = state snapshot (raw tree, per-rank "
        "fiber lists as paths, owner flags) before the history and after every step plus each step's outcome and "
        "return value. distinct = distinct canonical JSON; non-trivial = non-empty tree and >= 1 op")
TRUSTED = ["Coq 8.16.1 kernel (coqc; coqchk in the thorough tier); vm_compute used for the Example only",
           "Print Assumptions of every C02 theorem: Closed under the global context",
           "hand-written model coq/Model/Store.v (shared with C01/C03): fiber identities as numbers in the interior nodes, "
           "Rank.fibers as per-rank identity lists, Fiber._owner as the rank index stored in the node; load = Tensor.setRoot/_addFiber "
           "(DFS pre-order registration), get_ref = getPayloadRef/_createDefault(addtorank=True)+Rank.append, clear = _disownPayloads "
           "(clear() pops every descendant fiber from its rank's list); tied to /repo by the per-step differential correspondence of "
           "this run (tree, per-rank lists as paths, owner flags after every step)",
           "harness/store_hist.py (generator, implementation driver, snapshot: rank lists are read from Tensor.ranks[i].getFibers() "
           "and mapped to paths by object identity against a raw DFS from getRoot()), harness/check.py",
           "oracle c02_holds (Model/StoreCheck.v mirror_state: per rank, entries all resolvable, pairwise distinct paths, as many as "
           "fibers at that depth, each a path of that depth; owner flag) evaluated on the implementation's observation"]
ASSUMPTIONS = ["operation set of the model (same as C01): getPayloadRef(+write), getPayload, append(leaf), __setitem__(leaf/coordinate), clear, "
               "updateCoords (affine and table-driven), updatePayloads, iterRangeShapeRef, getPosition/getPositionRef/getPayload/getPayloadRef "
               "with start_pos, and the fiber-valued mutators (argument fiber given as a tree literal of the matching depth with strictly increasing coordinates, built unowned with the leaf default at the leaf rank and default Fiber at interior ranks): append(c, fiber), __setitem__(pos, fiber) and __setitem__(pos, CoordPayload(c, fiber)) (coordinate and sub-fiber replaced together; refused for its coordinate before anything is released) on interior fibers, extend(fiber) and fiber <<= fiber at any rank (Fiber._registerPayload / _disownPayload: the new fibers are appended to their ranks in "
               "depth-first order, the replaced ones leave their ranks), on tensors built by Tensor.fromFiber-style loading (depth 1-3 in the "
               "explored cases; the theorems are for any depth)",
               "NOT in the model, hence not covered by the C02 theorems: the other constructors (fromUncompressed, fromRandom, fromYAMLfile, "
               "makePopulated), deepcopy, transform results (each ends in Tensor.fromFiber = load, but the transforms themselves are not modelled "
               "here), populate loops with create-then-pop (C05; see the populate stream), "
               "aliasing of an append/extend/__setitem__ argument with the tree after the call (the model builds the sub-fibers afresh), "
               "rank chaining (next_rank pointers: ranks are a list in the model, so chaining is structural)",
               "C02_step_mirror/C02_history_mirror assume wf_st s (C01's invariant, itself preserved by every step: C01_step_wf) only to know the "
               "root is a fiber and n >= 1; C02_init_mirror_any needs no well-formedness at all",
               "C02_model_meets_spec and C02_oracle_meaning are stated for well-formed cases/snapshots (wf_case, wf_tree: strictly increasing "
               "coordinates, uniform depth) - with duplicate coordinates a path would not name one fiber"]
case_to_coq = H.case_to_coq
run_impl = H.run_impl
nontrivial = H.nontrivial
describe = H.describe
shrinks = H.shrinks
repro_py = H.repro_py
KINDS = H.ALL_KINDS


def streams(tier, rng):
    n = 300 if tier == "quick" else 6000
    yield ("random-histories", [H.gen_case(rng, KINDS) for _ in range(n)], False)


def search(disagreeing, rng, rnd):
    return [H.gen_case(rng, KINDS, maxlen=14) for _ in range(300)]
