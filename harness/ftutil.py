"""ftutil — helpers shared by the property modules.

Two halves: (a) pure-Python case generators (no fibertree import), used by the main process;
(b) builders/snapshotters that touch the implementation, used only inside impl_worker.

Tree literal (JSON-able): an int is a leaf value; a list of [coord, subtree] pairs is a fiber.
"""
import random


# ------------------------------------------------------------------ generators (pure)

def gen_fiber(rng, depth, shapes, d=0, p_absent=None, p_zero=None, p_emptysub=None, vals=(1, 9),
              max_elems=None):
    """random tree literal of uniform depth `depth` (>=1) with coordinates inside `shapes`.
    Per coordinate: absent / explicit default (leaf) or empty sub-fiber (interior) / populated.
    Class probabilities are drawn per call unless given, so empty, dense, singleton and
    explicit-default-heavy trees all occur."""
    if p_absent is None:
        p_absent = rng.choice([0.0, 0.2, 0.5, 0.5, 0.8, 0.95])
    if p_zero is None:
        p_zero = rng.choice([0.0, 0.0, 0.15, 0.4])
    if p_emptysub is None:
        p_emptysub = rng.choice([0.0, 0.0, 0.15, 0.4])
    es = []
    for c in range(shapes[0]):
        if rng.random() < p_absent:
            continue
        if depth == 1:
            if rng.random() < p_zero:
                es.append([c, d])
            else:
                v = rng.randint(*vals)
                if v == d:
                    v += 1
                es.append([c, v])
        else:
            if rng.random() < p_emptysub:
                es.append([c, []])
            else:
                es.append([c, gen_fiber(rng, depth - 1, shapes[1:], d, p_absent, p_zero, p_emptysub, vals)])
    if max_elems is not None and len(es) > max_elems:
        keep = sorted(rng.sample(range(len(es)), max_elems))
        es = [es[i] for i in keep]
    return es


def tree_depth(t):
    if isinstance(t, int):
        return 0
    if not t:
        return 1
    return 1 + max(tree_depth(s) for _, s in t)


def tree_size(t):
    if isinstance(t, int):
        return 1
    return 1 + sum(tree_size(s) for _, s in t)


def has_explicit_default(t, d=0):
    if isinstance(t, int):
        return t == d
    return any(has_explicit_default(s, d) for _, s in t)


def is_empty_lit(t, d=0):
    if isinstance(t, int):
        return t == d
    return all(is_empty_lit(s, d) for _, s in t)


def has_empty_sub(t, d=0, top=True):
    if isinstance(t, int):
        return False
    if not top and is_empty_lit(t, d):
        return True
    return any(has_empty_sub(s, d, False) for _, s in t)


def content(t, d=0, prefix=()):
    if isinstance(t, int):
        return [] if t == d else [[list(prefix), t]]
    out = []
    for c, s in t:
        out += content(s, d, prefix + (c,))
    return out


RANK_NAMES = ["M", "K", "N", "P", "Q"]


# ------------------------------------------------------------------ implementation side

def build_fiber(t, d=0):
    """tree literal -> fibertree.Fiber (unowned), explicit defaults and empty sub-fibers kept"""
    from fibertree import Fiber
    coords = [c for c, _ in t]
    pays = [s if isinstance(s, int) else build_fiber(s, d) for _, s in t]
    f = Fiber(coords, pays) if coords else Fiber([], [])
    if d != 0:
        f._setDefault(d) if hasattr(f, "_setDefault") else None
    return f


def build_tensor(t, depth, shapes=None, d=0, rank_ids=None, name=None):
    from fibertree import Tensor
    rank_ids = rank_ids or RANK_NAMES[:depth]
    root = build_fiber(t, d)
    kw = {}
    if shapes is not None:
        kw["shape"] = list(shapes)
    T = Tensor.fromFiber(rank_ids=rank_ids, fiber=root, **kw)
    if d != 0:
        T.setDefault(d)
    if name is not None:
        T.setName(name)
    return T


def snap(f):
    """raw structural snapshot of a fiber: nested [coord, payload] with leaves unboxed;
    a leaf that is not singly boxed is reported as [-2, boxing depth]"""
    from fibertree import Fiber, Payload
    out = []
    for c, p in zip(f.coords, f.payloads):
        if isinstance(p, Fiber):
            out.append([c, snap(p)])
        else:
            n = 0
            while isinstance(p, Payload):
                p = p.value
                n += 1
            if n != 1:
                out.append([c, [-2, n]])
            else:
                out.append([c, p])
    return out
