"""ftutil — helpers shared by the property modules.

Two halves: (a) pure-Python case generators (no fibertree import), used by the main process;
(b) builders/snapshotters that touch the implementation, used only inside impl_worker.

Tree literal (JSON-able): an int is a leaf value; a list of [coord, subtree] pairs is a fiber.
"""
import random


# ------------------------------------------------------------------ generators (pure)

def gen_fiber(rng, depth, shapes, d=0, p_absent=None, p_zero=None, p_emptysub=None, vals=(1, 9),
              max_elems=None):
    """random tree literal of uniform depth `depth` (>=1) with coordinates inside `shapes`.
    Per coordinate: absent / explicit default (leaf) or empty sub-fiber (interior) / populated.
    Class probabilities are drawn per call unless given, so empty, dense, singleton and
    explicit-default-heavy trees all occur."""
    if p_absent is None:
        p_absent = rng.choice([0.0, 0.2, 0.5, 0.5, 0.8, 0.95])
    if p_zero is None:
        p_zero = rng.choice([0.0, 0.0, 0.15, 0.4])
    if p_emptysub is None:
        p_emptysub = rng.choice([0.0, 0.0, 0.15, 0.4])
    es = []
    for c in range(shapes[0]):
        if rng.random() < p_absent:
            continue
        if depth == 1:
            if rng.random() < p_zero:
                es.append([c, d])
            else:
                v = rng.randint(*vals)
                if v == d:
                    v += 1
                es.append([c, v])
        else:
            if rng.random() < p_emptysub:
                es.append([c, []])
            else:
                es.append([c, gen_fiber(rng, depth - 1, shapes[1:], d, p_absent, p_zero, p_emptysub, vals)])
    if max_elems is not None and len(es) > max_elems:
        keep = sorted(rng.sample(range(len(es)), max_elems))
        es = [es[i] for i in keep]
    return es


def tree_depth(t):
    if isinstance(t, int):
        return 0
    if not t:
        return 1
    return 1 + max(tree_depth(s) for _, s in t)


def tree_size(t):
    if isinstance(t, int):
        return 1
    return 1 + sum(tree_size(s) for _, s in t)


def has_explicit_default(t, d=0):
    if isinstance(t, int):
        return t == d
    return any(has_explicit_default(s, d) for _, s in t)


def is_empty_lit(t, d=0):
    if isinstance(t, int):
        return t == d
    return all(is_empty_lit(s, d) for _, s in t)


def has_empty_sub(t, d=0, top=True):
    if isinstance(t, int):
        return False
    if not top and is_empty_lit(t, d):
        return True
    return any(has_empty_sub(s, d, False) for _, s in t)


def content(t, d=0, prefix=()):
    if isinstance(t, int):
        return [] if t == d else [[list(prefix), t]]
    out = []
    for c, s in t:
        out += content(s, d, prefix + (c,))
    return out


RANK_NAMES = ["M", "K", "N", "P", "Q"]


# ------------------------------------------------------------------ implementation side

# Representation modes (set per case by impl_worker from the case's hash, never part of the Coq case:
# the model is over mathematical integers, so on a correct implementation every mode gives the
# same observation).  vkind: how leaf values and non-zero defaults are handed over - plain int,
# float of the same value (distinct objects: equality-vs-identity slips, 0.0 against a default 0),
# or an int subclass.  touch: every fiber is built in two stages - all but its last element, then
# a battery of read-only queries (C10: they change nothing), then the last element by append -
# and the finished tensor is queried once more, so anything a read remembers (a memoised active
# range, shape, maximum coordinate or default) is stale by the time the operation under test runs.
# late_default: a tensor's fibers are built without being told the leaf default (an unowned fiber then
# guesses 0); only the tensor is (Tensor.setDefault) - once owned, the rank's attributes are what counts.
# reassign: after the tensor is built, every other interior child (at any level) is replaced, through item
# assignment, by a freshly built unowned fiber with the same literal: the old sub-tree must leave the
# rank lists and the new one enter them (Fiber._disownPayload / _registerPayload), the tree is the same.
# none_default (set by a module for cases whose default is the sentinel NONE_D): the implementation is
# handed None wherever the case says NONE_D and a None coming back is read as NONE_D.  default=None is
# the documented "no empty value"; a default that no payload ever equals behaves the same in the models.
NONE_D = -999983
MODE = {"vkind": "int", "touch": False, "late_default": False, "reassign": False, "none_default": False}


class SubInt(int):
    __slots__ = ()


def set_mode(mod, case):
    import hashlib, json
    if not getattr(mod, "REPR_MODES", True):
        MODE.update(vkind="int", touch=False, late_default=False, reassign=False, none_default=False)
        return
    MODE["none_default"] = False
    h = int(hashlib.sha1(json.dumps(case, sort_keys=True).encode()).hexdigest()[:8], 16)
    kinds = getattr(mod, "VKINDS", ["int", "int", "float", "sub"])
    MODE["vkind"] = kinds[h % len(kinds)]
    MODE["touch"] = (h // 4) % 2 == 1
    MODE["late_default"] = (h // 8) % 2 == 1
    MODE["reassign"] = (h // 16) % 4 == 3 and getattr(mod, "REASSIGN_MODE", True)


def dress(v):
    if isinstance(v, bool) or not isinstance(v, int):
        return v
    if MODE["none_default"] and v == NONE_D:
        return None
    k = MODE["vkind"]
    if k == "tiny":
        # opt-in (VKINDS): v * 2^-40, exact in binary floating point - a non-default value within 1e-9 of
        # the default.  Only for properties whose observations are linear in the payloads (no products).
        return v * TINY
    return float(v) if k == "float" else SubInt(v) if k == "sub" else v


TINY = 2.0 ** -40


def undress(p):
    if isinstance(p, bool):
        return p
    if p is None and MODE["none_default"]:
        return NONE_D
    if MODE["vkind"] == "tiny" and isinstance(p, float) and p == p and abs(p) != float("inf"):
        q = p / TINY
        return int(q) if q == int(q) else p
    if isinstance(p, float) and p == p and abs(p) != float("inf") and p == int(p):
        return int(p)
    if isinstance(p, int):
        return int(p)
    return p


def norm_obs(o):
    """observations are integers: an integral float or int subclass a dressed value left behind is its value"""
    if isinstance(o, (list, tuple)):
        return [norm_obs(x) for x in o]
    return undress(o)


def touch(f):
    """read-only queries on a fiber (results discarded); not while a metrics session is collecting
    (iterating would legitimately be counted there)"""
    from fibertree import Metrics
    if Metrics.isCollecting():
        return
    for q in (lambda: f.getActive(), lambda: f.maxCoord(), lambda: f.getShape(), lambda: f.getShape(all_ranks=False),
              lambda: f.estimateShape(), lambda: f.getDefault(), lambda: f.isEmpty(), lambda: f.countValues(),
              lambda: [c for c, _ in f.iterActive(tick=False)], lambda: [c for c, _ in f.iterOccupancy(tick=False)], lambda: len(f),
              lambda: f.getCoords(), lambda: f.minCoord(), lambda: f == f, lambda: repr(f)):
        try:
            q()
        except Exception:
            pass


def build_fiber(t, d=0):
    """tree literal -> fibertree.Fiber (unowned), explicit defaults and empty sub-fibers kept"""
    from fibertree import Fiber
    coords = [c for c, _ in t]
    pays = [dress(s) if isinstance(s, int) else build_fiber(s, d) for _, s in t]
    staged = MODE["touch"] and len(coords) >= 2
    if staged:
        f = Fiber(coords[:-1], pays[:-1])
    else:
        f = Fiber(coords, pays) if coords else Fiber([], [])
    if d != 0:
        f._setDefault(dress(d)) if hasattr(f, "_setDefault") else None
    if MODE["touch"]:
        touch(f)
    if staged:
        f.append(coords[-1], pays[-1])
    return f


def _reassign(f, t, d):
    for i, (c, sub) in enumerate(t):
        if isinstance(sub, int):
            return
        if i % 2 == 0:
            f[i] = build_fiber(sub, d)
        else:
            _reassign(f.payloads[i], sub, d)


def build_tensor(t, depth, shapes=None, d=0, rank_ids=None, name=None):
    from fibertree import Tensor
    rank_ids = rank_ids or RANK_NAMES[:depth]
    root = build_fiber(t, 0 if MODE["late_default"] else d)
    kw = {}
    if shapes is not None:
        kw["shape"] = list(shapes)
    T = Tensor.fromFiber(rank_ids=rank_ids, fiber=root, **kw)
    if MODE["touch"] and MODE["vkind"] == "float" and isinstance(d, int) and dress(d) is not None:
        # the leaf default is replaced once after having been read: nothing of the first one may survive
        T.setDefault(float(d) + 0.5)
        for q in (lambda: T.getDefault(), lambda: T.ranks[-1].getDefault(), lambda: T.ranks[-1].getAttrs().getDefault()):
            try:
                q()
            except Exception:
                pass
        T.setDefault(float(d))
    elif d is None or d != 0:
        T.setDefault(dress(d) if d is not None else None)
    if name is not None:
        T.setName(name)
    if MODE["reassign"]:
        _reassign(T.getRoot(), t, 0 if MODE["late_default"] else d)
    if MODE["touch"]:
        touch(T.getRoot())
        for q in (lambda: T.getShape(), lambda: T.getDefault(), lambda: T.countValues(), lambda: T.isEmpty() if hasattr(T, "isEmpty") else None):
            try:
                q()
            except Exception:
                pass
    return T


def snap(f):
    """raw structural snapshot of a fiber: nested [coord, payload] with leaves unboxed;
    a leaf that is not singly boxed is reported as [-2, boxing depth]"""
    from fibertree import Fiber, Payload
    out = []
    for c, p in zip(f.coords, f.payloads):
        if isinstance(p, Fiber):
            out.append([c, snap(p)])
        else:
            n = 0
            while isinstance(p, Payload):
                p = p.value
                n += 1
            if n != 1:
                out.append([c, [-2, n]])
            else:
                out.append([c, undress(p)])
    return out
