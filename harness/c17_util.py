"""c17_util — implementation driver for C17 (fibertree/model/traffic.py).

A case (JSON):
  L        number of loop ranks (names R0..R{L-1}, the loop order)
  tensors  [{"ranks": [loop-rank indices, ascending], "shape": [ints]}]
  bindings [{"t": tensor index, "r": loop-rank index of the bound rank, "type": 0 coord|1 payload|2 elem,
             "foot": bits per element (Format.getElem), "evict": None (root) | loop-rank index,
             "read": rows|None, "write": rows|None}]      row = [stamp, coords, fiber_pos]
  line     line size in bits;  bcap  buffet capacity;  caps  cache capacities (ascending)
  fin, ffil  input / filter trace for filterTrace (rows)
"""
import os
import shutil
import tempfile

TYPES = ["coord", "payload", "elem"]


def rname(k):
    return "R%d" % k


def write_trace(path, n, rows):
    hdr = [rname(k) + "_pos" for k in range(n)] + [rname(k) for k in range(n)] + ["fiber_pos"]
    with open(path, "w") as f:
        f.write(",".join(hdr) + "\n")
        for st, pt, pos in rows:
            f.write(",".join(str(x) for x in list(st) + list(pt) + [pos]) + "\n")


def read_rows(path, extra=0):
    """parse a trace file back to rows [stamp, coords, pos(, is_write)]"""
    out = []
    with open(path) as f:
        hdr = f.readline()[:-1].split(",")
        n = (len(hdr) - 1 - extra) // 2
        for line in f:
            sp = line[:-1].split(",")
            row = [[int(x) for x in sp[:n]], [int(x) for x in sp[n:2 * n]], int(sp[2 * n])]
            if extra:
                row.append(sp[2 * n + 1] == "True")
            out.append(row)
    return hdr, out


def _populate(ids, shape, pts):
    """a declared-shape tensor with a few stored elements (values go through the shared value modes)"""
    from fibertree import Tensor
    import ftutil as FU
    t = Tensor(rank_ids=list(ids), shape=list(shape))
    root = t.getRoot()
    for p in pts:
        ref = root.getPayloadRef(*p)
        ref += FU.dress(1 + sum(p))
    if FU.MODE.get("touch"):
        FU.touch(root)
        t.getShape()
    return t


def build_tensor(ti, t):
    """The tensor a Format is built on.  The traffic models take formats[t].tensor.getShape(authoritative=
    True)[rank] as the boundary between real storage and the insertion staging area; the model gets that
    shape as an input, so every way of building the tensor must give the declared shape:
      0 declared directly (empty)          1 / 2 swizzleRanks from a source rotated left / right
      3 fromFiber(other.getRoot())         4 fromFiber(other.getRoot(), shape=...)
      5 Tensor(rank_ids, shape).setRoot(other.getRoot())"""
    from fibertree import Tensor
    import ftutil as FU
    ids = [rname(k) for k in t["ranks"]]
    shape = list(t["shape"])
    n = len(ids)
    path = t.get("build", 0)
    pts = [tuple(p) for p in t.get("pts", [])] or [tuple(0 for _ in shape), tuple(s - 1 for s in shape)]
    name = "T%d" % ti
    if path == 0:
        T = Tensor(rank_ids=ids, shape=shape, name=name)
    elif path in (1, 2):
        perm = (list(range(1, n)) + [0]) if path == 1 else ([n - 1] + list(range(0, n - 1)))
        src = _populate([ids[k] for k in perm], [shape[k] for k in perm],
                        [tuple(p[k] for k in perm) for p in pts])
        T = src.swizzleRanks(rank_ids=ids)
        T.setName(name)
    else:
        z = _populate(ids, shape, pts)
        if path == 3:
            T = Tensor.fromFiber(rank_ids=ids, fiber=z.getRoot(), name=name)
        elif path == 4:
            T = Tensor.fromFiber(rank_ids=ids, fiber=z.getRoot(), shape=shape, name=name)
        else:
            T = Tensor(rank_ids=ids, shape=shape, name=name)
            T.setRoot(z.getRoot())
    if FU.MODE.get("touch"):
        FU.touch(T.getRoot())
        T.getShape()
    return T


def build_formats(case):
    from fibertree.model.format import Format
    formats = {}
    for ti, t in enumerate(case["tensors"]):
        T = build_tensor(ti, t)
        spec = {}
        for k in t["ranks"]:
            s = {"format": "C", "cbits": 0, "pbits": 0}
            for b in case["bindings"]:
                if b["t"] == ti and b["r"] == k:
                    if b["type"] == 0:
                        s["cbits"] = b["foot"]
                    elif b["type"] == 1:
                        s["pbits"] = b["foot"]
                    else:
                        s["cbits"] = b["foot"] // 2
                        s["pbits"] = b["foot"] - b["foot"] // 2
                        s["layout"] = "interleaved"
            spec[rname(k)] = s
        formats["T%d" % ti] = Format(T, spec)
    return formats


def setup_dir(case):
    d = tempfile.mkdtemp(prefix="c17-")
    fns = {}
    for bi, b in enumerate(case["bindings"]):
        for acc in ("read", "write"):
            if b[acc] is not None:
                p = os.path.join(d, "b%d-%s.csv" % (bi, acc))
                write_trace(p, b["r"] + 1, b[acc])
                fns[(bi, acc)] = p
    return d, fns


def err_code(e):
    if isinstance(e, AssertionError):
        return 1
    if isinstance(e, (IndexError, KeyError)):
        return 2
    if isinstance(e, ValueError):
        return 3
    if isinstance(e, ZeroDivisionError):
        return 4
    return 9


def reorder(dct, how, first):
    """the same dictionary with another insertion order: 0 as built, 1 the keys selected by `first` first
    (write traces before read traces), 2 reversed, 3 a fixed shuffle"""
    items = list(dct.items())
    if how == 1:
        items = [kv for kv in items if first(kv[0])] + [kv for kv in items if not first(kv[0])]
    elif how == 2:
        items.reverse()
    elif how == 3:
        import random
        random.Random(len(items) * 7919 + 13).shuffle(items)
    return dict(items)


def traffic_run(case, mode, cap, d, fns, formats):
    """returns [[per tensor [read|None, write|None]], overflows, leftover files] or [-1, code]"""
    from fibertree.model.traffic import Traffic
    bindings = []
    trace_fns = {}
    for bi, b in enumerate(case["bindings"]):
        tn = "T%d" % b["t"]
        bd = {"tensor": tn, "rank": rname(b["r"]), "type": TYPES[b["type"]]}
        if mode == "buffet":
            bd["evict-on"] = "root" if b["evict"] is None else rname(b["evict"])
        bindings.append(bd)
        for acc in ("read", "write"):
            if (bi, acc) in fns:
                trace_fns[(tn, rname(b["r"]), TYPES[b["type"]], acc)] = fns[(bi, acc)]
    trace_fns = reorder(trace_fns, case.get("dorder", 0), lambda k: k[3] == "write")
    formats = reorder(formats, case.get("dorder", 0), lambda k: False)
    before = sorted(os.listdir(d))
    fn = Traffic.buffetTraffic if mode == "buffet" else Traffic.cacheTraffic
    try:
        bits, ovf = fn(bindings, formats, trace_fns, cap, case["line"])
    except (AssertionError, IndexError, KeyError, ValueError, ZeroDivisionError) as e:
        # leftovers of an aborted run are not part of the property; clean them for the next run
        for f in os.listdir(d):
            if f not in before:
                os.remove(os.path.join(d, f))
        return [-1, err_code(e)]
    after = sorted(os.listdir(d))
    res = []
    for ti in range(len(case["tensors"])):
        tr = bits.get("T%d" % ti, {})
        res.append([None if "read" not in tr else [tr["read"]], None if "write" not in tr else [tr["write"]]])
    return [res, ovf, len([f for f in after if f not in before]) + len([f for f in before if f not in after])]


def combine_run(b, d, fns, bi):
    from fibertree.model.traffic import Traffic
    args = {"comb_fn": os.path.join(d, "comb%d.csv" % bi)}
    for acc in ("read", "write"):
        if (bi, acc) in fns:
            args[acc + "_fn"] = fns[(bi, acc)]
    Traffic._combineTraces(**args)
    hdr, rows = read_rows(args["comb_fn"], extra=1)
    os.remove(args["comb_fn"])
    n = b["r"] + 1
    hdr_ok = hdr == [rname(k) + "_pos" for k in range(n)] + [rname(k) for k in range(n)] + ["fiber_pos", "is_write"]
    return [hdr_ok, rows]


def filter_run(case, d):
    from fibertree.model.traffic import Traffic
    fin, ffil = case["fin"], case["ffil"]
    if fin is None:
        return None
    n_in = len(fin[0][0]) if fin else case["fn"]
    n_fil = len(ffil[0][0]) if ffil else case["ffn"]
    pi, pf, po = (os.path.join(d, x) for x in ("fin.csv", "ffil.csv", "fout.csv"))
    write_trace(pi, n_in, fin)
    write_trace(pf, n_fil, ffil)
    Traffic.filterTrace(pi, pf, po)
    hdr, rows = read_rows(po)
    hdr_in = open(pi).readline()[:-1].split(",")
    for p in (pi, pf, po):
        os.remove(p)
    return [[hdr == hdr_in, rows]]


def run_all(case):
    formats = build_formats(case)
    d, fns = setup_dir(case)
    try:
        comb = [combine_run(b, d, fns, bi) for bi, b in enumerate(case["bindings"])]
        buf = traffic_run(case, "buffet", case["bcap"], d, fns, formats)
        cache = [traffic_run(case, "cache", c, d, fns, formats) for c in case["caps"]]
        fil = filter_run(case, d)
    finally:
        shutil.rmtree(d, ignore_errors=True)
    return [fil, comb, buf, cache]
