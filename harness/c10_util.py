"""c10_util — implementation-side object-identity snapshots for C10.

A *World* numbers every object it meets (Fiber, Payload box, RankAttrs, the default object of a
RankAttrs, Rank) in first-visit order and keeps the objects alive (so that id() values are
never reused while the case runs).  A snapshot of one side is

    [structure, labels, rank lists, owners]  (layout of coq/Model/C10Check.v enc_snap)

structure : tree without identities; leaf = int, fiber = [[coordinate as list, sub] ...]
labels    : numbers of the objects in visiting order (fiber, its private attrs object, that
            object's default if it is a Payload/Fiber instance, its owner rank, then the
            elements left to right; for a tensor afterwards rank by rank: rank, attrs,
            default, listed fibers)
rank lists: per rank the numbers of the listed fibers ([] for a fiber)
"""


class World:
    def __init__(self):
        self.num = {}
        self.keep = []

    def n(self, o):
        k = id(o)
        if k not in self.num:
            self.num[k] = len(self.num)
            self.keep.append(o)
        return self.num[k]


def _coord(c):
    if isinstance(c, tuple):
        out = []
        for x in c:
            out += _coord(x)
        return out
    return [int(c)]


def _visit_attrs(w, attrs, labels):
    from fibertree import Fiber, Payload
    labels.append(w.n(attrs))
    d = getattr(attrs, "_default", None)
    if isinstance(d, (Payload, Fiber)):
        labels.append(w.n(d))


def _walk(w, p, labels, owners=None):
    from fibertree import Fiber, Payload
    if isinstance(p, Fiber):
        labels.append(w.n(p))
        _visit_attrs(w, p._rank_attrs, labels)
        if p._owner is not None:
            labels.append(w.n(p._owner))
        if owners is not None:
            owners.append(p._owner)
        return [[_coord(c), _walk(w, q, labels, owners)] for c, q in zip(p.coords, p.payloads)]
    if isinstance(p, Payload):
        labels.append(w.n(p))
        v = p.value
        if isinstance(v, Fiber):
            return [[[], _walk(w, v, labels)]]       # a boxed fiber: not a legal state
        import ftutil as U
        v = U.undress(v)
        if isinstance(v, (bool, int)):
            return int(v)
        return -999
    labels.append(-1)                                 # an unboxed leaf: not a legal state
    return int(p) if isinstance(p, (bool, int)) else -999


def snap(w, x):
    """[structure, labels, rank lists, owner of every fiber (DFS): -1 none, else the position of
    the owner among the snapshot's own ranks (= their number for a foreign rank)]"""
    from fibertree import Tensor
    labels = []
    owners = []
    if isinstance(x, Tensor):
        st = _walk(w, x.getRoot(), labels, owners)
        rls = []
        for r in x.ranks:
            labels.append(w.n(r))
            _visit_attrs(w, r._attrs, labels)
            fl = [w.n(f) for f in r.fibers]
            labels += fl
            rls.append(fl)
        rids = [id(r) for r in x.ranks]
    else:
        st = _walk(w, x, labels, owners)
        rls = []
        rids = []
    codes = [-1 if o is None else (rids.index(id(o)) if id(o) in rids else len(rids)) for o in owners]
    return [st, labels, rls, codes]


# ---- attribute values (compared in the harness; the observation carries a flag)

def _attr_vals(attrs):
    from fibertree import Payload
    d = getattr(attrs, "_default", None)
    dv = Payload.get(d) if isinstance(d, Payload) else (d.__name__ if isinstance(d, type) else repr(type(d)))
    return (attrs._id if isinstance(attrs._id, (str, int, tuple)) else repr(attrs._id), repr(attrs._shape),
            attrs._estimated_shape, attrs._fmt, repr(dv))


def attr_values(x):
    from fibertree import Tensor, Fiber
    out = []

    def walk(f):
        out.append((_attr_vals(f._rank_attrs), repr(f._active_range), f._ordered, f._unique,
                    f._owner is None))
        for p in f.payloads:
            if isinstance(p, Fiber):
                walk(p)
    if isinstance(x, Tensor):
        walk(x.getRoot())
        for r in x.ranks:
            out.append(_attr_vals(r._attrs))
        out.append((x.getName(), x.getColor(), x.isMutable()))
    else:
        walk(x)
    return out


def id_lists(x):
    """identities of the mutable (list-valued) rank ids held by the attribute objects of x"""
    from fibertree import Tensor, Fiber
    out = set()

    def att(a):
        if isinstance(getattr(a, "_id", None), list):
            out.add(id(a._id))
            KEEP.append(a._id)

    def walk(f):
        att(f._rank_attrs)
        if f._owner is not None:
            att(f._owner._attrs)
        for p in f.payloads:
            if isinstance(p, Fiber):
                walk(p)
    if isinstance(x, Tensor):
        walk(x.getRoot())
        for r in x.ranks:
            att(r._attrs)
    else:
        walk(x)
    return out


KEEP = []


# ---- follow-up mutations: touch every mutable fiber and box reachable from one side

def _bump_coord(c, k):
    if isinstance(c, tuple):
        return c[:-1] + (_bump_coord(c[-1], k),)
    return c + k


def mutate_fiber_tree(f, k, seen):
    """in-place, each object once: every leaf box += k, every coordinate of every fiber += 1000
    (last component of a tuple coordinate)"""
    from fibertree import Fiber, Payload
    if id(f) in seen:
        return
    seen.add(id(f))
    for p in list(f.payloads):
        if isinstance(p, Fiber):
            mutate_fiber_tree(p, k, seen)
        elif isinstance(p, Payload) and id(p) not in seen:
            seen.add(id(p))
            if isinstance(p.value, Fiber):
                mutate_fiber_tree(p.value, k, seen)
            else:
                p.value = p.value + k
    for i in range(len(f.coords)):
        f.coords[i] = _bump_coord(f.coords[i], 1000)


def mutate(x, k, seen=None):
    """tensors: the tree as above and every rank's fiber list gets its first entry again"""
    from fibertree import Tensor
    seen = set() if seen is None else seen
    if isinstance(x, Tensor):
        mutate_fiber_tree(x.getRoot(), k, seen)
        for r in x.ranks:
            if id(r) not in seen:
                seen.add(id(r))
                if r.fibers:
                    r.fibers.append(r.fibers[0])
    else:
        mutate_fiber_tree(x, k, seen)


# ---- building operands from the case literal: leaf = int, fiber = [[coord list, sub] ...]

def build_fiber(t, shape=None, d=0, tell_default=True):
    """representation modes of ftutil (U.MODE): leaves dressed (int / float / int subclass), fibers
    built in two stages around read-only queries (touch); a non-zero leaf default is told to the
    fibers themselves only when tell_default"""
    from fibertree import Fiber
    import ftutil as U
    coords = [c[0] if len(c) == 1 else tuple(c) for c, _ in t]
    pays = [U.dress(s_) if isinstance(s_, int) else build_fiber(s_, None, d, tell_default) for _, s_ in t]
    kw = {} if shape is None else {"shape": shape}
    staged = U.MODE.get("touch") and len(coords) >= 2
    if staged:
        f = Fiber(coords[:-1], pays[:-1], **kw)
    else:
        f = Fiber(coords, pays, **kw) if coords else Fiber([], [], **kw)
    if d != 0 and tell_default:
        f._setDefault(U.dress(d))
    if U.MODE.get("touch"):
        U.touch(f)
    if staged:
        f.append(coords[-1], pays[-1])
    return f


def lit_width(t):
    """number of components of the top-level coordinates (1 if none)"""
    return len(t[0][0]) if t else 1


RANKS = ["M", "K", "N", "P"]
SHAPE = 16


def build_tensor(t, n, flat=1, d=0):
    """n ranks; when flat > 1 the top rank has `flat`-component tuple coordinates.  In the
    late_default mode the fibers are not told the leaf default: only T.setDefault(d) afterwards"""
    from fibertree import Tensor
    import ftutil as U
    root = build_fiber(t, None, d, not U.MODE.get("late_default"))
    if flat > 1:
        ids = [RANKS[:flat]] + RANKS[flat:flat + n - 1]
        shape = [tuple([SHAPE] * flat)] + [SHAPE] * (n - 1)
    else:
        ids = RANKS[:n]
        shape = [SHAPE] * n
    T = Tensor.fromFiber(rank_ids=ids, fiber=root, shape=shape)
    if d != 0:
        T.setDefault(U.dress(d))
    if U.MODE.get("touch"):
        U.touch(T.getRoot())
        for q in (lambda: T.getShape(), lambda: T.getDefault(), lambda: T.countValues()):
            try:
                q()
            except Exception:
                pass
    return T
