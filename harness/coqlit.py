"""coqlit — emit Coq 8.16 term syntax from Python values (used to write cases.v files).

Everything is emitted fully parenthesised so that terms can be nested without thinking
about precedence.  Integers are Z literals (the cases files open Z_scope)."""


def z(n):
    n = int(n)
    return "(%d)" % n if n < 0 else "%d" % n


def nat(n):
    assert n >= 0
    return "%d%%nat" % n


def b(x):
    return "true" if x else "false"


def lst(items):
    items = list(items)
    return "[" + "; ".join(items) + "]" if items else "[]"


def tup(*items):
    return "(" + ", ".join(items) + ")"


def opt(x, f=lambda s: s):
    return "None" if x is None else "(Some %s)" % f(x)


def app(ctor, *args):
    return "(" + " ".join([ctor] + list(args)) + ")"


def V(o):
    """nested lists / ints / bools / None -> term of type Obs.V"""
    if o is None:
        return "(VL [])"
    if isinstance(o, bool):
        return "(VZ 1)" if o else "(VZ 0)"
    if isinstance(o, int):
        return "(VZ %s)" % z(o)
    if isinstance(o, (list, tuple)):
        return "(VL %s)" % lst(V(x) for x in o)
    if isinstance(o, float):
        # an observation that is not an integer (a value no model observation contains) is kept as
        # a marked pair so that it is compared - and differs - like any other behaviour
        if o != o or o in (float("inf"), float("-inf")):
            return "(VL [(VZ (-7777)%Z); (VZ 0)])"
        if o == int(o):
            return "(VZ %s)" % z(int(o))
        return "(VL [(VZ (-7777)%%Z); (VZ %s)])" % z(int(round(o * 1000000)))
    if isinstance(o, str):
        return "(VL [(VZ (-7778)%%Z); (VZ %s)])" % z(len(o))
    raise TypeError("not an observation value: %r" % (o,))


def tree(t):
    """tree literal: int = Leaf; list of (coord, subtree) = Node"""
    if isinstance(t, int) and not isinstance(t, bool):
        return "(Leaf %s)" % z(t)
    return "(Node %s)" % lst(tup(z(c), tree(s)) for c, s in t)


def zlist(l):
    return lst(z(x) for x in l)


def unflat(tokens):
    """inverse of Obs.V_flat: token list -> nested python lists"""
    pos = 0

    def go():
        nonlocal pos
        tag = tokens[pos]
        pos += 1
        if tag == 0:
            v = tokens[pos]
            pos += 1
            return v
        n = tokens[pos]
        pos += 1
        return [go() for _ in range(n)]

    v = go()
    assert pos == len(tokens)
    return v
