"""c08_util — implementation driver and case generators for property C08 (splits).

Case (JSON-able dict):
  kind   : "uniform" | "nonuniform" | "equal" | "unequal" | "truediv" | "floordiv"
  tree   : tree literal (ftutil): list of [coord, subtree]; depth = depth+1 or more
  d      : leaf default
  shapes : per level (top to bottom, at least depth+1 entries) None | int  -- the shape of the fibers
           of that level (fiber mode: only the root's entry may be an int; tensor mode: all ints)
  active : None | [a0, a1]   explicit active range of the root fiber (fiber mode, depth 0 only)
  arg    : step (uniform, equal), list of boundaries (nonuniform), list of sizes (unequal),
           number of partitions (truediv, floordiv)
  pre, post : halo sizes;  rel : relativeCoords
  depth  : the depth= argument;  rankid : None | index of the rank named by rankid= (tensor entry);
           depth_kw : (with rankid) whether depth= is passed as well.  A rank id overrides the depth:
           eff(case) is the rank that has to be split
  tensor : bool  -- split through Tensor.splitXXX (rank ids / shape bookkeeping observed too)
  resplit: None | [kind2, arg2, pre2, post2]  -- every partition of a depth-0 split is split again
  d == NONE_D : the leaf default is None ("no empty value"): stored zeros are ordinary non-empty
           elements.  NONE_D never occurs as a payload, so in the model nothing but an empty fiber is
           empty; a default None coming back from the implementation is reported as NONE_D
  hist   : (optional, fiber mode) {"cut": k, "reads": [...], "grow": "append"|"ref"} -- the fibers at the
           split level are built from their first k elements, queried read-only, grown to the full
           literal, and only then split.  Not part of the Coq case: a correct implementation gives the
           same observation for every history that ends in the same tree.

Observation:
  fiber mode : X(depth, root)
  tensor mode: [rank ids as [i] / [i,1] / [i,0] (index of the operand's rank + acquired suffixes),
                shape or [], leaf default, X(eff, root),
                [rank ids, shape] of a second split naming the new lower rank "<id>.0" (or [-1, code])]
  X(0, f)  = [[a0, a1] of the upper fiber, shape-or-[] of the upper fiber,
              [[part, lower raw tree, [lo, hi] of the lower fiber, its shape-or-[]] ...]]
             with resplit each "lower raw tree" is replaced by X(0, lower) under the second split
  X(k, f)  = [[c, X(k-1, payload)] ...]     an element the split did not touch (empty payload)
             is reported as [c, [-3, raw tree]]; since fix S29 (_clearEmptyFibers) that raw tree
             is the empty fiber
  exception -> [-1, code]   1 AssertionError, 3 ValueError, 9 anything else
"""
import ftutil as U


def raw(t):
    """tree literal as observation: identical nesting"""
    return t


def _snap_any(p):
    from fibertree import Fiber
    if isinstance(p, Fiber):
        return U.snap(p)
    from fibertree import Payload
    n = 0
    while isinstance(p, Payload):
        p = p.value
        n += 1
    return p if n == 1 else [-2, n]


def _opt(x):
    return [] if x is None else [x]


def eff(case):
    """the rank that is split: a rank id overrides the depth argument"""
    r = case.get("rankid")
    return case["depth"] if r is None else r


def _ids(names, ids0):
    out = []
    for r in names:
        parts = r.split(".")
        out.append([ids0.index(parts[0])] + [int(x) for x in parts[1:]])
    return out


def _call_split(f, kind, arg, pre, post, rel, depth, rankid=None, depth_kw=True):
    kw = {}
    if rankid is not None:
        kw["rankid"] = rankid
        if depth_kw:
            kw["depth"] = depth
    elif depth:
        kw["depth"] = depth
    if kind == "uniform":
        return f.splitUniform(arg, relativeCoords=rel, pre_halo=pre, post_halo=post, **kw)
    if kind == "nonuniform":
        return f.splitNonUniform(list(arg), relativeCoords=rel, pre_halo=pre, post_halo=post, **kw)
    if kind == "equal":
        return f.splitEqual(arg, relativeCoords=rel, pre_halo=pre, post_halo=post, **kw)
    if kind == "unequal":
        return f.splitUnEqual(list(arg), relativeCoords=rel, pre_halo=pre, post_halo=post, **kw)
    if kind == "truediv":
        return f / arg
    if kind == "floordiv":
        return f // arg
    raise KeyError(kind)


def _obs_split(up, resplit=None):
    from fibertree import Fiber
    parts = []
    for c, lower in zip(up.coords, up.payloads):
        assert isinstance(lower, Fiber)
        if resplit is None:
            body = U.snap(lower)
        else:
            k2, a2, pre2, post2 = resplit
            body = _obs_split(_call_split(lower, k2, a2, pre2, post2, False, 0))
        parts.append([c, body, list(lower.getActive()), _opt(lower.getRankAttrs().getShape())])
    return [list(up.getActive()), _opt(up.getRankAttrs().getShape()), parts]


def _obs_depth(f, k, d, orig):
    """orig = the operand's tree literal at this node: an element whose payload was empty in the
    operand is not visited by updatePayloads and is reported raw"""
    if k == 0:
        return _obs_split(f)
    out = []
    assert len(f.coords) == len(orig)
    for (c, p), (_, o) in zip(zip(f.coords, f.payloads), orig):
        if k == 1 and U.is_empty_lit(o, d):
            out.append([c, [-3, _snap_any(p)]])
        else:
            out.append([c, _obs_depth(p, k - 1, d, o)])
    return out


NONE_D = -999983


def _impl_d(d):
    """default handed to the shared builders (the sentinel is replaced by None afterwards)"""
    return 0 if d == NONE_D else d


def _set_none_default(f):
    """leaf fibers of an unowned tree get default None"""
    from fibertree import Fiber
    if f.payloads and isinstance(f.payloads[0], Fiber):
        for p in f.payloads:
            _set_none_default(p)
    else:
        f._setDefault(None)


def _reads(f, names):
    for n in names:
        try:
            if n == "active":
                f.getActive()
            elif n == "iter":
                [c for c, _ in f.iterActive(tick=False)]
            elif n == "shape":
                f.getShape(all_ranks=False)
                f.estimateShape(all_ranks=False)
            elif n == "max":
                f.maxCoord()
            elif n == "and":
                [c for c, _ in f & f]
            elif n == "touch":
                U.touch(f)
        except Exception:
            pass


def _build_hist(t, d, lev, target, hist, root_shape=None, root_active=None):
    """like U.build_fiber, but every fiber at level `target` is built in two steps around read-only
    queries: first `cut` elements -> reads -> the remaining elements are appended"""
    from fibertree import Fiber
    coords = [c for c, _ in t]
    pays = [U.dress(s) if isinstance(s, int) else _build_hist(s, d, lev + 1, target, hist) for _, s in t]
    leaf = not (pays and isinstance(pays[0], Fiber))
    staged = (lev == target and len(coords) >= 1)
    k = min(hist["cut"], len(coords) - 1) if staged else len(coords)
    f = Fiber(coords[:k], pays[:k]) if k else Fiber([], [])
    if lev == 0:
        if root_shape is not None:
            f.getRankAttrs().setShape(root_shape)
        if root_active is not None:
            f.setActive(tuple(root_active))
    if d == NONE_D:
        if leaf:
            f._setDefault(None)
    elif d != 0:
        f._setDefault(U.dress(d))
    if staged:
        _reads(f, hist["reads"])
        for c, pl in zip(coords[k:], pays[k:]):
            if hist["grow"] == "ref" and leaf and d != NONE_D:
                ref = f.getPayloadRef(c)
                ref <<= pl
            else:
                f.append(c, pl)
    return f


def build_root(case):
    """fiber mode: the operand fiber with shape / active range of the root set"""
    d = case["d"]
    sh = case["shapes"][0]
    if case.get("hist"):
        return _build_hist(case["tree"], d, 0, case["depth"], case["hist"], sh, case.get("active"))
    f = U.build_fiber(case["tree"], _impl_d(d))
    if d == NONE_D:
        _set_none_default(f)
    if sh is not None:
        f.getRankAttrs().setShape(sh)
    if case.get("active") is not None:
        f.setActive(tuple(case["active"]))
    return f


def run(case):
    kind, arg = case["kind"], case["arg"]
    pre, post, rel, depth = case["pre"], case["post"], case["rel"], case["depth"]
    try:
        if case.get("tensor"):
            nlev = len(case["shapes"])
            T = U.build_tensor(case["tree"], nlev, case["shapes"], _impl_d(case["d"]))
            if case["d"] == NONE_D:
                T.setDefault(None)
            ids0 = T.getRankIds()
            e = eff(case)
            rk = None if case.get("rankid") is None else ids0[case["rankid"]]
            R = _call_split(T, kind, arg, pre, post, rel, depth, rk, case.get("depth_kw", True))
            sh = R.getShape()
            dflt = R.getDefault()
            from fibertree import Payload
            dflt = Payload.get(dflt)
            if dflt is None:
                dflt = NONE_D
            try:
                R2 = R.splitEqual(2, rankid=ids0[e] + ".0")
                sh2 = R2.getShape()
                second = [_ids(R2.getRankIds(), ids0), [] if sh2 is None else list(sh2)]
            except Exception:
                second = [-1, 9]
            return [_ids(R.getRankIds(), ids0), [] if sh is None else list(sh), dflt,
                    _obs_depth(R.getRoot(), e, case["d"], case["tree"]), second]
        f = build_root(case)
        before = U.snap(f)
        r = _call_split(f, kind, arg, pre, post, rel, depth)
        assert U.snap(f) == before
        if depth == 0:
            return _obs_split(r, case.get("resplit"))
        return _obs_depth(r, depth, case["d"], case["tree"])   # fiber mode: no rank ids, eff = depth
    except AssertionError:
        return [-1, 1]
    except ValueError:
        return [-1, 3]
    except Exception:
        return [-1, 9]
