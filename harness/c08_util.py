"""c08_util — implementation driver and case generators for property C08 (splits).

Case (JSON-able dict):
  kind   : "uniform" | "nonuniform" | "equal" | "unequal" | "truediv" | "floordiv"
  tree   : tree literal (ftutil): list of [coord, subtree]; depth = depth+1 or more
  d      : leaf default
  shapes : per level (top to bottom, at least depth+1 entries) None | int  -- the shape of the fibers
           of that level (fiber mode: only the root's entry may be an int; tensor mode: all ints)
  active : None | [a0, a1]   explicit active range of the root fiber (fiber mode, depth 0 only)
  arg    : step (uniform, equal), list of boundaries (nonuniform), list of sizes (unequal),
           number of partitions (truediv, floordiv)
  pre, post : halo sizes;  rel : relativeCoords;  depth : split depth
  tensor : bool  -- split through Tensor.splitXXX (rank ids / shape bookkeeping observed too)
  resplit: None | [kind2, arg2, pre2, post2]  -- every partition of a depth-0 split is split again

Observation:
  fiber mode : X(depth, root)
  tensor mode: [rank ids as [i] / [i,1] / [i,0], shape or [], leaf default, X(depth, root)]
  X(0, f)  = [[a0, a1] of the upper fiber, shape-or-[] of the upper fiber,
              [[part, lower raw tree, [lo, hi] of the lower fiber, its shape-or-[]] ...]]
             with resplit each "lower raw tree" is replaced by X(0, lower) under the second split
  X(k, f)  = [[c, X(k-1, payload)] ...]     an element the split did not touch (empty payload)
             is reported as [c, [-3, raw tree]]; since fix S29 (_clearEmptyFibers) that raw tree
             is the empty fiber
  exception -> [-1, code]   1 AssertionError, 3 ValueError, 9 anything else
"""
import ftutil as U


def raw(t):
    """tree literal as observation: identical nesting"""
    return t


def _snap_any(p):
    from fibertree import Fiber
    if isinstance(p, Fiber):
        return U.snap(p)
    from fibertree import Payload
    n = 0
    while isinstance(p, Payload):
        p = p.value
        n += 1
    return p if n == 1 else [-2, n]


def _opt(x):
    return [] if x is None else [x]


def _call_split(f, kind, arg, pre, post, rel, depth, rankid=None):
    kw = {}
    if depth:
        kw["depth"] = depth
    if kind == "uniform":
        return f.splitUniform(arg, relativeCoords=rel, pre_halo=pre, post_halo=post, **kw)
    if kind == "nonuniform":
        return f.splitNonUniform(list(arg), relativeCoords=rel, pre_halo=pre, post_halo=post, **kw)
    if kind == "equal":
        return f.splitEqual(arg, relativeCoords=rel, pre_halo=pre, post_halo=post, **kw)
    if kind == "unequal":
        return f.splitUnEqual(list(arg), relativeCoords=rel, pre_halo=pre, post_halo=post, **kw)
    if kind == "truediv":
        return f / arg
    if kind == "floordiv":
        return f // arg
    raise KeyError(kind)


def _obs_split(up, resplit=None):
    from fibertree import Fiber
    parts = []
    for c, lower in zip(up.coords, up.payloads):
        assert isinstance(lower, Fiber)
        if resplit is None:
            body = U.snap(lower)
        else:
            k2, a2, pre2, post2 = resplit
            body = _obs_split(_call_split(lower, k2, a2, pre2, post2, False, 0))
        parts.append([c, body, list(lower.getActive()), _opt(lower.getRankAttrs().getShape())])
    return [list(up.getActive()), _opt(up.getRankAttrs().getShape()), parts]


def _obs_depth(f, k, d, orig):
    """orig = the operand's tree literal at this node: an element whose payload was empty in the
    operand is not visited by updatePayloads and is reported raw"""
    if k == 0:
        return _obs_split(f)
    out = []
    assert len(f.coords) == len(orig)
    for (c, p), (_, o) in zip(zip(f.coords, f.payloads), orig):
        if k == 1 and U.is_empty_lit(o, d):
            out.append([c, [-3, _snap_any(p)]])
        else:
            out.append([c, _obs_depth(p, k - 1, d, o)])
    return out


def build_root(case):
    """fiber mode: the operand fiber with shape / active range of the root set"""
    f = U.build_fiber(case["tree"], case["d"])
    sh = case["shapes"][0]
    if sh is not None:
        f.getRankAttrs().setShape(sh)
    if case.get("active") is not None:
        f.setActive(tuple(case["active"]))
    return f


def run(case):
    kind, arg = case["kind"], case["arg"]
    pre, post, rel, depth = case["pre"], case["post"], case["rel"], case["depth"]
    try:
        if case.get("tensor"):
            nlev = len(case["shapes"])
            T = U.build_tensor(case["tree"], nlev, case["shapes"], case["d"])
            ids0 = T.getRankIds()
            R = _call_split(T, kind, arg, pre, post, rel, depth)
            ids = []
            for r in R.getRankIds():
                if r.endswith(".1") or r.endswith(".0"):
                    ids.append([ids0.index(r[:-2]), int(r[-1])])
                else:
                    ids.append([ids0.index(r)])
            sh = R.getShape()
            dflt = R.getDefault()
            from fibertree import Payload
            dflt = Payload.get(dflt)
            return [ids, [] if sh is None else list(sh), dflt, _obs_depth(R.getRoot(), depth, case["d"], case["tree"])]
        f = build_root(case)
        before = U.snap(f)
        r = _call_split(f, kind, arg, pre, post, rel, depth)
        assert U.snap(f) == before
        if depth == 0:
            return _obs_split(r, case.get("resplit"))
        return _obs_depth(r, depth, case["d"], case["tree"])
    except AssertionError:
        return [-1, 1]
    except ValueError:
        return [-1, 3]
    except Exception:
        return [-1, 9]
