"""store_hist — shared by C01, C02, C03: histories of public mutators/accessors on a tensor.

case = {"n": ranks, "d": leaf default, "tree": tree literal, "ops": [op...]}
op   = ["getref", pt, w] | ["get", pt] | ["append", path, c, v] | ["setitem", path, pos, oc, ov]
     | ["clear", path] | ["updcoords", path, depth, sg, k] | ["updpay", path, depth, k]
     | ["shaperef", path, lo, hi, step] | ["getpos", path, c, spk] | ["getposref", path, c, spk]
     | ["getsp", path, c, spk] | ["getrefsp", path, c, spk, w] | ["getd", pt, dflt]
     | ["appendfib", path, c, tree] | ["extend", path, tree] | ["setitemfib", path, pos, tree]
     | ["assignfib", path, tree]      (fiber-valued mutators; the argument fiber is a tree literal)
     | ["setitemcf", path, pos, c, tree]   (f[pos] = CoordPayload(c, <fiber tree>) on an interior fiber)
w    = ["none"] | ["assign", v] | ["add", v];  spk = None or a seed k (start_pos = k mod len)
observation = [state0, [[outcome, state] per op]]; state = [tree, rank paths, owners_ok]
"""
import json
import coqlit as L
import ftutil as U

SHAPE = 12


# ------------------------------------------------------------------ Coq literals

def w_coq(w):
    return {"none": "WNone", "assign": "(WAssign %s)", "add": "(WAdd %s)"}[w[0]] % (() if w[0] == "none" else (L.z(w[1]),))


def sp_coq(spk):
    return "None" if spk is None else "(Some %s)" % L.nat(spk)


def op_coq(o):
    k = o[0]
    if k == "getref":
        return "(OGetRef %s %s)" % (L.zlist(o[1]), w_coq(o[2]))
    if k == "get":
        return "(OGet %s)" % L.zlist(o[1])
    if k == "getd":
        return "(OGetD %s %s)" % (L.zlist(o[1]), L.z(o[2]))
    if k == "append":
        return "(OAppend %s %s %s)" % (L.zlist(o[1]), L.z(o[2]), L.z(o[3]))
    if k == "setitem":
        return "(OSetItem %s %s %s %s)" % (L.zlist(o[1]), L.z(o[2]), L.opt(o[3], L.z), L.opt(o[4], L.z))
    if k == "clear":
        return "(OClear %s)" % L.zlist(o[1])
    if k == "updcoords":
        return "(OUpdCoords %s %s %s %s)" % (L.zlist(o[1]), L.nat(o[2]), L.z(o[3]), L.z(o[4]))
    if k == "updtbl":
        return "(OUpdCoordsTbl %s %s %s %s)" % (L.zlist(o[1]), L.nat(o[2]),
                                                L.lst(L.tup(L.z(a), L.z(b)) for a, b in o[3]), L.z(o[4]))
    if k == "updpay":
        return "(OUpdPayloads %s %s %s)" % (L.zlist(o[1]), L.nat(o[2]), L.z(o[3]))
    if k == "shaperef":
        return "(OShapeRef %s %s %s %s)" % (L.zlist(o[1]), L.z(o[2]), L.z(o[3]), L.z(o[4]))
    if k == "getpos":
        return "(OGetPos %s %s %s)" % (L.zlist(o[1]), L.z(o[2]), sp_coq(o[3]))
    if k == "getposref":
        return "(OGetPosRef %s %s %s)" % (L.zlist(o[1]), L.z(o[2]), sp_coq(o[3]))
    if k == "getsp":
        return "(OGetSP %s %s %s)" % (L.zlist(o[1]), L.z(o[2]), sp_coq(o[3]))
    if k == "getrefsp":
        return "(OGetRefSP %s %s %s %s)" % (L.zlist(o[1]), L.z(o[2]), sp_coq(o[3]), w_coq(o[4]))
    if k == "appendfib":
        return "(OAppendFib %s %s %s)" % (L.zlist(o[1]), L.z(o[2]), L.tree(o[3]))
    if k == "extend":
        return "(OExtend %s %s)" % (L.zlist(o[1]), L.tree(o[2]))
    if k == "setitemfib":
        return "(OSetItemFib %s %s %s)" % (L.zlist(o[1]), L.z(o[2]), L.tree(o[3]))
    if k == "assignfib":
        return "(OAssignFib %s %s)" % (L.zlist(o[1]), L.tree(o[2]))
    if k == "setitemcf":
        return "(OSetItemCF %s %s %s %s)" % (L.zlist(o[1]), L.z(o[2]), L.z(o[3]), L.tree(o[4]))
    raise ValueError(k)


def case_to_coq(c):
    return "(Build_hist_case %s %s %s %s)" % (L.nat(c["n"]), L.z(c["d"]), L.tree(c["tree"]),
                                               L.lst(op_coq(o) for o in c["ops"]))


# ------------------------------------------------------------------ generator

def all_paths(tree, n, pre=()):
    """paths of the fibers of the literal (root = ())"""
    out = [list(pre)]
    if len(pre) + 1 < n:
        for c, s in tree:
            out += all_paths(s, n, pre + (c,))
    return out


def coords_at(tree, path):
    """coordinates of the fiber of the literal addressed by `path` (None if there is none)"""
    t = tree
    for c in path:
        if isinstance(t, int):
            return None
        sub = [s for c0, s in t if c0 == c]
        if not sub:
            return None
        t = sub[0]
    return None if isinstance(t, int) else [c for c, _ in t]


def gen_w(rng, d):
    r = rng.random()
    if r < 0.3:
        return ["none"]
    if r < 0.65 or d == U.NONE_D:                    # no arithmetic on a None default
        return ["assign", rng.choice([d, d, 1, 2, 5, 7, -3, 0])]
    return ["add", rng.choice([0, 1, 2, -1, 4])]


def gen_case(rng, kinds, maxlen=10, depths=(1, 2, 2, 3)):
    n = rng.choice(depths)
    d = rng.choice([0, 0, 0, 2])
    shapes = [rng.randint(2, 7) for _ in range(n)]
    # (default=None is not generated here: maybe_box leaves None unboxed, so a None default handed out by
    # getPayload / inserted by getPayloadRef is a bare None that cannot be a reference - mutation
    # histories over None-default tensors are outside what C01-C03 can be asked about; the read-only
    # properties C05, C08, C12-C15 cover default=None through the NONE_D sentinel)
    tree = U.gen_fiber(rng, n, shapes, d)
    paths = all_paths(tree, n)
    ops = []
    for _ in range(rng.randint(1, maxlen)):
        k = rng.choice(kinds)
        path = list(rng.choice(paths))
        lvl_shape = 8

        def coord():
            return rng.randint(0, lvl_shape)
        if rng.random() < 0.08:                       # a path that may not exist
            path = [coord() for _ in range(rng.randint(0, n - 1))]
        if k == "getref":
            ln = rng.choice([n, n, n, rng.randint(1, n)])
            pt = (path + [coord() for _ in range(n)])[:ln]
            w = gen_w(rng, d) if ln == n else ["none"]
            ops.append(["getref", pt, w])
            for j in range(1, len(pt)):
                if pt[:j] not in paths and j < n:
                    paths.append(pt[:j])
        elif k == "get":
            ln = rng.choice([n, n, rng.randint(1, n)])
            ops.append(["get", (path + [coord() for _ in range(n)])[:ln]])
        elif k == "getd":
            ln = rng.choice([n, n, rng.randint(1, n)])
            ops.append(["getd", (path + [coord() for _ in range(n)])[:ln], rng.choice([-1, 7, d])])
        elif k == "append":
            p = (path + [coord() for _ in range(n)])[:n - 1]
            ops.append(["append", p, rng.randint(0, 14), rng.choice([d, 1, 3, 8])])
        elif k == "setitem":
            full = rng.random() < 0.7
            p = (path + [coord() for _ in range(n)])[:n - 1] if full else path
            oc = None if rng.random() < 0.3 else rng.randint(0, 12)
            ov = (None if rng.random() < 0.3 else rng.choice([d, 1, 4, 6])) if len(p) == n - 1 else None
            ops.append(["setitem", p, rng.choice([0, 0, 1, 1, 2, 3, 5, -1, -1, -2, -4, 7]), oc, ov])
        elif k == "clear":
            ops.append(["clear", path])
        elif k == "updcoords":
            depth = rng.randint(0, max(0, n - 1 - len(path)))
            ops.append(["updcoords", path, depth, rng.choice([1, 1, -1, -1]), rng.choice([0, 0, 1, 3, 20, -2, -5])])
        elif k == "updtbl":
            depth = rng.randint(0, max(0, n - 1 - len(path)))
            src = rng.sample(range(0, 9), rng.randint(1, 5))
            dst = rng.sample(range(-6, 12), len(src))         # distinct images (may collide with c+off: guarded)
            ops.append(["updtbl", path, depth, [[a, b] for a, b in zip(src, dst)], rng.choice([0, 0, 20, 100, -9])])
        elif k == "updpay":
            depth = n - 1 - len(path)
            ops.append(["updpay", path, depth, rng.choice([1, -1, 2, 5])])
        elif k == "shaperef":
            lo = rng.randint(0, 4)
            ops.append(["shaperef", path, lo, lo + rng.randint(0, 5), rng.choice([1, 1, 2, 3])])
            if len(path) + 1 < n:
                pass
        elif k in ("getpos", "getposref", "getsp"):
            ops.append([k, path, coord(), rng.choice([None, None, 0, 1, 2, 3, 5])])
        elif k == "getrefsp":
            w = gen_w(rng, d) if len(path) == n - 1 else ["none"]
            ops.append([k, path, coord(), rng.choice([None, None, 0, 1, 2, 3, 5]), w])
        elif k in ("appendfib", "setitemfib"):
            # an interior fiber gets a fiber payload of the matching depth (now and then a wrong one)
            if len(path) + 1 >= n and rng.random() < 0.9:
                path = path[:max(0, n - 2)]
            dep = n - len(path) - 1
            if rng.random() < 0.06:
                dep = max(0, dep + rng.choice([-1, 1]))
            t = gen_arg(rng, dep, d)
            if k == "appendfib":
                c = rng.choice([rng.randint(0, 14), rng.randint(8, 20)])
                ops.append([k, path, c, t])
                if len(path) + 1 < n and path + [c] not in paths:
                    paths.append(path + [c])
            else:
                ops.append([k, path, rng.choice([0, 0, 1, 1, 2, 3, -1, -1, -2, -4, 6]), t])
        elif k == "setitemcf":
            # f[pos] = CoordPayload(c, fiber) on an interior fiber: both the coordinate and the sub-fiber are
            # replaced; the coordinate is aimed at the neighbours of the position (as the initial tree has
            # them - the history may have moved them) so that collisions / out-of-order coordinates, which
            # must be refused before anything is released, are as frequent as accepted ones
            if len(path) + 1 >= n and rng.random() < 0.9:
                path = path[:max(0, n - 2)]
            dep = n - len(path) - 1
            if rng.random() < 0.06:
                dep = max(0, dep + rng.choice([-1, 1]))
            t = gen_arg(rng, dep, d)
            cs = coords_at(tree, path) or []
            pos = rng.choice([0, 0, 1, 1, 2, 3, -1, -1, -2, -4, 6])
            if cs and rng.random() < 0.6:
                pos = rng.randint(-len(cs), len(cs) - 1)        # mostly an existing position
            i = pos + len(cs) if pos < 0 else pos
            r = rng.random()
            if 0 <= i < len(cs) and r < 0.8:
                left = cs[i - 1] if i > 0 else None
                right = cs[i + 1] if i + 1 < len(cs) else None
                cands = [cs[i], cs[i] + 1, cs[i] - 1]                       # the current one / next to it
                if left is not None:
                    cands += [left, left, left - 1, left + 1]                # collides with / below the left neighbour
                if right is not None:
                    cands += [right, right, right + 1, right - 1]            # collides with / above the right neighbour
                c = rng.choice(cands)
            else:
                c = rng.randint(0, 12)
            ops.append([k, path, pos, c, t])
            if len(path) + 1 < n and path + [c] not in paths:
                paths.append(path + [c])
        elif k in ("extend", "assignfib"):
            dep = n - len(path)
            if rng.random() < 0.06:
                dep = max(1, dep + rng.choice([-1, 1]))
            t = gen_arg(rng, dep, d, lo=rng.choice([0, 0, 5, 9]) if k == "extend" else 0)
            ops.append([k, path, t])
    return {"n": n, "d": d, "tree": tree, "ops": ops}


def gen_arg(rng, depth, d, lo=0):
    """tree literal for an argument fiber of `depth` ranks (depth 0: a leaf value); coordinates start at lo"""
    if depth <= 0:
        return rng.choice([d, 1, 3, 8])
    shapes = [rng.randint(1, 5) for _ in range(depth)]
    t = U.gen_fiber(rng, depth, shapes, d)
    t = [[c + lo, s] for c, s in t]
    if rng.random() < 0.04 and len(t) >= 2:          # not strictly increasing: outside the guard
        t[0], t[1] = t[1], t[0]
    return t


def plain_wf(k, t):
    """the model's guard plain_wf: uniform depth k, strictly increasing coordinates"""
    if isinstance(t, int):
        return k == 0
    if k == 0:
        return False
    cs = [c for c, _ in t]
    return all(a < b for a, b in zip(cs, cs[1:])) and all(plain_wf(k - 1, s) for _, s in t)


def build_arg(t, depth, d):
    """argument fiber (unowned) of `depth` ranks from a literal: leaf rank default d, interior default Fiber
    (an unowned fiber otherwise guesses its default from its first payload, and <<= copies that guess
    into the owning rank)"""
    from fibertree import Fiber
    coords = [c for c, _ in t]
    if depth == 1:
        f = Fiber(coords, [dress(s, c) for c, s in t]) if coords else Fiber([], [])
        f._setDefault(U.dress(d))
    else:
        # interior argument fibers keep whatever default an unowned fiber guesses (a scalar 0 when
        # empty): since the fix of S31 an owned destination no longer copies that guess into its rank
        f = Fiber(coords, [build_arg(s, depth - 1, d) for _, s in t]) if coords else Fiber([], [])
    return f


ALL_KINDS = ["getref", "getref", "get", "getd", "append", "setitem", "setitem", "clear", "updcoords", "updtbl", "updtbl", "updpay",
             "shaperef", "getpos", "getposref", "getsp", "getrefsp",
             "appendfib", "appendfib", "extend", "extend", "setitemfib", "setitemfib", "assignfib", "assignfib",
             "setitemcf", "setitemcf"]
ACCESS_KINDS = ["getref", "getref", "getref", "get", "get", "getd", "getd", "getpos", "getposref", "getsp", "getrefsp"]


def shrinks(case):
    import copy
    for i in range(len(case["ops"])):
        c = copy.deepcopy(case)
        del c["ops"][i]
        yield c
    t = case["tree"]
    for i in range(len(t)):
        c = copy.deepcopy(case)
        del c["tree"][i]
        yield c
    for i, (co, s) in enumerate(t):
        if not isinstance(s, int):
            for j in range(len(s)):
                c = copy.deepcopy(case)
                del c["tree"][i][1][j]
                yield c


def describe(case):
    kinds = sorted(set(o[0] for o in case["ops"]))
    out = {"depth": case["n"], "len": len(case["ops"]),
           "explicit_default": U.has_explicit_default(case["tree"], case["d"]),
           "empty_subfiber": U.has_empty_sub(case["tree"], case["d"])}
    for k in kinds:                                   # operation histogram: histories containing each kind
        out["op_" + k] = "histories"
    return out


def nontrivial(case):
    return bool(case["tree"]) and len(case["ops"]) >= 1


# ------------------------------------------------------------------ implementation side

def state_obs(T, n):
    from fibertree import Fiber
    root = T.getRoot()
    ids = {}
    owners_ok = True

    def walk(f, path):
        nonlocal owners_ok
        ids[id(f)] = list(path)
        k = len(path)
        if f.getOwner() is not T.ranks[k]:
            owners_ok = False
        for c, p in zip(f.coords, f.payloads):
            if isinstance(p, Fiber):
                walk(p, path + [c])
    walk(root, [])
    ranks = []
    for r in T.ranks:
        ranks.append([[ids[id(f)]] if id(f) in ids else [] for f in r.getFibers()])
    return [U.snap(root), ranks, owners_ok]


def resolve(root, path):
    from fibertree import Fiber
    f = root
    for c in path:
        if c not in f.coords:
            return None
        p = f.payloads[f.coords.index(c)]
        if not isinstance(p, Fiber):
            return None
        f = p
    return f


def pay_obs(p):
    from fibertree import Fiber, Payload
    if isinstance(p, Fiber):
        return [0, U.snap(p)]
    n = 0
    while isinstance(p, Payload):
        p = p.value
        n += 1
    if n != 1:
        return [0, [-2, n]]
    return [0, U.undress(p)]


class SubInt(int):
    """an int subclass (as enum.IntEnum members, numpy-like scalars, user value types are): every leaf must
    still be stored singly boxed whatever the concrete type of the value handed to a mutator"""
    __slots__ = ()


def dress(v, salt=0):
    """the value handed to the implementation: every third one as an int subclass (deterministic in the case)"""
    if v is None or isinstance(v, bool) or not isinstance(v, int):
        return v
    if v == U.NONE_D:
        return U.dress(v)
    return SubInt(v) if (v + salt) % 3 == 0 else v


def apply_w(ref, w):
    if w[0] == "assign":
        ref <<= dress(w[1], 1)
    elif w[0] == "add":
        ref += dress(w[1], 1)
    return ref


def norm_sp(spk, f):
    if spk is None or len(f.coords) == 0:
        return None
    return spk % len(f.coords)


def ref_guard(f, c, sp):
    cs = f.coords
    idx = len(cs)
    if sp is None:
        import bisect
        idx = bisect.bisect_left(cs, c)
    else:
        for i in range(sp, len(cs)):
            if cs[i] >= c:
                idx = i
                break
    e1 = idx < len(cs) and cs[idx] == c
    return e1 or (c not in cs)


def do_op(T, n, o, d=0):
    """returns the outcome observation"""
    from fibertree import CoordPayload
    root = T.getRoot()
    k = o[0]
    if k == "getref":
        pt = o[1]
        if not (1 <= len(pt) <= n):
            return [2]
        ref = T.getPayloadRef(*pt)
        if len(pt) == n:
            ref = apply_w(ref, o[2])
        return [0, pay_obs(ref)]
    if k == "get":
        pt = o[1]
        if not (1 <= len(pt) <= n):
            return [2]
        return [0, pay_obs(T.getPayload(*pt))]
    if k == "getd":
        pt = o[1]
        if not (1 <= len(pt) <= n):
            return [2]
        return [0, pay_obs(T.getPayload(*pt, default=o[2], allocate=False))]
    path = o[1]
    f = resolve(root, path)
    if k in ("appendfib", "setitemfib"):
        t = o[3]
        dep = n - len(path) - 1
        if not (len(path) + 1 < n and plain_wf(dep, t)) or f is None:
            return [2]
        if k == "appendfib":
            f.append(o[2], build_arg(t, dep, d))
        else:
            f[o[2]] = build_arg(t, dep, d)
        return [0, []]
    if k == "setitemcf":
        t = o[4]
        dep = n - len(path) - 1
        if not (len(path) + 1 < n and plain_wf(dep, t)) or f is None:
            return [2]
        f[o[2]] = CoordPayload(o[3], build_arg(t, dep, d))
        return [0, []]
    if k in ("extend", "assignfib"):
        t = o[2]
        dep = n - len(path)
        if isinstance(t, int) or not (len(path) < n and plain_wf(dep, t)) or f is None:
            return [2]
        if k == "extend":
            f.extend(build_arg(t, dep, d))
        else:
            f <<= build_arg(t, dep, d)
        return [0, []]
    if k == "append":
        if len(path) + 1 != n or f is None:
            return [2]
        f.append(o[2], dress(o[3], o[2]))
        return [0, []]
    if k == "setitem":
        if not (len(path) + 1 == n or (len(path) < n and o[4] is None)) or f is None:
            return [2]
        if o[3] is None and o[4] is None:
            # CoordPayload(None, None): nothing to do; the model keeps both
            f[o[2]] = CoordPayload(None, None)
        else:
            f[o[2]] = CoordPayload(o[3], dress(o[4], o[2]))
        return [0, []]
    if k == "clear":
        if not len(path) < n or f is None:
            return [2]
        f.clear()
        return [0, []]
    if k == "updcoords":
        depth, sg, kk = o[2], o[3], o[4]
        if not (len(path) + depth < n and sg in (1, -1)) or f is None:
            return [2]
        f.updateCoords(lambda i, c, p: sg * c + kk, depth=depth)
        return [0, []]
    if k == "updtbl":
        depth, tbl, off = o[2], dict((a, b) for a, b in o[3]), o[4]
        if not (len(path) + depth < n) or f is None:
            return [2]
        fn = lambda c: tbl.get(c, c + off)

        def distinct(g, d):
            from fibertree import Fiber
            if d == 0:
                im = [fn(c) for c in g.coords]
                return len(set(im)) == len(im)
            return all(distinct(p, d - 1) for p in g.payloads if isinstance(p, Fiber))
        if not distinct(f, depth):
            return [2]     # outside the documented domain ("unique not checked")
        f.updateCoords(lambda i, c, p: fn(c), depth=depth)
        return [0, []]
    if k == "updpay":
        depth, kk = o[2], o[3]
        if len(path) + depth + 1 != n or f is None:
            return [2]
        f.updatePayloads(lambda i, c, p: p + kk, depth=depth)
        return [0, []]
    if k == "shaperef":
        lo, hi, stp = o[2], o[3], o[4]
        if not (len(path) < n and stp > 0 and lo >= 0) or f is None:
            return [2]
        for _ in f.iterRangeShapeRef(lo, hi, stp):
            pass
        return [0, []]
    if k in ("getpos", "getsp", "getposref", "getrefsp"):
        if not len(path) < n or f is None:
            return [2]
        c = o[2]
        sp = norm_sp(o[3], f)
        if k == "getpos":
            r = f.getPosition(c, start_pos=sp)
            return [0, [1, [] if r is None else [r]]]
        if k == "getsp":
            return [0, pay_obs(f.getPayload(c, start_pos=sp))]
        if not ref_guard(f, c, sp):
            return [2]
        if k == "getposref":
            r = f.getPositionRef(c, start_pos=sp)
            return [0, [1, [] if r is None else [r]]]
        ref = f.getPayloadRef(c, start_pos=sp)
        if len(path) + 1 == n:
            ref = apply_w(ref, o[4])
        return [0, pay_obs(ref)]
    raise ValueError(k)


def run_impl(case):
    from fibertree.core.fiber import CoordinateError
    n = case["n"]
    # every third history runs on a tensor whose shape is only estimated at construction (and is
    # stale as soon as the history inserts beyond it): no modelled operation may consult it
    import os
    # (only from trees with a full-depth path: a rank whose estimate is empty has no shape at all, and
    # updateCoords then trips its closing "type of shape" assertion after doing its work - an error
    # that is not a rejection for coordinate order and that C01-C03 say nothing about)
    est = ((len(json.dumps(case, sort_keys=True)) % 3 == 0) or os.environ.get("STORE_EST") == "1") \
        and _full_depth(case["tree"], n)
    U.MODE["none_default"] = case["d"] == U.NONE_D
    T = U.build_tensor(case["tree"], n, None if est else [SHAPE] * n, case["d"])
    out = [state_obs(T, n)]
    steps = []
    for o in case["ops"]:
        try:
            oc = do_op(T, n, o, case["d"])
        except (AssertionError, CoordinateError, IndexError):
            oc = [1]
        except Exception as e:
            oc = [3, type(e).__name__.__len__()]
        steps.append([oc, state_obs(T, n)])
    return [out[0], steps]


def _full_depth(t, n):
    if n == 0:
        return True
    return any(_full_depth(sub, n - 1) for _, sub in t) if isinstance(t, list) else False


def repro_py(case):
    return ("import sys; sys.path.insert(0, '/verif/harness'); import store_hist as H\n"
            "case = %r\nobs = H.run_impl(case)\nfor o, (oc, st) in zip(case['ops'], obs[1]): print(o, '->', oc, st)\n" % (case,))
