#!/bin/bash
# usage: tools/seedsweep.sh [P]  — final sweep: every recorded seed (seeded/*/patch.diff) is applied to a scratch
# worktree of /repo HEAD and the property's OWN check is run against it (quick tier, scratch mode).
# Writes seeded/<name>/sweep.json {head, check, exit, line}; prints a summary.  P = parallelism (default 4).
P=${1:-4}
HEAD=$(git -C /repo log --format=%h -1)
one() {
  n=$1; id=${n:0:3}; wt=/tmp/sweep-$n
  git -C /repo worktree remove --force $wt 2>/dev/null
  git -C /repo worktree add -q $wt HEAD || exit 0
  if git -C $wt apply /verif/seeded/$n/patch.diff 2>/dev/null; then
    out=$(cd /verif && VERIF_REPO=$wt VERIF_SCRATCH=1 ./check $id --tier quick 2>&1); rc=$?
    line=$(echo "$out" | grep -m1 "^VIOLATION")
    printf '{"head":"%s","check":"%s","exit":%d,"line":"%s"}\n' "$2" "$id" "$rc" "$line" > /verif/seeded/$n/sweep.json
    echo "$n exit=$rc ${line:0:60}"
  else
    printf '{"head":"%s","check":"%s","exit":-1,"line":"patch does not apply to HEAD"}\n' "$2" "$id" > /verif/seeded/$n/sweep.json
    echo "$n NOAPPLY"
  fi
  git -C /repo worktree remove --force $wt 2>/dev/null
}
export -f one
ls /verif/seeded | xargs -P $P -I{} bash -c "one {} $HEAD"
