#!/usr/bin/env python3
"""Regenerate /verif/MANIFEST.json from the table below (keeps it schema-valid).
usage: python3 tools/manifest.py"""
import json, os, subprocess

V = os.path.dirname(os.path.dirname(os.path.abspath(__file__)))
props = [json.loads(l) for l in open(os.path.join(V, "properties.jsonl"))]

TECH = "machine-checked proof in Coq (Rocq) of a hand-written Gallina model + per-run model/implementation correspondence check (vm_compute inside coqc)"
TECH_TR = "machine-checked proof in Coq (Rocq) over an operator table regenerated from the Python source by a translator on every run + hand-written model with correspondence check"

CLAIMED = {
 "C18": ("Coq theorems (closed under the global context) about a Gallina model of Format: the getSubTree worklist equals the recursive sum over exactly the reachable fibers, the rank-list (level-wise) sums equal the recursive sum over the tree, the fiber formula and the spec defaults; the oracle (defined in Coq, proved to hold of the model for all inputs) is evaluated on the implementation's own numbers and the model is tied to /repo by differential correspondence on every run.",
         "Trusted: Coq kernel, hand-written model coq/Model/Format.v (validated differentially each run), harness. Rank shapes are inputs.", TECH),
 "C01": ("Coq theorems over all states and all finite histories of a 20-operation model of the public mutators and accessors (Model/Store.v): every step keeps every fiber strictly sorted with uniform leaf depth (C01_step_wf, C01_history_wf), a refused step leaves the state identical (C01_reject_atomic), constructors start well-formed, and the oracle evaluated on the implementation's snapshots holds of the model for every history (C01_model_meets_spec). Tied to /repo by per-step differential comparison of raw tree snapshots, rank lists and outcomes.",
         "Trusted: Coq kernel; the hand model of the mutators (operation set listed in the evidence; since round 3 it includes extend, fiber-valued append/__setitem__ and fiber <<=; populate loops are run through C05's model with C01's oracle; fiber in-place arithmetic is C11's); harness. updateCoords is modelled for injective maps given as an affine function or a table (documented domain); since round 6 the op set also has item assignment of a CoordPayload carrying both a coordinate and a fiber (OSetItemCF).", TECH),
 "C03": ("Coq theorems for all well-formed states: getPayload returns the map's value and leaves the whole state unchanged, a prefix read returns the sub-fiber holding exactly the values under it, getPayloadRef(+write) changes the map at that point and at no other and keeps the tree well-formed, read-only accessors are pure, a legal start_pos never changes the position found, position lookup is the index of the coordinate. The replay-on-a-reference-map oracle is evaluated on the implementation's observations; that the model satisfies that oracle is checked per case, not proved (partial).",
         "Trusted: Coq kernel; hand model coq/Model/Store.v; harness. C03_model_meets_spec is not proved (stated as _partial in Properties/C03.v).", TECH),
 "C19": ("Coq theorems for all coordinate lists, nests and batchings: two-finger = merge comparison steps, skip-ahead = matches + maximal same-side runs, leader-follower = elements presented, totals independent of batching (no comparison spans two fibers), rows emitted by Fiber.__and__ = presented elements; leader-follower STYLE intersections (Fiber.intersection style=leader-follower) count one attempt per presented leader element under every batching (C19_leader_follower_style, unconditional); swap-count proved per merge and per round loop for integer latency (tree-level and unbounded latency: partial, covered by oracle/correspondence). Oracle evaluated on the implementation's counts; model tied to /repo by differential comparison of trace rows and counts.",
         "Trusted: Coq kernel; hand models coq/Model/C19Intersect.v, C19Compute.v; harness. Swap-count clause partial (see Properties/C19.v).", TECH),
}

REASONS_DEFAULT = "not yet claimed: model and theorems for this property are under construction (DESIGN.md section 9); nothing is claimed on differential testing alone"
REASONS = {}


def chk(pid):
    text, note, tech = CLAIMED[pid]
    return {"property_id": pid, "quick_cmd": "./check %s --tier quick" % pid,
            "thorough_cmd": "./check %s --tier thorough" % pid,
            "evidence_file": "/verif/evidence/%s.json" % pid,
            "replay_cmd_template": "./check %s --replay {path}" % pid,
            "engine": "coq-model+correspondence",
            "level_claimed": {"category": "proof", "text": text, "design_ref": "DESIGN.md 6.%d" % int(pid[1:])},
            "level_note": note, "technique": tech}


def main():
    extra = os.path.join(V, "tools", "manifest_claims.json")
    if os.path.exists(extra):
        for k, v in json.load(open(extra)).items():
            CLAIMED[k] = tuple(v)
    repo_commits = subprocess.run(["git", "-C", "/repo", "log", "--format=%h %s", "6095222..HEAD"],
                                  capture_output=True, text=True).stdout.strip().splitlines()
    m = {
        "version": 1,
        "setup_cmd": "cd /verif && ./check --setup",
        "hooks": {"guard": "FIBERTREE_VERIF",
                  "enable": "no hooks are needed: every observation point is public API; checks import fibertree from /repo's working tree (PYTHONPATH=/repo). The only source commits are unguarded 'fix:' repairs listed in known_findings.json",
                  "baseline_off_cmd": "cd /repo && /venv/bin/python -m pytest -ra -q -p no:cacheprovider --timeout=900 --continue-on-collection-errors",
                  "source_commits": [], "add_only": True},
        "engines": [{"name": "coq-model+correspondence", "path": "/verif/harness/check.py",
                     "serves_properties": sorted(CLAIMED),
                     "kind_free_text": "Coq 8.16.1 theorems about a hand-written Gallina model (coq/); differential correspondence + Coq-defined property oracle evaluated by vm_compute on the implementation's observations"}],
        "checks": [chk(p) for p in sorted(CLAIMED)],
        "notes": "See DESIGN.md and HOWTO.md. One entry point: ./check Cxx [--tier quick|thorough] [--replay FILE]. fix: commits in /repo: " + "; ".join(repo_commits),
        "not_applicable": [{"property_id": p["id"], "reason": REASONS.get(p["id"], REASONS_DEFAULT)}
                           for p in props if p["id"] not in CLAIMED],
    }
    json.dump(m, open(os.path.join(V, "MANIFEST.json"), "w"), indent=1)
    print("claimed:", sorted(CLAIMED))


if __name__ == "__main__":
    main()
