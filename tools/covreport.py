#!/usr/bin/env python3
"""usage: tools/covreport.py OUTDIR [file-substring ...]
Union of the per-check coverage files written by tools/coverage.sh: for every function of
/repo/fibertree (core, model, codec by default) the lines no check's implementation side executes.
A measurement aid for finding blind spots of the correspondence streams; not a check."""
import ast, glob, json, os, sys



def _ranges(ls):
    r, i = [], 0
    while i < len(ls):
        j = i
        while j + 1 < len(ls) and ls[j + 1] <= ls[j] + 2:
            j += 1
        r.append(str(ls[i]) if i == j else "%d-%d" % (ls[i], ls[j]))
        i = j + 1
    return ",".join(r)


out = sys.argv[1]
subs = sys.argv[2:] or ["fibertree/core/", "fibertree/model/", "fibertree/codec/"]
execd, missing, per = {}, {}, {}
for f in sorted(glob.glob(os.path.join(out, "C*", "cov.json"))):
    cid = os.path.basename(os.path.dirname(f))
    for path, d in json.load(open(f))["files"].items():
        execd.setdefault(path, set()).update(d["executed_lines"])
        missing.setdefault(path, set()).update(d["missing_lines"])
        for l in d["executed_lines"]:
            per.setdefault((path, l), set()).add(cid)

tot_e = tot_m = 0
for path in sorted(execd):
    if not any(s in path for s in subs):
        continue
    miss = sorted(missing[path] - execd[path])
    e = len(execd[path])
    tot_e += e
    tot_m += len(miss)
    print("== %s: %d executed, %d never executed" % (path, e, len(miss)))
    src = open(path).read()
    tree = ast.parse(src)
    funcs = []
    for node in ast.walk(tree):
        if isinstance(node, (ast.FunctionDef, ast.AsyncFunctionDef)):
            funcs.append((node.lineno, node.end_lineno, node.name))
    funcs.sort()
    byf = {}
    for l in miss:
        owner = None
        for a, b, n in funcs:
            if a <= l <= b and (owner is None or a >= owner[0]):
                owner = (a, b, n)
        byf.setdefault(owner, []).append(l)
    for owner, ls in sorted(byf.items(), key=lambda kv: (kv[0] or (0, 0, ""))):
        if owner is None:
            continue
        a, b, n = owner
        body = [l for l in range(a, b + 1) if l in execd[path] or l in missing[path]]
        frac = 1 - len(ls) / max(1, len(body))
        print("   %-28s L%-5d %3d%% covered; missing %s" % (n, a, 100 * frac, _ranges(ls)))
print("TOTAL executed %d, never executed %d" % (tot_e, tot_m))
