#!/usr/bin/env python3
"""Systematic mutation run (a measurement aid, not a registered check).

usage: tools/mutate.py Cxx [N] [SEED] [SLOT]
For property Cxx: collect mutation sites inside the line ranges its anchors name ('where': file:lo-hi),
draw N of them (default 20), and for each mutant (one syntactic change, whole file re-emitted with
ast.unparse into a scratch worktree /tmp/mut-<SLOT>): run ./check Cxx (quick, scratch mode); a mutant the
check does not report is then run through the pinned suite (tools/baseline.sh) - only mutants that the
suite passes count as survivors.  Results: build/mutants/Cxx.jsonl (one line per mutant).

Mutation operators: relational (< <= > >= == != is / is not), arithmetic (+ - , * //), boolean (and/or,
dropped not), integer constant off by one (0<->1, n->n+1), dropped simple statement (call / augmented
assignment / continue / break -> pass), swapped if-branches condition (if c -> if not c)."""
import ast, copy, json, os, random, re, subprocess, sys, hashlib

V = os.path.dirname(os.path.dirname(os.path.abspath(__file__)))
pid = sys.argv[1]
N = int(sys.argv[2]) if len(sys.argv) > 2 else 20
SEED = int(sys.argv[3]) if len(sys.argv) > 3 else 1
SLOT = sys.argv[4] if len(sys.argv) > 4 else pid
WT = "/tmp/mut-%s" % SLOT

prop = [json.loads(l) for l in open(os.path.join(V, "properties.jsonl")) if json.loads(l)["id"] == pid][0]
ranges = {}
for m in re.finditer(r"(fibertree/[\w/]+\.py):(\d+)-(\d+)", str(prop["anchors"])):
    ranges.setdefault(m.group(1), []).append((int(m.group(2)), int(m.group(3))))
# the anchors give line numbers of the PINNED tree; fix: commits moved lines a little - widen by 40
for f in ranges:
    ranges[f] = [(max(1, a - 40), b + 40) for a, b in ranges[f]]

REL = {ast.Lt: ast.LtE, ast.LtE: ast.Lt, ast.Gt: ast.GtE, ast.GtE: ast.Gt, ast.Eq: ast.NotEq, ast.NotEq: ast.Eq,
       ast.Is: ast.IsNot, ast.IsNot: ast.Is}
ARI = {ast.Add: ast.Sub, ast.Sub: ast.Add, ast.Mult: ast.FloorDiv, ast.FloorDiv: ast.Mult}


def in_range(f, node):
    ln = getattr(node, "lineno", None)
    return ln is not None and any(a <= ln <= b for a, b in ranges[f])


def sites(f, tree):
    out = []
    for node in ast.walk(tree):
        if not in_range(f, node):
            continue
        if isinstance(node, ast.Compare):
            for i, op in enumerate(node.ops):
                if type(op) in REL:
                    out.append(("rel", node.lineno, node.col_offset, i))
        elif isinstance(node, ast.BinOp) and type(node.op) in ARI:
            out.append(("ari", node.lineno, node.col_offset, 0))
        elif isinstance(node, ast.BoolOp):
            out.append(("bool", node.lineno, node.col_offset, 0))
        elif isinstance(node, ast.UnaryOp) and isinstance(node.op, ast.Not):
            out.append(("not", node.lineno, node.col_offset, 0))
        elif isinstance(node, ast.Constant) and isinstance(node.value, int) and not isinstance(node.value, bool) \
                and abs(node.value) < 100:
            out.append(("const", node.lineno, node.col_offset, 0))
        elif isinstance(node, (ast.AugAssign, ast.Continue, ast.Break)) or \
                (isinstance(node, ast.Expr) and isinstance(node.value, ast.Call)):
            out.append(("drop", node.lineno, node.col_offset, 0))
        elif isinstance(node, ast.If):
            out.append(("negif", node.lineno, node.col_offset, 0))
    return out


class Mut(ast.NodeTransformer):
    def __init__(self, site):
        self.site = site
        self.done = False

    def hit(self, node):
        k, ln, col, _ = self.site
        return not self.done and getattr(node, "lineno", None) == ln and getattr(node, "col_offset", None) == col

    def visit(self, node):
        k = self.site[0]
        if self.hit(node):
            if k == "rel" and isinstance(node, ast.Compare):
                i = self.site[3]
                node.ops[i] = REL[type(node.ops[i])]()
                self.done = True
                return node
            if k == "ari" and isinstance(node, ast.BinOp) and type(node.op) in ARI:
                node.op = ARI[type(node.op)]()
                self.done = True
                return node
            if k == "bool" and isinstance(node, ast.BoolOp):
                node.op = ast.Or() if isinstance(node.op, ast.And) else ast.And()
                self.done = True
                return node
            if k == "not" and isinstance(node, ast.UnaryOp) and isinstance(node.op, ast.Not):
                self.done = True
                return node.operand
            if k == "const" and isinstance(node, ast.Constant) and isinstance(node.value, int):
                self.done = True
                return ast.copy_location(ast.Constant(value={0: 1, 1: 0}.get(node.value, node.value + 1)), node)
            if k == "drop" and isinstance(node, (ast.AugAssign, ast.Continue, ast.Break, ast.Expr)):
                self.done = True
                return ast.copy_location(ast.Pass(), node)
            if k == "negif" and isinstance(node, ast.If):
                node.test = ast.UnaryOp(op=ast.Not(), operand=node.test)
                self.done = True
                self.generic_visit(node)
                return node
        return self.generic_visit(node)


def sh(cmd, **kw):
    return subprocess.run(cmd, shell=True, capture_output=True, text=True, **kw)


def main():
    rng = random.Random(SEED)
    allsites = []
    srcs = {}
    for f in ranges:
        p = os.path.join("/repo", f)
        if not os.path.exists(p):
            continue
        srcs[f] = open(p).read()
        for s in sites(f, ast.parse(srcs[f])):
            allsites.append((f, s))
    rng.shuffle(allsites)
    chosen = allsites[:N]
    sh("git -C /repo worktree remove --force %s" % WT)
    r = sh("git -C /repo worktree add -q %s HEAD" % WT)
    assert r.returncode == 0, r.stderr
    os.makedirs(os.path.join(V, "build", "mutants"), exist_ok=True)
    outp = os.path.join(V, "build", "mutants", "%s.jsonl" % pid)
    for f, site in chosen:
        tree = ast.parse(srcs[f])
        m = Mut(site)
        new = m.visit(tree)
        if not m.done:
            continue
        ast.fix_missing_locations(new)
        try:
            code = ast.unparse(new)
            compile(code, f, "exec")
        except Exception:
            continue
        line = srcs[f].splitlines()[site[1] - 1].strip()
        sh("git -C %s checkout -q -- ." % WT)
        open(os.path.join(WT, f), "w").write(code + "\n")
        c = sh("cd %s && VERIF_REPO=%s VERIF_SCRATCH=1 timeout 900 ./check %s --tier quick" % (V, WT, pid))
        viol = [l for l in c.stdout.splitlines() if l.startswith("VIOLATION")]
        rec = {"property": pid, "file": f, "op": site[0], "line": site[1], "col": site[2], "src": line[:160],
               "check_exit": c.returncode, "violation": viol[0] if viol else ""}
        if c.returncode == 0:
            b = sh("%s/tools/baseline.sh %s" % (V, WT))
            rec["suite_same"] = (b.returncode == 0)
            rec["suite"] = b.stdout.strip().splitlines()[-1][:200] if b.stdout.strip() else ""
        with open(outp, "a") as fh:
            fh.write(json.dumps(rec) + "\n")
        print(pid, site[0], "%s:%d" % (f, site[1]), "DETECTED" if c.returncode != 0 else
              ("SURVIVED (suite passes)" if rec.get("suite_same") else "missed, but killed by the suite"), "|", line[:90], flush=True)
    sh("git -C /repo worktree remove --force %s" % WT)


if __name__ == "__main__":
    main()
