#!/usr/bin/env python3
"""Regenerate the seeded-change table of DESIGN.md (between the SEEDTABLE markers) from seeded/*/meta.json."""
import json, glob, os, re
V = os.path.dirname(os.path.dirname(os.path.abspath(__file__)))
rows = []
for f in sorted(glob.glob(os.path.join(V, "seeded", "*", "meta.json"))):
    m = json.load(open(f))
    d = os.path.basename(os.path.dirname(f))
    notes = m.get("what_it_needs_to_manifest", "")
    # first meaningful sentence of the notes
    txt = " ".join(l.strip("#* -") for l in notes.splitlines() if l.strip() and not l.startswith("#"))[:230].replace("|", "/")
    if not m["confirmed"]:
        verdict = "not a valid seed on HEAD (demo passes with the patch: behaviour-preserving after a later fix: commit)"
    elif m["detected_by"]:
        parts = []
        for c in m["checks"]:
            if c["exit"] == 1 and c["line"]:
                parts.append(c["check"] + (" (no-failing-input-found)" if "no-failing" in c["line"] else ""))
        verdict = ", ".join(parts)
    else:
        verdict = "**not caught** by " + ", ".join(c["check"] for c in m["checks"])
    sw = os.path.join(os.path.dirname(f), "sweep.json")
    own = ""
    if os.path.exists(sw):
        try:
            w = json.load(open(sw))
            own = {1: "caught", 0: "NOT caught", -1: "n/a (superseded by a fix)"}.get(w["exit"], str(w["exit"])) + " @" + w["head"]
        except Exception:
            own = "?"
    if m.get("applies_to_head") is False:
        verdict += "; " + m.get("note_on_head", "")
    rows.append("| %s | %s | %s | %s |" % (d, txt, verdict, own))
tab = ("| seed | what it changes / needs (from the seeder's notes) | caught by (when tools/seedtest.sh was last run for it) | own check, final sweep |\n"
       "|---|---|---|---|\n" + "\n".join(rows))
p = os.path.join(V, "DESIGN.md")
s = open(p).read()
a, b = "<!-- SEEDTABLE BEGIN -->", "<!-- SEEDTABLE END -->"
if a in s:
    s = s[:s.index(a) + len(a)] + "\n" + tab + "\n" + s[s.index(b):]
    open(p, "w").write(s)
n = len(rows); c = sum(1 for r in rows if "**not caught**" not in r and "not a valid" not in r)
print("seeds: %d, caught: %d" % (n, c))
