#!/bin/bash
# usage: tools/seedtest.sh Cxx A [check ids...]  — verify a seeded change delivered under /tmp/seed-Cxx/A
# (patch.diff, demo.py, notes.md): suite unchanged with the patch, demo fails with / passes without,
# then run the named checks (default: Cxx) against a scratch worktree holding the patch.
# Results are written to /verif/seeded/Cxx-A/{patch.diff,demo.py,notes.md,meta.json}.
set -u
ID=$1; L=$2; shift 2
CHECKS=${@:-$ID}
# SEEDSET=2 takes the second wave: /tmp/seed2-Cxx/A -> /verif/seeded/Cxx-A2
SET=${SEEDSET:-}
SRC=/tmp/seed$SET-$ID/$L
DST=/verif/seeded/$ID-$L$SET
WT=/tmp/seedrun$SET-$ID-$L
mkdir -p $DST
[ -f $DST/patch.diff ] || cp $SRC/patch.diff $DST/ 2>/dev/null; cp $SRC/demo.py $DST/ 2>/dev/null
cp $SRC/notes.md $DST/ 2>/dev/null
git -C /repo worktree remove --force $WT 2>/dev/null
git -C /repo worktree add -q $WT HEAD || exit 2
cd $WT
# demo on the clean tree
/venv/bin/python $DST/demo.py > $DST/demo_clean.out 2>&1; DEMO_CLEAN=$?
if ! git apply $DST/patch.diff; then echo "PATCH DOES NOT APPLY"; git -C /repo worktree remove --force $WT; exit 2; fi
/venv/bin/python $DST/demo.py > $DST/demo_patched.out 2>&1; DEMO_PATCHED=$?
/verif/tools/baseline.sh $WT > $DST/suite.out 2>&1; SUITE=$?
cd /verif
RESULTS=""
for c in $CHECKS; do
  VERIF_REPO=$WT VERIF_SCRATCH=1 ./check $c --tier quick > $DST/check_$c.out 2>&1; rc=$?
  line=$(grep -m1 "^VIOLATION" $DST/check_$c.out)
  RESULTS="$RESULTS{\"check\":\"$c\",\"exit\":$rc,\"line\":\"$line\"},"
  # keep the replay next to the record
  rp=$(echo "$line" | sed -n 's/.*replay=\([^ ]*\).*/\1/p'); [ -n "$rp" ] && [ -f "$rp" ] && cp "$rp" $DST/replay_$c.json
done
git -C /repo worktree remove --force $WT
python3 - "$DST" "$ID" "$L" "$DEMO_CLEAN" "$DEMO_PATCHED" "$SUITE" "[${RESULTS%,}]" <<'PY'
import sys, json, os
dst, pid, l, dc, dp, suite, res = sys.argv[1:8]
notes = open(os.path.join(dst, "notes.md")).read() if os.path.exists(os.path.join(dst, "notes.md")) else ""
meta = {"breaks_property": pid, "variant": l,
        "demo_exit_clean_tree": int(dc), "demo_exit_with_patch": int(dp),
        "pinned_suite_same_passing_set_with_patch": int(suite) == 0,
        "what_it_needs_to_manifest": notes[:1500],
        "ran": "tools/seedtest.sh %s %s (scratch worktree of /repo HEAD + patch; demo.py on both trees; tools/baseline.sh; ./check with VERIF_REPO=worktree)" % (pid, l),
        "checks": json.loads(res)}
meta["confirmed"] = (int(dc) == 0 and int(dp) != 0 and int(suite) == 0)
meta["detected_by"] = [r["check"] for r in meta["checks"] if r["exit"] == 1 and r["line"]]
json.dump(meta, open(os.path.join(dst, "meta.json"), "w"), indent=1)
print(json.dumps({k: meta[k] for k in ("confirmed", "detected_by", "demo_exit_clean_tree", "demo_exit_with_patch", "pinned_suite_same_passing_set_with_patch")}), [r["line"] for r in meta["checks"]])
PY
