#!/bin/bash
# usage: tools/coverage.sh OUTDIR Cxx [Cyy ...] — line coverage of /repo/fibertree by the implementation
# side of the named checks' quick streams (scratch mode: no evidence is rewritten).
set -u
OUT=$1; shift
mkdir -p $OUT
for c in "$@"; do
  mkdir -p $OUT/$c
  VERIF_COVERAGE=$OUT/$c VERIF_SCRATCH=1 ./check $c --tier quick > $OUT/$c/check.out 2>&1
  (cd $OUT/$c && /venv/bin/python -m coverage combine -q --data-file=.coverage . >/dev/null 2>&1; \
   /venv/bin/python -m coverage json -q --data-file=.coverage -o cov.json >/dev/null 2>&1)
  tail -1 $OUT/$c/check.out
done
