#!/bin/bash
# usage: tools/goal.sh coq/Proofs/X.v LINE  — show the proof state after line LINE (scratch aid, not machinery)
f=$1; n=$2
d=/verif/build/scratch; mkdir -p $d
head -n $n "$f" > $d/Goal_tmp.v
printf '\nShow.\nAbort.\n' >> $d/Goal_tmp.v
cd /verif/coq && timeout 300 coqc -Q . FT $d/Goal_tmp.v 2>&1 | head -${3:-80}
