#!/bin/bash
# usage: tools/goal.sh coq/Proofs/X.v LINE [MAXLINES] — show the proof state after line LINE (scratch aid, not machinery)
f=$1; n=$2
d=/verif/build/scratch; mkdir -p $d
t=$d/Goal_$$_tmp.v
head -n $n "$f" > $t
printf '\nShow.\nAbort.\n' >> $t
cd /verif/coq && timeout 300 coqc -Q . FT $t 2>&1 | head -${3:-80}
rm -f $d/Goal_$$_tmp.* $d/.Goal_$$_tmp.aux
