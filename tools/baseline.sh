#!/bin/bash
# usage: tools/baseline.sh [DIR=/repo] — run the pinned suite in DIR and compare the passing set with /root/.vp/BASELINE.json
D=${1:-/repo}
X=/tmp/baseline_$$.xml
cd $D && /venv/bin/python -m pytest -ra -q -p no:cacheprovider --timeout=900 --continue-on-collection-errors --junitxml=$X >/dev/null 2>&1
/venv/bin/python - "$X" <<'PY'
import sys, json, xml.etree.ElementTree as ET
base=set(json.load(open('/root/.vp/BASELINE.json'))['stable_pass'])
root=ET.parse(sys.argv[1]).getroot()
passed=set()
for tc in root.iter('testcase'):
    bad=any(ch.tag in('failure','error','skipped') for ch in tc)
    name=tc.get('classname')+'::'+tc.get('name')
    if not bad: passed.add(name)
print("passed %d; baseline %d; missing from passing: %s; newly passing: %d"%(len(passed),len(base),sorted(base-passed)[:10],len(passed-base)))
sys.exit(0 if base<=passed else 1)
PY
rc=$?; rm -f $X; exit $rc
