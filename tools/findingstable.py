#!/usr/bin/env python3
"""Regenerate the findings table of DESIGN.md (between the FINDINGS markers) from known_findings.json."""
import json, os
V = os.path.dirname(os.path.dirname(os.path.abspath(__file__)))
k = json.load(open(os.path.join(V, "known_findings.json")))
rows = []
for e in sorted(k, key=lambda e: (e["status"] != "known", e["property"], e["id"])):
    rows.append("| %s | %s | %s | %s |" % (e["property"], e["id"],
                "**known** (region %s)" % e["region"] if e["status"] == "known" else "fixed in %s" % e.get("commit", "?"),
                e["what_fails"].replace("|", "/")[:260]))
tab = "| property | id | status | what failed |\n|---|---|---|---|\n" + "\n".join(rows)
p = os.path.join(V, "DESIGN.md")
s = open(p).read()
a, b = "<!-- FINDINGS BEGIN -->", "<!-- FINDINGS END -->"
s = s[:s.index(a) + len(a)] + "\n" + tab + "\n" + s[s.index(b):]
open(p, "w").write(s)
print("known:", sum(1 for e in k if e["status"] == "known"), "fixed:", sum(1 for e in k if e["status"] == "fixed"))
