(* C15Check.v — executable check for C15 (case type, observation, property oracle). *)
From Coq Require Import ZArith List Bool.
From FT Require Import Model.Base Model.Obs Model.C15Metrics.
Import ListNotations.
Open Scope Z_scope.

(* a case: earlier sessions (any kernels, any traces, possibly aborted), then the session whose
   results are observed.  The same kernel is also run with collection off. *)
Record c15_case := {
  k_prior : list session;
  k_final : session
}.

Fixpoint V_tree (t : tree) : V :=
  match t with
  | Leaf v => VZ v
  | Node es => VL (map (fun ct => VL [VZ (fst ct); V_tree (snd ct)]) es)
  end.

Definition traced_iter (s : session) (i : Z) : bool := existsb (key_eqb (i, 0)) (s_traces s).

(* Compute.numIters of the "iter" trace file of every traced loop rank, after endCollect *)
Definition iters_of (s : session) (m : mstate) : list (option Z) :=
  map (fun i => if traced_iter s i then Some (num_iters (file_lines (i, 0) (m_files m)))
                else None)
      (iota (length (s_lv s))).

Definition counts_of (m : mstate) : Z * Z * Z := (m_mul m, m_add m, m_upd m).
Definition V_counts (c : Z * Z * Z) : V := VL [VZ (fst (fst c)); VZ (snd (fst c)); VZ (snd c)].

(* Fiber.maxCoord() of every fiber of a tensor, root first, depth first: the last stored
   coordinate, None for an empty fiber (fiber.py maxCoord) *)
Fixpoint maxcs (t : tree) : list (option Z) :=
  match t with
  | Leaf _ => []
  | Node es => max_coord es :: flat_map (fun ct => maxcs (snd ct)) es
  end.

(* the other read-backs a user can make of the output and of the operands after the kernel —
   output: getShape() (estimated when none was declared), getActive() of every fiber,
   uncompress(); each operand: stored tree, getShape(), maxCoord()s, getActive()s, uncompress().
   The harness reports, per read-back, [] when the run with collection on answers exactly as the
   run with collection off, else [1; off; on]. *)
Definition n_readbacks : nat := 13.
Definition V_same : V := VL (repeat (VL []) n_readbacks).

(* observation layout:
   [ output with collection off; output with collection on;
     [payload_mul; payload_add; payload_update] of Metrics.dump() (absent = 0);
     [Compute.numOps(dump, "mul"/"add"/"update")];
     [numIters per loop rank, None when (rank,"iter") is not traced];
     maxCoord() of every output fiber, collection off; the same, collection on;
     differences of the other read-backs between off and on ] *)
Definition c15_obs (zoff zon : tree) (cn : Z * Z * Z) (its : list (option Z)) : V :=
  VL [V_tree zoff; V_tree zon; V_counts cn; V_counts cn; Vl (Vo VZ) its;
      Vl (Vo VZ) (maxcs zoff); Vl (Vo VZ) (maxcs zon); V_same].

Definition after_prior (c : c15_case) : mstate :=
  fold_left (fun m s => snd (run_session m s)) (k_prior c) m_pristine.

Definition is_fail (e : mev) : bool := match e with EFail => true | _ => false end.

(* the kernel of the session runs into the populate iterator's assertion (collection is on) *)
Definition session_fails (s : session) : bool :=
  existsb is_fail (snd (run true 0 (s_wt s) (s_da s) (s_db s) (s_lv s) (z_init (s_lv s)) (s_a s) (s_b s))).

(* an AssertionError out of the observed session is the whole observation: Verr 3 *)
Definition obs_from (m : mstate) (s : session) : V :=
  if session_fails s then Verr 3 else
  let zoff := fst (run false 0 (s_wt s) (s_da s) (s_db s) (s_lv s) (z_init (s_lv s)) (s_a s) (s_b s)) in
  let '(zon, m1, m2) := run_session m s in
  c15_obs zoff zon (counts_of m1) (iters_of s m2).

Definition c15_model (c : c15_case) : V := obs_from (after_prior c) (k_final c).

(* ------------------------------------------------------------------ the property *)

(* the elements of a that b also has, with b's payload (set intersection on coordinates) *)
Fixpoint and_spec (a b : fib) : list (Z * (tree * tree)) :=
  match a with
  | [] => []
  | (c, p) :: a' =>
    match lookup c b with
    | Some q => (c, (p, q)) :: and_spec a' b
    | None => and_spec a' b
    end
  end.

(* the iteration space of one level: what iterating the operand that carries the variable
   yields (non-empty stored elements, or every coordinate of the shape for a "U" rank), or the
   intersection of both operands' *)
Definition spec_elems (l : level) (da db : Z) (ba bb : bool) (a b : tree)
  : list (Z * (tree * tree)) :=
  let ea := op_elems (ua l) (lshape l) da ba a in
  let eb := op_elems (ub l) (lshape l) db bb b in
  if la l && lb l then and_spec ea eb
  else if la l then map (fun ct => (fst ct, (snd ct, b))) ea
  else map (fun ct => (fst ct, (a, snd ct))) eb.

Definition lv_elems (da db : Z) (l : level) (lv' : list level) (a b : tree) :=
  spec_elems l da db (existsb la lv') (existsb lb lv') a b.

(* number of executions of the innermost statement *)
Fixpoint spec_leafs (da db : Z) (lv : list level) (a b : tree) : Z :=
  match lv with
  | [] => 1
  | l :: lv' => sumZ (map (fun el => spec_leafs da db lv' (fst (snd el)) (snd (snd el)))
                          (lv_elems da db l lv' a b))
  end.

(* number of loop bodies executed at depth i *)
Fixpoint spec_bodies (i : nat) (da db : Z) (lv : list level) (a b : tree) {struct lv} : Z :=
  match lv with
  | [] => 0
  | l :: lv' =>
    match i with
    | O => Z.of_nat (length (lv_elems da db l lv' a b))
    | S i' => sumZ (map (fun el => spec_bodies i' da db lv' (fst (snd el)) (snd (snd el)))
                        (lv_elems da db l lv' a b))
    end
  end.

(* the executions of `z_ref += a_val * b_val` in program order: (output point, addend) *)
Fixpoint spec_trace (da db : Z) (lv : list level) (a b : tree) : list (list Z * Z) :=
  match lv with
  | [] => [([], leaf_val a * leaf_val b)]
  | l :: lv' =>
      flat_map (fun el => map (fun pv => (if lz l then fst el :: fst pv else fst pv, snd pv))
                              (spec_trace da db lv' (fst (snd el)) (snd (snd el))))
               (lv_elems da db l lv' a b)
  end.

(* reference semantics of the accumulations: a map from output points to values (0 = absent);
   an execution is counted as an add when the point's current value is not 0 *)
Fixpoint pt_eqb (p q : list Z) : bool :=
  match p, q with
  | [], [] => true
  | x :: p', y :: q' => Z.eqb x y && pt_eqb p' q'
  | _, _ => false
  end.

Definition ref_upd (f : list Z -> Z) (p : list Z) (v : Z) : list Z -> Z :=
  fun q => if pt_eqb q p then v else f q.

Fixpoint ref_adds (f : list Z -> Z) (tr : list (list Z * Z)) : Z :=
  match tr with
  | [] => 0
  | (p, v) :: tr' => (if Z.eqb (f p) 0 then 0 else 1) + ref_adds (ref_upd f p (f p + v)) tr'
  end.

Fixpoint ref_final (f : list Z -> Z) (tr : list (list Z * Z)) : list Z -> Z :=
  match tr with
  | [] => f
  | (p, v) :: tr' => ref_final (ref_upd f p (f p + v)) tr'
  end.

(* the value an output tree holds at a point (0 where nothing is stored) *)
Fixpoint zval (t : tree) (p : list Z) : Z :=
  match t, p with
  | Leaf v, [] => v
  | Node es, c :: p' =>
      (fix look (es : fib) : Z :=
         match es with
         | [] => 0
         | (c', s) :: es' => if Z.eqb c c' then zval s p' else look es'
         end) es
  | _, _ => 0
  end.

(* well-formed kernels: every level iterates over an operand; operand depth = number of levels
   that carry it; coordinates strictly increasing.  Values are arbitrary integers. *)
Definition cntb (f : level -> bool) (lv : list level) : nat := length (filter f lv).

Definition kernel_wf (lv : list level) (a b : tree) : bool :=
  forallb (fun l => la l || lb l) lv
  && depth_ok (cntb la lv) a && depth_ok (cntb lb lv) b
  && sorted_t a && sorted_t b.

Definition c15_wf (c : c15_case) : bool :=
  kernel_wf (s_lv (k_final c)) (s_a (k_final c)) (s_b (k_final c)) && s_end (k_final c).

(* known finding F-C15-write-trace-insert-no-shape: with (rank, "populate_write_0") traced on an
   output without a declared shape, a populate that inserts a new element before the fiber's last
   coordinate raises AssertionError — with collection off the same kernel completes.  Exactly
   the cases in which the model's run emits EFail. *)
Definition c15_region (c : c15_case) : Z := if session_fails (k_final c) then 1 else 0.

Definition spec_iters (s : session) : list (option Z) :=
  map (fun i => if traced_iter s (Z.of_nat i)
                then Some (spec_bodies i (s_da s) (s_db s) (s_lv s) (s_a s) (s_b s)) else None)
      (seq 0 (length (s_lv s))).

(* The property on an observation.  Nothing here looks at k_prior: the expected numbers are
   those of the observed kernel alone (session isolation). *)
Definition c15_holds (c : c15_case) (o : V) : bool :=
  let s := k_final c in
  let n := spec_leafs (s_da s) (s_db s) (s_lv s) (s_a s) (s_b s) in
  c15_wf c &&
  match o with
  | VL [zoff; zon; VL [VZ mul; VZ add; VZ upd]; nops; its; mcoff; mcon; rb] =>
      V_eqb zoff zon                                (* transparent: the stored output ... *)
      && V_eqb mcoff mcon                           (* ... what maxCoord() answers ... *)
      && V_eqb rb V_same                            (* ... and every other read-back, operands too *)
      && Z.eqb mul n                                (* one multiply per execution of the statement *)
      && Z.eqb upd n                                (* one update per execution, zero addends included *)
      && Z.eqb add (ref_adds (fun _ => 0)           (* adds = executions on a non-zero output value *)
                      (spec_trace (s_da s) (s_db s) (s_lv s) (s_a s) (s_b s)))
      && V_eqb nops (VL [VZ mul; VZ add; VZ upd])   (* numOps reports dump's numbers *)
      && V_eqb its (Vl (Vo VZ) (spec_iters s))      (* iterations = bodies executed *)
  | _ => false
  end.

Definition c15_checker : checker c15_case :=
  {| model := c15_model; holds := c15_holds; region := c15_region |}.
