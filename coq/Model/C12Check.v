(* C12Check.v — executable check for C12 (correspondence + property oracle).

   A case is a short list (1-3) of fibertrees of one common depth, each with its own leaf
   default, rank ids, and representation details (shape, ownership) that neither the model
   nor the property looks at.

   Observation layout:
     [ [ per tree: isEmpty; countValues; snapshot of nonEmpty(); nonEmpty()==t; t==nonEmpty();
                   deepcopy(t)==t; t==deepcopy(t); Tensor.countValues;
                   deepcopy(T)==T; T==deepcopy(T) (the tensor holding t);
                   snapshot of the deep copy; snapshot of t after all of the above ];
       [ F_i == F_j for i, j in order ]            (fibers)
       [ T_i == T_j for i, j in order ]            (tensors with the given rank ids)
       [ per tree: one row per other public copy form, see copy_row ] ]                       *)
From Coq Require Import ZArith List Bool.
From FT Require Import Model.Base Model.Obs Model.C12Eq.
Import ListNotations.
Open Scope Z_scope.

Record c12_item := {
  it_d    : Z;          (* leaf default of this tree *)
  it_tree : tree;       (* root fiber (Node) *)
  it_ids  : list Z;     (* rank ids, top to bottom (k stands for the name "R<k>") *)
  it_meta : list Z      (* ownership mode :: rank shapes - representation only, unused *)
}.

Record c12_case := {
  k_depth : nat;
  k_items : list c12_item
}.

(* ---------------------------------------------------------------- snapshots as V *)
Fixpoint V_of_tree (t : tree) : V :=
  match t with
  | Leaf v => VZ v
  | Node es => VL (map (fun ct => VL [VZ (fst ct); V_of_tree (snd ct)]) es)
  end.

Fixpoint V_to_tree (n : nat) (v : V) : option tree :=
  match n, v with
  | O, VZ z => Some (Leaf z)
  | S n', VL l =>
    option_map Node
      ((fix go (l : list V) : option fib :=
          match l with
          | [] => Some []
          | VL [VZ c; s] :: l' =>
            match V_to_tree n' s, go l' with
            | Some t, Some r => Some ((c, t) :: r)
            | _, _ => None
            end
          | _ :: _ => None
          end) l)
  | _, _ => None
  end.

(* ---------------------------------------------------------------- the faithful model *)
Definition pairs {A} (l : list A) : list (A * A) :=
  flat_map (fun x => map (fun y => (x, y)) l) l.

Definition item_model (it : c12_item) : V :=
  let d := it_d it in
  let t := it_tree it in
  let ne := non_empty d t in
  let dc := deep_copy t in
  VL [Vb (is_empty d t); VZ (count_values d t); V_of_tree ne;
      Vb (fiber_eq d d ne t); Vb (fiber_eq d d t ne);
      Vb (fiber_eq d d dc t); Vb (fiber_eq d d t dc);
      VZ (count_values d t);
      Vb (tensor_eq (it_ids it) (it_ids it) d d dc t);
      Vb (tensor_eq (it_ids it) (it_ids it) d d t dc);
      V_of_tree dc; V_of_tree t].

(* the other public copy forms, each used as a free-standing object:
     f.copy(); f.copy(preserve_owner=False); the root of Tensor.fromFiber(ids, T.getRoot())
     (Tensor.setRoot copies an owned root, tensor.py:689-761); T.getRoot().copy(preserve_owner=False)
   fiber.py:4725-4780: all of them are copy.deepcopy plus owner / rank-attribute bookkeeping, at
   the value level the structural copy [deep_copy].
   row = [copy==original; original==copy; copy.isEmpty(); copy.countValues();
          snapshot of copy.nonEmpty(); snapshot of the copy] *)
Definition n_copy_forms : nat := 4.

Definition copy_row (d : Z) (t : tree) : V :=
  let c := deep_copy t in
  VL [Vb (fiber_eq d d c t); Vb (fiber_eq d d t c); Vb (is_empty d c);
      VZ (count_values d c); V_of_tree (non_empty d c); V_of_tree c].

Definition copies_model (it : c12_item) : V :=
  VL (repeat (copy_row (it_d it) (it_tree it)) n_copy_forms).

Definition c12_model (c : c12_case) : V :=
  VL [Vl item_model (k_items c);
      Vl (fun xy => Vb (fiber_eq (it_d (fst xy)) (it_d (snd xy))
                                 (it_tree (fst xy)) (it_tree (snd xy))))
         (pairs (k_items c));
      Vl (fun xy => Vb (tensor_eq (it_ids (fst xy)) (it_ids (snd xy))
                                  (it_d (fst xy)) (it_d (snd xy))
                                  (it_tree (fst xy)) (it_tree (snd xy))))
         (pairs (k_items c));
      Vl copies_model (k_items c)].

(* ---------------------------------------------------------------- the property (oracle)
   Written from the property text in terms of [Base.content]: the list of (point, value) of
   the leaves that differ from the default.  Nothing below calls the model. *)
Fixpoint zs_eqb (x y : list Z) : bool :=
  match x, y with
  | [], [] => true
  | a :: x', b :: y' => Z.eqb a b && zs_eqb x' y'
  | _, _ => false
  end.

Fixpoint content_eqb (x y : list (list Z * Z)) : bool :=
  match x, y with
  | [], [] => true
  | (p, v) :: x', (q, w) :: y' => zs_eqb p q && Z.eqb v w && content_eqb x' y'
  | _, _ => false
  end.

(* the tree read as a map from points to values: the stored leaf at the point, the default
   where nothing is stored (reference semantics of "the value at a point"; used by the
   theorem C12_eq_pointwise, which says that equal content lists mean equal maps) *)
Fixpoint value_at (d : Z) (p : list Z) (t : tree) : Z :=
  match p, t with
  | [], Leaf v => v
  | c :: p', Node es => match lookup c es with Some s => value_at d p' s | None => d end
  | _, _ => d
  end.

Fixpoint assoc (p : list Z) (l : list (list Z * Z)) : option Z :=
  match l with
  | [] => None
  | (q, v) :: l' => if zs_eqb p q then Some v else assoc p l'
  end.

(* "no explicit defaults": no stored leaf equals the default *)
Fixpoint no_explicit_default (d : Z) (t : tree) : bool :=
  match t with
  | Leaf v => negb (Z.eqb v d)
  | Node es => forallb (fun ct => no_explicit_default d (snd ct)) es
  end.

(* "no empty sub-fibers": no fiber strictly below the root is empty *)
Fixpoint no_empty_below (d : Z) (t : tree) : bool :=
  match t with
  | Leaf _ => true
  | Node es => forallb (fun ct => match snd ct with
                                  | Leaf _ => true
                                  | Node _ => negb (is_empty d (snd ct))
                                  end && no_empty_below d (snd ct)) es
  end.

Definition canonical (d : Z) (t : tree) : bool :=
  no_explicit_default d t && no_empty_below d t.

Definition same_content (x y : c12_item) : bool :=
  content_eqb (content (it_d x) (it_tree x)) (content (it_d y) (it_tree y)).

Definition is_one (v : V) : bool := V_eqb v (VZ 1).

Definition item_holds (n : nat) (it : c12_item) (o : V) : bool :=
  let d := it_d it in
  let ct := content d (it_tree it) in
  match o with
  | VL [e; cnt; ne; ne1; ne2; dc1; dc2; tcnt; tdc1; tdc2; _; _] =>
    (* empty exactly when there is no non-default point *)
    V_eqb e (Vb (match ct with [] => true | _ :: _ => false end))
    (* value count = number of such points (fiber and tensor method) *)
    && V_eqb cnt (VZ (Z.of_nat (length ct)))
    && V_eqb tcnt (VZ (Z.of_nat (length ct)))
    (* the pruned copy: a tree of the same depth and content without explicit defaults and
       without empty sub-fibers, and it compares equal to the original, both ways *)
    && match V_to_tree n ne with
       | Some t' => content_eqb (content d t') ct && canonical d t'
       | None => false
       end
    && is_one ne1 && is_one ne2
    (* a deep copy equals its original (fiber; tensor) *)
    && is_one dc1 && is_one dc2 && is_one tdc1 && is_one tdc2
  | _ => false
  end.

(* a copy, whichever way it was made, is a deep copy: it equals its original (both ways) and,
   used on its own, is empty / counts / prunes exactly like the original's content says *)
Definition copy_holds (n : nat) (it : c12_item) (row : V) : bool :=
  let d := it_d it in
  let ct := content d (it_tree it) in
  match row with
  | VL [e1; e2; emp; cnt; ne; _] =>
    is_one e1 && is_one e2
    && V_eqb emp (Vb (match ct with [] => true | _ :: _ => false end))
    && V_eqb cnt (VZ (Z.of_nat (length ct)))
    && match V_to_tree n ne with
       | Some t' => content_eqb (content d t') ct && canonical d t'
       | None => false
       end
  | _ => false
  end.

Definition copies_hold (n : nat) (it : c12_item) (o : V) : bool :=
  match o with
  | VL rows => Nat.eqb (length rows) n_copy_forms && forallb (copy_holds n it) rows
  | VZ _ => false
  end.

Fixpoint forall2b {A B} (f : A -> B -> bool) (x : list A) (y : list B) : bool :=
  match x, y with
  | [], [] => true
  | a :: x', b :: y' => f a b && forall2b f x' y'
  | _, _ => false
  end.

Definition c12_holds (c : c12_case) (o : V) : bool :=
  match o with
  | VL [VL items; VL eqs; VL teqs; VL cps] =>
    forall2b (item_holds (k_depth c)) (k_items c) items
    && forall2b (copies_hold (k_depth c)) (k_items c) cps
    (* equal exactly when the same non-default values at the same points *)
    && forall2b (fun xy v => V_eqb v (Vb (same_content (fst xy) (snd xy))))
                (pairs (k_items c)) eqs
    (* tensors: additionally the same rank ids *)
    && forall2b (fun xy v => V_eqb v (Vb (zs_eqb (it_ids (fst xy)) (it_ids (snd xy))
                                          && same_content (fst xy) (snd xy))))
                (pairs (k_items c)) teqs
  | _ => false
  end.

(* well-formedness of a case: what the generator produces - root fibers of the common depth
   (>= 1), coordinates strictly increasing in every fiber *)
Definition item_wf (n : nat) (it : c12_item) : bool :=
  match it_tree it with
  | Node _ => depth_ok n (it_tree it) && sorted_t (it_tree it)
  | Leaf _ => false
  end.

Definition c12_wf (c : c12_case) : bool := forallb (item_wf (k_depth c)) (k_items c).

Definition c12_checker : checker c12_case :=
  {| model := c12_model;
     holds := c12_holds;
     region := fun _ => 0 |}.
