(* C20CodecCheck.v — executable check for C20: case type, the model's observation, and the
   property oracle.  The oracle reads an observation (normally the implementation's) and
   decides the property from the formats' documented layout alone: it never calls c20_enc,
   c20_scan, c20_c2h or c20_size. *)
From Coq Require Import ZArith List Bool.
From FT Require Import Model.Base Model.Obs Model.C20Codec.
Import ListNotations.
Open Scope Z_scope.

Record c20_case := {
  q_tree    : tree;                 (* root fiber; leaf default 0 *)
  q_desc    : list c20_fmt;         (* format descriptor, top rank first *)
  q_shapes  : list Z;               (* the tensor's rank shapes *)
  q_imposed : option (list Z);      (* shape= argument of Codec.encode *)
  q_queries : list Z                (* coordinates looked up in every encoded fiber *)
}.

Definition c20_dims (c : c20_case) : list Z :=
  match q_imposed c with Some l => l | None => q_shapes c end.

(* coordinates strictly increasing inside [lo, hi) *)
Fixpoint c20_asc (lo hi : Z) (cs : list Z) : bool :=
  match cs with
  | [] => true
  | c :: cs' => (lo <=? c) && (c <? hi) && c20_asc (c + 1) hi cs'
  end.

(* well-formed tensor of uniform depth length dims: coordinates strictly increasing and inside
   [0, dim) at every rank *)
Fixpoint c20_wf_tree (dims : list Z) (t : tree) {struct dims} : bool :=
  match dims, t with
  | [], Leaf _ => true
  | d :: ds, Node es =>
    c20_asc 0 d (map fst es) && forallb (fun ct => c20_wf_tree ds (snd ct)) es
  | _, _ => false
  end.

Fixpoint c20_all_le (a b : list Z) : bool :=
  match a, b with
  | [], [] => true
  | x :: a', y :: b' => (x <=? y) && c20_all_le a' b'
  | _, _ => false
  end.

Definition c20_wf (c : c20_case) : bool :=
  negb (Nat.eqb (length (q_desc c)) 0)
  && Nat.eqb (length (q_desc c)) (length (c20_dims c))
  && forallb (Z.leb 0) (c20_dims c)
  && c20_wf_tree (q_shapes c) (q_tree c)
  && c20_wf_tree (c20_dims c) (q_tree c)
  && match q_imposed c with Some l => c20_all_le (q_shapes c) l | None => true end.

(* ---------------------------------------------------------------- observation *)
Definition c20_code (f : c20_fmt) : Z := match f with FU => 0 | FC => 1 | FB => 2 end.

Definition V_elem (x : c20_elem) : V :=
  VL [Vo VZ (fst (fst x)); Vo VZ (snd (fst x)); Vo VZ (snd x)].

(* one encoded fiber: [format; coords; occupancies; leaf payload values; len(payloads);
   slice scan; coordToHandle(q) for q in queries; getSize()] *)
Definition V_efib (qs : list Z) (eo : c20_efib * Z) : V :=
  let e := fst eo in
  VL [VZ (c20_code (ef_fmt e)); Vl VZ (ef_coords e); Vl VZ (ef_occ e); Vl VZ (ef_vals e);
      VZ (ef_npay e); Vl V_elem (c20_scan e (snd eo)); Vl (Vo VZ) (map (c20_c2h e) qs);
      VZ (c20_size e)].

Definition V_rank (r : c20_rank) : V := VL [Vl VZ (rk_coords r); Vl VZ (rk_pays r)].

(* [payloads_root; per rank [coords_<r>; payloads_<r>]; per level the encoded fibers] *)
Definition c20_model (c : c20_case) : V :=
  let r := c20_root (q_desc c) (c20_dims c) (q_tree c) in
  VL [Vl VZ (fst r); Vl V_rank (snd r);
      Vl (fun rk => Vl (V_efib (q_queries c)) (c20_osf 0 (rk_fibers rk))) (snd r)].

(* ---------------------------------------------------------------- reading an observation *)
Definition vl (v : V) : list V := match v with VL l => l | VZ _ => [] end.
Definition vz (v : V) : Z := match v with VZ z => z | VL _ => 0 end.
Definition vzl (v : V) : list Z := map vz (vl v).
Definition vopt (v : V) : option Z := match v with VL [VZ z] => Some z | _ => None end.
Definition vnth (v : V) (i : nat) : V := nth i (vl v) (VL []).

(* ---------------------------------------------------------------- decoding by layout *)
Definition c20_arr := list (list Z * list Z).

Definition c20_firstn (n : Z) (l : list Z) := firstn (Z.to_nat n) l.
Definition c20_skipn (n : Z) (l : list Z) := skipn (Z.to_nat n) l.
Definition c20_enough (n : Z) (l : list Z) : bool := (0 <=? n) && (n <=? c20_len l).

(* positions of the set bits of a mask *)
Definition c20_positions (bits : list Z) : list Z :=
  map fst (filter (fun ib => snd ib =? 1) (combine (iota (length bits)) bits)).

(* segment lengths from cumulative segment ends *)
Fixpoint c20_diffs (prev : Z) (ends : list Z) : list Z :=
  match ends with
  | [] => []
  | e :: ends' => (e - prev) :: c20_diffs e ends'
  end.

(* decode the sub-fibers one after the other, threading the remaining arrays *)
Fixpoint c20_dec_list (D : Z -> c20_arr -> tree * c20_arr * bool) (cnts : list Z)
         (st : c20_arr) : list tree * c20_arr * bool :=
  match cnts with
  | [] => ([], st, true)
  | n :: cnts' =>
    let r := D n st in
    let r' := c20_dec_list D cnts' (snd (fst r)) in
    (fst (fst r) :: fst (fst r'), snd (fst r'), snd r && snd r')
  end.

(* one fiber at the head of the remaining arrays of its rank and the ranks below.
   cnt = its number of elements, known from the rank above when this format is C or B.
     U: positions 0..dim-1 are the coordinates, nothing stored in coords
     C: cnt explicit coordinates
     B: dim mask bits; the set positions are the coordinates (and there are cnt of them)
   payload array: leaf rank — one value per coordinate; interior rank — if the next format is
   C or B, one cumulative occupancy per coordinate = segment end of that sub-fiber in the
   rank below; if the next format is U nothing is stored.
   Result: (tree, remaining arrays, everything was in range). *)
Fixpoint c20_dec (fs : list c20_fmt) (dims : list Z) (cnt : Z) (st : c20_arr) {struct fs}
  : tree * c20_arr * bool :=
  match fs, dims, st with
  | f :: fs', dim :: dims', (C, P) :: st' =>
    let cs := match f with
              | FU => c20_range dim
              | FC => c20_firstn cnt C
              | FB => c20_positions (c20_firstn dim C)
              end in
    let C' := match f with FU => C | FC => c20_skipn cnt C | FB => c20_skipn dim C end in
    let ok1 := match f with
               | FU => true
               | FC => c20_enough cnt C
               | FB => c20_enough dim C && (c20_len cs =? cnt)
               end in
    let n := c20_len cs in
    match fs' with
    | [] =>
      (Node (combine cs (map Leaf (c20_firstn n P))), (C', c20_skipn n P) :: st',
       ok1 && c20_enough n P)
    | g :: _ =>
      let up := c20_upper g in
      let cnts := if up then c20_diffs 0 (c20_firstn n P) else map (fun _ => 0) cs in
      let P' := if up then c20_skipn n P else P in
      let ok2 := if up then c20_enough n P else true in
      let r := c20_dec_list (c20_dec fs' dims') cnts st' in
      (Node (combine cs (fst (fst r))), (C', P') :: snd (fst r), ok1 && ok2 && snd r)
    end
  | _, _, _ => (Node [], st, false)
  end.

Definition c20_all_empty (st : c20_arr) : bool :=
  forallb (fun cp => match cp with ([], []) => true | _ => false end) st.

Fixpoint c20_zl_eqb (a b : list Z) : bool :=
  match a, b with
  | [], [] => true
  | x :: a', y :: b' => (x =? y) && c20_zl_eqb a' b'
  | _, _ => false
  end.

Fixpoint c20_content_eqb (a b : list (list Z * Z)) : bool :=
  match a, b with
  | [], [] => true
  | (p, v) :: a', (p', v') :: b' => c20_zl_eqb p p' && (v =? v') && c20_content_eqb a' b'
  | _, _ => false
  end.

(* clause 1: the arrays decode, by layout alone, to exactly the tensor's content, and nothing
   is left over *)
Definition c20_holds_decode (c : c20_case) (root : list Z) (arrs : c20_arr) : bool :=
  let fs := q_desc c in
  let root_ok := match fs with
                 | f :: _ => if c20_upper f then Nat.eqb (length root) 1 else Nat.eqb (length root) 0
                 | [] => false
                 end in
  let r := c20_dec fs (c20_dims c) (nth 0 root 0) arrs in
  root_ok && Nat.eqb (length arrs) (length fs) && snd r && c20_all_empty (snd (fst r))
  && c20_content_eqb (content 0 (fst (fst r))) (content 0 (q_tree c)).

(* index of the first stored coordinate not below the query *)
Fixpoint c20_first_ge (cs : list Z) (q : Z) (i : Z) : option Z :=
  match cs with
  | [] => None
  | x :: cs' => if q <=? x then Some i else c20_first_ge cs' q (i + 1)
  end.

Fixpoint c20_ol_eqb (a b : list (option Z)) : bool :=
  match a, b with
  | [], [] => true
  | Some x :: a', Some y :: b' => (x =? y) && c20_ol_eqb a' b'
  | None :: a', None :: b' => c20_ol_eqb a' b'
  | _, _ => false
  end.

(* clauses 2-4 for one encoded fiber, from its own arrays.
   f dim: format and dimension of its rank; leaf: leaf rank; nextup: next format is C or B *)
Definition c20_fiber_ok (f : c20_fmt) (dim : Z) (leaf nextup : bool) (qs : list Z) (v : V)
  : bool :=
  let coords := vzl (vnth v 1) in
  let occ := vzl (vnth v 2) in
  let vals := vzl (vnth v 3) in
  let scan := vl (vnth v 5) in
  let lookups := map vopt (vl (vnth v 6)) in
  let size := vz (vnth v 7) in
  (* the coordinates of the fiber's elements according to its layout *)
  let lc := match f with
            | FU => c20_range dim
            | FC => coords
            | FB => c20_positions coords
            end in
  let n := c20_len lc in
  (* is one payload entry per element stored in the fiber (a value at the leaf rank, a
     sub-fiber reference at an interior rank)?  U interior and anything directly above U
     locate the sub-fiber by position: implicit *)
  let pay_entries := if leaf then n
                     else match f with FU => 0 | _ => if nextup then n else 0 end in
  let occ_entries := if negb leaf && nextup then n else 0 in
  (vz (vnth v 0) =? c20_code f)
  && match f with FU => c20_len coords =? 0 | FC => true | FB => c20_len coords =? dim end
  && (c20_len occ =? occ_entries)
  && (if leaf then c20_len vals =? n else c20_len vals =? 0)
  (* scan: the coordinates, in order *)
  && c20_ol_eqb (map (fun e => vopt (vnth e 0)) scan) (map Some lc)
  (* scan: the i-th element's payload handle is its position among the stored payload
     entries (U: the coordinate itself) wherever the fiber has payload entries *)
  && (if leaf || match f with FC => nextup | _ => true end
      then c20_ol_eqb (map (fun e => vopt (vnth e 1)) scan) (map Some (iota (length lc)))
      else true)
  (* scan: at the leaf rank the values read through the handles are the stored values *)
  && (if leaf then c20_ol_eqb (map (fun e => vopt (vnth e 2)) scan) (map Some vals) else true)
  (* lookup in a coordinate list *)
  && match f with
     | FC => c20_ol_eqb lookups (map (fun q => c20_first_ge coords q 0) qs)
     | _ => true
     end
  (* size in words *)
  && (size =? match f with FU => 0 | FC => c20_len coords | FB => (c20_len coords + 31) / 32 end
              + occ_entries + pay_entries).

(* all fibers of the ranks from the current one down; arrays of a rank = concatenation of its
   fibers' arrays, in order *)
Fixpoint c20_levels_ok (fs : list c20_fmt) (dims : list Z) (qs : list Z) (arrs : c20_arr)
         (levels : list V) {struct fs} : bool :=
  match fs, dims, arrs, levels with
  | [], _, [], [] => true
  | f :: fs', dim :: dims', (C, P) :: arrs', lv :: levels' =>
    let leaf := match fs' with [] => true | _ => false end in
    let nextup := match fs' with g :: _ => c20_upper g | [] => false end in
    let fibs := vl lv in
    c20_zl_eqb (concat (map (fun v => vzl (vnth v 1)) fibs)) C
    && c20_zl_eqb (concat (map (fun v => vzl (vnth v 2) ++ vzl (vnth v 3)) fibs)) P
    && forallb (c20_fiber_ok f dim leaf nextup qs) fibs
    && c20_levels_ok fs' dims' qs arrs' levels'
  | _, _, _, _ => false
  end.

Definition c20_arrs_of (v : V) : c20_arr :=
  map (fun r => (vzl (vnth r 0), vzl (vnth r 1))) (vl v).

Definition c20_holds (c : c20_case) (o : V) : bool :=
  let root := vzl (vnth o 0) in
  let arrs := c20_arrs_of (vnth o 1) in
  Nat.eqb (length (vl o)) 3
  && c20_holds_decode c root arrs
  && c20_levels_ok (q_desc c) (c20_dims c) (q_queries c) arrs (vl (vnth o 2)).

Definition c20_checker : checker c20_case :=
  {| model := c20_model; holds := c20_holds; region := fun _ => 0 |}.
