(* StorePopulateCheck.v — C01 and C02 over populate loops.  The populate generator is modelled
   in Model/C05Populate.v (property C05); these two checkers evaluate, on the same cases and
   observations, only what C01 resp. C02 demand: the destination is well-formed, resp. its
   rank lists mirror its tree, before the loop, at every yield and after the loop. *)
From Coq Require Import ZArith List Bool.
From FT Require Import Model.Base Model.Obs Model.Store Model.StoreCheck
                       Model.C05Populate Model.C05PopulateCheck.
Import ListNotations.
Open Scope Z_scope.

Definition c01p_holds (c : c05_case) (v : V) : bool :=
  c05_wf c && match V_to_obs v with Some o => c05_wf_ok c o | None => false end.

Definition c02p_holds (c : c05_case) (v : V) : bool :=
  c05_wf c && match V_to_obs v with Some o => c05_member_ok c o | None => false end.

Definition c01p_checker : checker c05_case :=
  {| model := c05_model; holds := c01p_holds; region := fun _ => 0 |}.
Definition c02p_checker : checker c05_case :=
  {| model := c05_model; holds := c02p_holds; region := fun _ => 0 |}.
