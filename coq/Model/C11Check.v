(* C11Check.v — case type, observation, oracle and checker record of property C11. *)
From Coq Require Import ZArith List Bool.
From FT Require Import Model.Base Model.Obs Model.C11PyOps Model.C11Fiber
                       Gen.C11PayloadOps Gen.C11CoordPayloadOps.
Import ListNotations.
Open Scope Z_scope.

(* ------------------------------------------------------------------ concrete raw values
   Python int, float (an exact rational n/d, d > 0, lowest terms — the harness only generates
   operands and results that binary64 represents exactly) and bool.  [bop_py] is Python's
   arithmetic on them; it instantiates the Section variable of C11PyOps for the differential
   run and for the oracle.  It is part of the trusted base (Python's arithmetic is not
   fibertree's), not of what C11 verifies. *)
Inductive pyval := PyInt (z : Z) | PyFlt (n d : Z) | PyBool (b : bool).

Definition q_of (v : pyval) : Z * Z :=
  match v with PyInt z => (z, 1) | PyFlt n d => (n, d) | PyBool b => (if b then 1 else 0, 1) end.
Definition is_flt (v : pyval) : bool := match v with PyFlt _ _ => true | _ => false end.
Definition mkflt (n d : Z) : pyval :=
  let g := Z.gcd n d in
  if Z.ltb d 0 then PyFlt (- n / g) (- d / g) else PyFlt (n / g) (d / g).

Definition bop_py (o : pyop) (a b : pyval) : pyval :=
  let an := fst (q_of a) in let ad := snd (q_of a) in
  let bn := fst (q_of b) in let bd := snd (q_of b) in
  let fl := is_flt a || is_flt b in
  match o with
  | OAdd => if fl then mkflt (an * bd + bn * ad) (ad * bd) else PyInt (an + bn)
  | OSub => if fl then mkflt (an * bd - bn * ad) (ad * bd) else PyInt (an - bn)
  | OMul => if fl then mkflt (an * bn) (ad * bd) else PyInt (an * bn)
  | OTrueDiv => mkflt (an * bd) (ad * bn)
  | OFloorDiv => if fl then mkflt (Z.div (an * bd) (ad * bn)) 1 else PyInt (Z.div an bn)
  | OAnd => PyInt (Z.land an bn)
  | OOr => PyInt (Z.lor an bn)
  | OLshift => PyInt (Z.shiftl an bn)
  | OEq => PyBool (Z.eqb (an * bd) (bn * ad))
  | ONe => PyBool (negb (Z.eqb (an * bd) (bn * ad)))
  | OLt => PyBool (Z.ltb (an * bd) (bn * ad))
  | OLe => PyBool (Z.leb (an * bd) (bn * ad))
  | OGt => PyBool (Z.ltb (bn * ad) (an * bd))
  | OGe => PyBool (Z.leb (bn * ad) (an * bd))
  end.

Definition wf_val (v : pyval) : bool :=
  match v with
  | PyInt _ => true
  | PyFlt n d => Z.ltb 0 d && Z.eqb (Z.gcd n d) 1
  | PyBool _ => false
  end.
Definition is_int (v : pyval) : bool := match v with PyInt _ => true | _ => false end.

(* operands on which Python itself defines the operator (no ZeroDivisionError / TypeError) *)
Definition wf_operands (o : pyop) (x y : pyval) : bool :=
  wf_val x && wf_val y &&
  match o with
  | OTrueDiv | OFloorDiv => negb (Z.eqb (fst (q_of y)) 0)
  | OAnd | OOr => is_int x && is_int y
  | OLshift => is_int x && is_int y && Z.leb 0 (fst (q_of y))
  | _ => true
  end.

(* ------------------------------------------------------------------ cases *)
Inductive c11_case :=
(* one operator application: in-place?, operator, operand kinds, operand values *)
| COp (inplace : bool) (o : pyop) (kl kr : okind) (x y : pyval)
(* fiber arithmetic: * or +, with a fiber b or with the scalar s; both the value-returning and
   the in-place form are run on (copies of) the same operands *)
| CFib (mul withfiber : bool) (sa : option Z) (a : zfib) (sb : option Z) (b : zfib) (s : Z)
(* round 2: the same on fiber objects that carry an explicit active range, optionally after a first
   in-place step  a += c (false) / a *= c (true)  — a two-step history on the same object a *)
| CFibH (pre : option (bool * afib)) (mul withfiber : bool) (a b : afib) (s : Z)
(* round 3: a chain of value-returning and in-place steps on an accumulator that starts as a0
   (results of + and * become operands), then the fiber observation with the accumulator as the
   left operand *)
| CFibC (a0 : afib) (steps : list fstep) (mul withfiber : bool) (b : afib) (s : Z).

(* ------------------------------------------------------------------ observation encoding *)
Definition V_val (v : pyval) : V :=
  match v with
  | PyInt z => VL [VZ 0; VZ z; VZ 1]
  | PyFlt n d => VL [VZ 1; VZ n; VZ d]
  | PyBool b => VL [VZ 2; Vb b; VZ 1]
  end.
Definition V_aval (a : aval pyval) : V :=
  match a with
  | ARaw x => VL [VZ 0; V_val x]
  | ABox i x => VL [VZ 1; VZ i; V_val x]
  | AElem i c bi x => VL [VZ 2; VZ i; VZ c; VZ bi; V_val x]
  | ANone => VL [VZ 3]
  | ABad => VL [VZ 4]
  end.
Definition V_aobs (a : aobs pyval) : V :=
  match a with
  | AOk r l r' => VL [V_aval r; V_aval l; V_aval r']
  | AErr c => Verr c
  end.
Definition V_fib (a : zfib) : V := Vl (Vp VZ VZ) a.

(* fiber observation: [a op x; x op a for a scalar x; a after the in-place a op= x; the in-place
   form returned a itself; a after the value-returning forms; b at the end] *)
Definition fib_obs (r1 : zfib) (r2 : option zfib) (r3 : zfib) (ret_is_a : bool)
           (a_after b_after : zfib) : V :=
  VL [V_fib r1; Vo V_fib r2; V_fib r3; Vb ret_is_a; V_fib a_after; V_fib b_after].

(* ------------------------------------------------------------------ the faithful model *)
Definition fib_model (mul withfiber : bool) (sa : option Z) (a : zfib) (b : zfib) (s : Z) : V :=
    match mul, withfiber with
    | false, true => fib_obs (fadd a b) None (fiadd a b) true a b
    | false, false => fib_obs (fadd_scalar sa a s) (Some (fadd_scalar sa a s))   (* __radd__ = __add__ *)
                              (fiadd_scalar sa a s) true a b
    | true, true => fib_obs (fmul a b) None (fimul a b) true a b
    | true, false => fib_obs (fmul_scalar a s) (Some (fmul_scalar a s))          (* __rmul__ = __mul__ *)
                             (fimul_scalar a s) true a b
    end.

(* chain observation, per step: [accumulator after the step; the object a0 then; every fiber operand
   of the chain then] *)
Definition V_operands (steps : list fstep) : V := Vl (fun c => V_fib (af_elems c)) (step_operands steps).

Fixpoint chain_obs (ops : V) (same : bool) (a0cur : zfib) (acc : afib) (steps : list fstep) : list V :=
  match steps with
  | [] => []
  | st :: steps' =>
    let acc' := chain_step acc st in
    let same' := same && is_inplace st in
    let a0cur' := if same' then af_elems acc' else a0cur in
    VL [V_fib (af_elems acc'); V_fib a0cur'; ops] :: chain_obs ops same' a0cur' acc' steps'
  end.

(* history observation: [a after the first step; a.getActive() then; the fiber observation of the
   second step, whose left operand is that a] *)
Definition c11_model (c : c11_case) : V :=
  match c with
  | COp i o kl kr x y => V_aobs (run_op pyval bop_py payload_table coordpayload_table i o kl kr x y)
  | CFib mul withfiber sa a sb b s => fib_model mul withfiber sa a b s
  | CFibH pre mul withfiber a b s =>
    let a1 := hist_step pre a in
    VL [V_fib (af_elems a1); Vp VZ VZ (get_active a1);
        fib_model mul withfiber (af_shape a1) (af_elems a1) (af_elems b) s]
  | CFibC a0 steps mul withfiber b s =>
    (* [accumulator after every step; getActive() and declared shape of the final one; second-step
       observation] *)
    let an := chain a0 steps in
    VL [VL (chain_obs (V_operands steps) true (af_elems a0) a0 steps);
        Vp VZ VZ (get_active an); Vo VZ (af_shape an);
        fib_model mul withfiber (af_shape an) (af_elems an) (af_elems b) s;
        (* the object a0 + the first fiber operand, evaluated again at the very end *)
        Vo (fun c => V_fib (fadd (chain_a0 true (af_elems a0) a0 steps) (af_elems c))) (re_operand steps)]
  end.

(* ------------------------------------------------------------------ the property as a decision
   procedure on an observation (normally the implementation's).  Written from the property text:
   operators = the operator on the underlying values (spec_op); fibers = pointwise statements
   over a universe [0, N) that contains every coordinate in sight. *)
Definition memb (c : Z) (l : list Z) : bool := existsb (Z.eqb c) l.
Definition coords (a : zfib) : list Z := map fst a.
Definition stored_nz (c : Z) (a : zfib) : bool := memb c (coords (nonempty a)).

Definition maxl (l : list Z) : Z := fold_right Z.max 0 l.
Definition universe (sa : option Z) (a : zfib) (sb : option Z) (b : zfib) : Z :=
  1 + Z.max (Z.max (maxl (coords a)) (maxl (coords b))) (Z.max (eff_shape sa a) (eff_shape sb b)).

(* r is a well-formed fiber over the universe: strictly increasing coordinates inside [0, N) *)
Definition fib_ok (N : Z) (r : zfib) : bool :=
  ssorted (coords r) && forallb (fun c => Z.leb 0 c && Z.ltb c N) (coords r).

(* for every coordinate c of the universe: c is stored in r iff [dom c], and r's value at c is [val c] *)
Definition pointwise (N : Z) (r : zfib) (dom : Z -> bool) (val : Z -> Z) : bool :=
  fib_ok N r
  && forallb (fun c => Bool.eqb (memb c (coords r)) (dom c) && Z.eqb (getz c r) (val c)) (zrange N).

(* same content: equal dense views over the universe *)
Definition same_content (N : Z) (r r' : zfib) : bool :=
  fib_ok N r && fib_ok N r' && forallb (fun c => Z.eqb (getz c r) (getz c r')) (zrange N).

Definition unV_fib (v : V) : option zfib :=
  match v with
  | VL l =>
    (fix go (l : list V) : option zfib :=
       match l with
       | [] => Some []
       | VL [VZ c; VZ x] :: l' => match go l' with Some r => Some ((c, x) :: r) | None => None end
       | _ => None
       end) l
  | _ => None
  end.

Definition in_shape (sa : option Z) (a : zfib) (c : Z) : bool :=
  Z.leb 0 c && Z.ltb c (eff_shape sa a).

Definition fib_spec (mul withfiber : bool) (sa : option Z) (a : zfib) (sb : option Z) (b : zfib)
           (s : Z) (o : V) : bool :=
  let N := universe sa a sb b in
  match o with
  | VL [v1; v2; v3; _; _; _] =>
    match unV_fib v1, unV_fib v3 with
    | Some r1, Some r3 =>
      (* the in-place form leaves a with the content the value-returning form produced *)
      same_content N r3 r1
      && match mul, withfiber with
         | false, true =>      (* sum over the union of the (non-empty) coordinates *)
           pointwise N r1 (fun c => stored_nz c a || stored_nz c b) (fun c => getz c a + getz c b)
         | true, true =>       (* product over the intersection *)
           pointwise N r1 (fun c => stored_nz c a && stored_nz c b) (fun c => getz c a * getz c b)
         | false, false =>     (* the scalar is added over the whole shape, on either side *)
           pointwise N r1 (in_shape sa a) (fun c => if in_shape sa a c then s + getz c a else 0)
           && match v2 with VL [w] => V_eqb w v1 | _ => false end
         | true, false =>      (* the stored elements are scaled, on either side *)
           pointwise N r1 (fun c => stored_nz c a) (fun c => s * getz c a)
           && match v2 with VL [w] => V_eqb w v1 | _ => false end
         end
    | _, _ => false
    end
  | _ => false
  end.

Definition c11_wf (c : c11_case) : bool :=
  match c with
  | COp i o kl kr x y =>
    scope i o kl kr && wf_val x && wf_val y
    && match i, o with
       | true, OLshift => true                      (* "<<=" assigns: any value *)
       | _, _ => wf_operands o x (match kr with KSame => x | _ => y end)
       end
  | CFib mul withfiber sa a sb b s => wf_fib sa a && wf_fib sb b
  | CFibC a0 steps mul withfiber b s =>
    wf_afib a0 && wf_afib b && forallb (step_wf (af_shape a0)) steps
  | CFibH pre mul withfiber a b s =>
    wf_afib a && wf_afib b
    && match pre with
       | None => true
       | Some (_, c) => wf_afib c && within (af_shape a) (af_elems c)
       end
  end.

(* the first step of a history, judged on the observed fiber a1:  a1 is a well-formed fiber of a's
   shape whose content is the elementwise sum / product of a and c (nothing happened: a1 = a) *)
Definition pre_ok (pre : option (bool * afib)) (a : afib) (a1 : zfib) : bool :=
  match pre with
  | None => V_eqb (V_fib (af_elems a)) (V_fib a1)
  | Some (m, c) =>
    let N := universe (af_shape a) (af_elems a) (af_shape c) (af_elems c) in
    wf_fib (af_shape a) a1 && fib_ok N a1
    && forallb (fun x => Z.eqb (getz x a1)
                               (if m then getz x (af_elems a) * getz x (af_elems c)
                                else getz x (af_elems a) + getz x (af_elems c)))
               (zrange N)
  end.

(* a history: the first step is right, and the second step is right for the fiber a1 that the
   first step left (its declared shape is still a's; its active range plays no role) *)
Definition hist_spec (pre : option (bool * afib)) (mul withfiber : bool) (a b : afib) (s : Z)
           (o : V) : bool :=
  match o with
  | VL [v1; _; o2] =>
    match unV_fib v1 with
    | Some a1 => pre_ok pre a a1
                 && fib_spec mul withfiber (af_shape a) a1 (af_shape b) (af_elems b) s o2
    | None => false
    end
  | _ => false
  end.

(* ---- chains: every step is judged on the OBSERVED accumulator before and after it, by the clause
   of the property for that single operation; [sh] is the accumulator's declared shape (that of
   a0: value-returning results carry the left operand's declared shape, in-place forms keep the
   object).  In-place steps must leave the content their value-returning form would have (same
   [step_val]); for value-returning steps the stored coordinates are prescribed too. *)
Definition step_val (sh : option Z) (acc : zfib) (st : fstep) (x : Z) : Z :=
  match st with
  | SAddF c | SIAddF c => getz x acc + getz x (af_elems c)
  | SMulF c | SIMulF c => getz x acc * getz x (af_elems c)
  | SAddS k | SIAddS k => if in_shape sh acc x then k + getz x acc else 0
  | SMulS k | SIMulS k => k * getz x acc
  end.

Definition step_universe (sh : option Z) (acc : zfib) (st : fstep) : Z :=
  match st with
  | SAddF c | SMulF c | SIAddF c | SIMulF c => universe sh acc (af_shape c) (af_elems c)
  | _ => universe sh acc None []
  end.

Definition step_ok (sh : option Z) (st : fstep) (acc acc' : zfib) : bool :=
  let N := step_universe sh acc st in
  wf_fib sh acc'
  && match st with
     | SAddF c => pointwise N acc' (fun x => stored_nz x acc || stored_nz x (af_elems c)) (step_val sh acc st)
     | SMulF c => pointwise N acc' (fun x => stored_nz x acc && stored_nz x (af_elems c)) (step_val sh acc st)
     | SAddS k => pointwise N acc' (in_shape sh acc) (step_val sh acc st)
     | SMulS k => pointwise N acc' (fun x => stored_nz x acc) (step_val sh acc st)
     | _ => fib_ok N acc' && forallb (fun x => Z.eqb (getz x acc') (step_val sh acc st x)) (zrange N)
     end.

(* operands keep the values they were built with: after every step every fiber operand still
   equals its literal, and the object a0 equals the accumulator while the accumulator IS that object
   (only in-place steps so far), else what it held when the accumulator was rebound. *)
Fixpoint steps_ok (sh : option Z) (ops : V) (same : bool) (a0cur acc : zfib) (steps : list fstep)
         (obs : list V) : option (zfib * zfib) :=
  match steps, obs with
  | [], [] => Some (acc, a0cur)
  | st :: steps', VL [v; va0; vops] :: obs' =>
    match unV_fib v with
    | Some acc' =>
      let same' := same && is_inplace st in
      let a0cur' := if same' then acc' else a0cur in
      if step_ok sh st acc acc' && V_eqb (V_fib a0cur') va0 && V_eqb ops vops
      then steps_ok sh ops same' a0cur' acc' steps' obs' else None
    | None => None
    end
  | _, _ => None
  end.

Definition chain_spec (a0 : afib) (steps : list fstep) (mul withfiber : bool) (b : afib) (s : Z)
           (o : V) : bool :=
  match o with
  | VL [VL accs; _; _; o2; vre] =>
    match steps_ok (af_shape a0) (V_operands steps) true (af_elems a0) (af_elems a0) steps accs with
    | Some (an, a0fin) =>
      fib_spec mul withfiber (af_shape a0) an (af_shape b) (af_elems b) s o2
      (* a0 + c evaluated again is still the elementwise sum of what a0 (rightfully) holds and c *)
      && match re_operand steps, vre with
         | None, VL [] => true
         | Some c, VL [vr] => match unV_fib vr with
                              | Some r => step_ok (af_shape a0) (SAddF c) a0fin r
                              | None => false end
         | _, _ => false
         end
    | None => false
    end
  | _ => false
  end.

Definition c11_holds (c : c11_case) (o : V) : bool :=
  if c11_wf c then
    match c with
    | COp i o' kl kr x y => V_eqb (V_aobs (spec_op pyval bop_py i o' kl kr x y)) o
    | CFib mul withfiber sa a sb b s => fib_spec mul withfiber sa a sb b s o
    | CFibH pre mul withfiber a b s => hist_spec pre mul withfiber a b s o
    | CFibC a0 steps mul withfiber b s => chain_spec a0 steps mul withfiber b s o
    end
  else true.

Definition c11_checker : checker c11_case :=
  {| model := c11_model; holds := c11_holds; region := fun _ => 0 |}.
