(* StoreCheck.v — executable checks for C01, C02, C03 over histories of mutators. *)
From Coq Require Import ZArith List Bool.
From FT Require Import Model.Base Model.Obs Model.Store.
Import ListNotations.
Open Scope Z_scope.

Record hist_case := {
  h_n    : nat;         (* number of ranks *)
  h_d    : Z;           (* leaf default *)
  h_tree : tree;        (* initial root fiber *)
  h_ops  : list op
}.

(* ---------- observation ---------- *)
Fixpoint V_tree (t : tree) : V :=
  match t with
  | Leaf v => VZ v
  | Node es => VL (map (fun ct => VL [VZ (fst ct); V_tree (snd ct)]) es)
  end.

Definition V_path (p : list Z) : V := Vl VZ p.

Definition size_bound (t : itree) : nat :=
  (fix sz (t : itree) : nat :=
     match t with
     | ILeaf _ => 1%nat
     | INode _ _ es => S (fold_right (fun ct acc => (sz (snd ct) + acc)%nat) O es)
     end) t.

Definition rank_paths (s : st) : list (list (option (list Z))) :=
  map (map (fun id => path_of (S (size_bound (s_root s))) id (s_root s))) (s_ranks s).

Definition V_state (s : st) : V :=
  VL [V_tree (erase (s_root s));
      Vl (Vl (Vo V_path)) (rank_paths s);
      Vb (owners_ok O (s_root s))].

Definition V_res (r : res) : V :=
  match r with
  | RNone => VL []
  | RPay t => VL [VZ 0; V_tree (erase t)]
  | RPos p => VL [VZ 1; Vo Vn p]
  end.

Definition V_outcome (o : outcome) : V :=
  match o with
  | Done r => VL [VZ 0; V_res r]
  | Rejected => VL [VZ 1]
  | BadAddress => VL [VZ 2]
  end.

Fixpoint run_obs (s : st) (ops : list op) : list V :=
  match ops with
  | [] => []
  | o :: ops' => let '(s', out) := step s o in
                 VL [V_outcome out; V_state s'] :: run_obs s' ops'
  end.

Definition hist_model (c : hist_case) : V :=
  let s0 := init (h_n c) (h_d c) (h_tree c) in
  VL [V_state s0; VL (run_obs s0 (h_ops c))].

(* ---------- decoding an observation ---------- *)
Fixpoint V_to_tree (v : V) : option tree :=
  match v with
  | VZ z => Some (Leaf z)
  | VL l =>
    option_map Node
      ((fix go (l : list V) : option (list (Z * tree)) :=
          match l with
          | [] => Some []
          | VL [VZ c; sub] :: l' =>
            match V_to_tree sub, go l' with
            | Some t, Some r => Some ((c, t) :: r)
            | _, _ => None
            end
          | _ => None
          end) l)
  end.

Definition V_to_path (v : V) : option (list Z) :=
  match v with
  | VL l => (fix go (l : list V) : option (list Z) :=
               match l with
               | [] => Some []
               | VZ z :: l' => option_map (cons z) (go l')
               | _ => None
               end) l
  | _ => None
  end.

(* a rank entry: None (undecodable), Some None (stale), Some (Some path) *)
Definition V_to_entry (v : V) : option (option (list Z)) :=
  match v with
  | VL [] => Some None
  | VL [p] => option_map Some (V_to_path p)
  | _ => None
  end.

Fixpoint all_some {A} (l : list (option A)) : option (list A) :=
  match l with
  | [] => Some []
  | Some x :: l' => option_map (cons x) (all_some l')
  | None :: _ => None
  end.

Record ostate := { o_tree : tree; o_ranks : list (list (option (list Z))); o_owners : bool }.

Definition V_to_state (v : V) : option ostate :=
  match v with
  | VL [t; VL rks; VZ ow] =>
    match V_to_tree t,
          all_some (map (fun r => match r with
                                  | VL es => all_some (map V_to_entry es)
                                  | _ => None end) rks) with
    | Some t', Some r' => Some {| o_tree := t'; o_ranks := r'; o_owners := ow =? 1 |}
    | _, _ => None
    end
  | _ => None
  end.

(* ---------- C01: well-formedness ---------- *)
(* uniform leaf depth n (root fiber at depth 0 has n ranks below it), every fiber strictly
   sorted; a non-singly-boxed leaf is reported by the harness as a list and fails to decode *)
Fixpoint wf_tree (n : nat) (t : tree) : bool :=
  match t with
  | Leaf _ => Nat.eqb n O
  | Node es => match n with
               | O => false
               | S n' => ssorted (map fst es) && forallb (fun ct => wf_tree n' (snd ct)) es
               end
  end.

Definition outcome_code (v : V) : Z :=
  match v with VL (VZ k :: _) => k | _ => -1 end.

(* per step: (outcome code, state observation) *)
Definition split_step (v : V) : option (V * V) :=
  match v with VL [o; s] => Some (o, s) | _ => None end.

Fixpoint c01_steps (n : nat) (prev : V) (steps : list V) : bool :=
  match steps with
  | [] => true
  | v :: steps' =>
    match split_step v with
    | Some (o, s) =>
      match V_to_state s with
      | Some st' =>
        wf_tree n (o_tree st')
        && (if outcome_code o =? 1 then V_eqb s prev else true)
        && (if outcome_code o =? 2 then V_eqb s prev else true)
        && c01_steps n s steps'
      | None => false
      end
    | None => false
    end
  end.

Definition c01_holds (c : hist_case) (o : V) : bool :=
  match o with
  | VL [s0; VL steps] =>
    match V_to_state s0 with
    | Some st0 => wf_tree (h_n c) (o_tree st0) && c01_steps (h_n c) s0 steps
    | None => false
    end
  | _ => false
  end.

(* ---------- C02: rank lists mirror the tree ---------- *)
(* paths of the fibers at depth k, DFS order (= lexicographic order for sorted fibers) *)
Fixpoint paths_at (k : nat) (t : tree) : list (list Z) :=
  match t with
  | Leaf _ => []
  | Node es => match k with
               | O => [[]]
               | S k' => flat_map (fun ct => map (cons (fst ct)) (paths_at k' (snd ct))) es
               end
  end.

Fixpoint path_eqb (a b : list Z) : bool :=
  match a, b with
  | [], [] => true
  | x :: a', y :: b' => (x =? y) && path_eqb a' b'
  | _, _ => false
  end.

Definition mem_path (p : list Z) (l : list (list Z)) : bool := existsb (path_eqb p) l.

Fixpoint nodup_paths (l : list (list Z)) : bool :=
  match l with
  | [] => true
  | p :: l' => negb (mem_path p l') && nodup_paths l'
  end.

(* the rank list names each fiber of the level once, none stale, none missing *)
Definition rank_mirrors (entries : list (option (list Z))) (level : list (list Z)) : bool :=
  match all_some entries with
  | None => false                                   (* a stale entry *)
  | Some ps => nodup_paths ps
               && Nat.eqb (length ps) (length level)
               && forallb (fun p => mem_path p level) ps
  end.

Definition mirror_state (n : nat) (s : ostate) : bool :=
  Nat.eqb (length (o_ranks s)) n
  && forallb (fun kr => rank_mirrors (snd kr) (paths_at (fst kr) (o_tree s)))
             (combine (seq 0 n) (o_ranks s))
  && o_owners s.

Definition c02_holds (c : hist_case) (o : V) : bool :=
  match o with
  | VL [s0; VL steps] =>
    forallb (fun sv => match V_to_state sv with
                       | Some s => mirror_state (h_n c) s
                       | None => false end)
            (s0 :: map (fun v => match split_step v with Some (_, s) => s | None => VL [] end) steps)
  | _ => false
  end.

(* ---------- C03: point access refines a map ---------- *)
Definition pmap := list (list Z * Z).

Fixpoint pm_get (p : list Z) (m : pmap) : option Z :=
  match m with
  | [] => None
  | (q, v) :: m' => if path_eqb p q then Some v else pm_get p m'
  end.

Fixpoint pm_set (p : list Z) (v : Z) (m : pmap) : pmap :=
  match m with
  | [] => [(p, v)]
  | (q, w) :: m' => if path_eqb p q then (p, v) :: m' else (q, w) :: pm_set p v m'
  end.

Fixpoint is_prefix (p q : list Z) : bool :=
  match p, q with
  | [], _ => true
  | x :: p', y :: q' => (x =? y) && is_prefix p' q'
  | _, _ => false
  end.

(* points with a non-default value, as a set *)
Definition pm_content (d : Z) (m : pmap) : pmap := filter (fun pv => negb (snd pv =? d)) m.

Fixpoint pm_incl (a b : pmap) : bool :=
  match a with
  | [] => true
  | (p, v) :: a' => (match pm_get p b with Some w => v =? w | None => false end) && pm_incl a' b
  end.

Definition pm_same (a b : pmap) : bool := pm_incl a b && pm_incl b a.

Definition tree_of_state (sv : V) : option tree :=
  match V_to_state sv with Some s => Some (o_tree s) | None => None end.

(* restriction of the map to the points under a prefix, prefix stripped *)
Definition pm_under (p : list Z) (m : pmap) : pmap :=
  flat_map (fun qv => if is_prefix p (fst qv)
                      then [(skipn (length p) (fst qv), snd qv)] else []) m.

Definition legal_sp (c : Z) (spk : option nat) (cs : list Z) : bool :=
  match spk with
  | None => true
  | Some k => match length cs with
              | O => true
              | S _ => Nat.leb (Nat.modulo k (length cs)) (bisect c cs)
              end
  end.

Definition accept_sp (c : Z) (spk : option nat) (cs : list Z) : bool :=
  match spk with
  | None => true
  | Some k => match length cs with
              | O => true
              | S _ => match Nat.modulo k (length cs) with
                       | O => true
                       | p => match nth_error cs p with Some x => x <=? c | None => false end
                       end
              end
  end.

Fixpoint plain_fiber_at (path : list Z) (t : tree) : option fib :=
  match t with
  | Leaf _ => None
  | Node es => match path with
               | [] => Some es
               | c :: path' => match lookup c es with
                               | Some t' => plain_fiber_at path' t'
                               | None => None
                               end
               end
  end.

(* getPayload with a caller-supplied default and allocate=False, read off the plain tree:
   the stored payload if the element exists (an explicit default-valued one included), the
   caller's default as soon as a coordinate of the point is missing *)
Fixpoint plain_get_d (dflt : Z) (pt : list Z) (t : tree) : option tree :=
  match pt, t with
  | [], _ => None
  | c :: pt', Node es =>
    match lookup c es with
    | None => Some (Leaf dflt)
    | Some sub => match pt' with
                  | [] => Some sub
                  | _ :: _ => match sub with Node _ => plain_get_d dflt pt' sub | Leaf _ => None end
                  end
    end
  | _ :: _, Leaf _ => None
  end.

Fixpoint index_of (c : Z) (cs : list Z) : option nat :=
  match cs with
  | [] => None
  | x :: cs' => if x =? c then Some O else option_map S (index_of c cs')
  end.

(* one step of the reference: given the map before, the op, the observed (outcome, state
   before, state after): is the answer right and is the map after right?  Only the four
   access families are judged; other ops just re-synchronise the map from the tree. *)
Definition c03_step (n : nat) (d : Z) (m : pmap) (o : op) (out : V) (before after : V)
  : bool * pmap :=
  let resync := match tree_of_state after with Some t => content d t | None => [] end in
  let after_content := resync in
  let pure := V_eqb before after in
  let tb := match tree_of_state before with Some t => t | None => Node [] end in
  match o with
  | OGet pt =>
    if Nat.eqb (length pt) n then
      (pure && V_eqb out (VL [VZ 0; VL [VZ 0; VZ (match pm_get pt m with Some v => v | None => d end)]]), m)
    else
      (pure && (match out with
                | VL [VZ 0; VL [VZ 0; sub]] =>
                  match V_to_tree sub with
                  | Some t => pm_same (content d t) (pm_content d (pm_under pt m))
                  | None => false
                  end
                | _ => false
                end), m)
  | OGetRef pt w =>
    if Nat.eqb (length pt) n then
      let old := match pm_get pt m with Some v => v | None => d end in
      let new := apply_wr w old in
      let m' := pm_set pt new m in
      (V_eqb out (VL [VZ 0; VL [VZ 0; VZ new]]) && pm_same after_content (pm_content d m'), m')
    else
      (pm_same after_content (pm_content d m)
       && (match out with
           | VL [VZ 0; VL [VZ 0; sub]] =>
             match V_to_tree sub with
             | Some t => pm_same (content d t) (pm_content d (pm_under pt m))
             | None => false
             end
           | _ => false
           end), m)
  | OGetPos path c sp =>
    match plain_fiber_at path tb with
    | Some es =>
      if legal_sp c sp (map fst es)
      then (pure && V_eqb out (VL [VZ 0; VL [VZ 1; Vo Vn (index_of c (map fst es))]]), m)
      else (pure, m)
    | None => (pure, m)
    end
  | OGetSP path c sp =>
    match plain_fiber_at path tb with
    | Some es =>
      (* getPayload documents its own notion of a usable start_pos by an assertion:
         start_pos is 0/None or coords[start_pos] <= c; outside it the call is refused *)
      if accept_sp c sp (map fst es) then
        if Nat.eqb (S (length path)) n then
          (pure && V_eqb out (VL [VZ 0; VL [VZ 0; VZ (match pm_get (path ++ [c]) m with Some v => v | None => d end)]]), m)
        else
          (pure && (match out with
                    | VL [VZ 0; VL [VZ 0; sub]] =>
                      match V_to_tree sub with
                      | Some t => pm_same (content d t) (pm_content d (pm_under (path ++ [c]) m))
                      | None => false
                      end
                    | _ => false
                    end), m)
      else (pure, m)
    | None => (pure, m)
    end
  | OGetPosRef path c sp =>
    (* content unchanged; the answer is the position c has afterwards *)
    (pm_same after_content (pm_content d m)
     && (match plain_fiber_at path tb, tree_of_state after with
         | Some eb, Some ta =>
           if legal_sp c sp (map fst eb) then
             match plain_fiber_at path ta with
             | Some es => V_eqb out (VL [VZ 0; VL [VZ 1; Vo Vn (index_of c (map fst es))]])
             | None => false
             end
           else true
         | _, _ => false
         end), m)
  | OGetRefSP path c sp w =>
    if Nat.eqb (S (length path)) n then
      let pt := path ++ [c] in
      let old := match pm_get pt m with Some v => v | None => d end in
      let new := apply_wr w old in
      let m' := pm_set pt new m in
      (V_eqb out (VL [VZ 0; VL [VZ 0; VZ new]]) && pm_same after_content (pm_content d m'), m')
    else (pm_same after_content (pm_content d m), m)
  | OGetD pt dflt =>
    (pure && V_eqb out (VL [VZ 0; match plain_get_d dflt pt tb with
                                  | Some t => VL [VZ 0; V_tree t]
                                  | None => VL [] end]), m)
  | _ => (true, resync)
  end.

Fixpoint c03_steps (n : nat) (d : Z) (m : pmap) (prev : V) (ops : list op) (steps : list V) : bool :=
  match ops, steps with
  | [], [] => true
  | o :: ops', v :: steps' =>
    match split_step v with
    | Some (out, s) =>
      if outcome_code out =? 2 then c03_steps n d m s ops' steps'   (* not a legal case *)
      else
        let '(ok, m') := c03_step n d m o out prev s in
        ok && c03_steps n d m' s ops' steps'
    | None => false
    end
  | _, _ => false
  end.

Definition c03_holds (c : hist_case) (o : V) : bool :=
  match o with
  | VL [s0; VL steps] =>
    match tree_of_state s0 with
    | Some t0 => c03_steps (h_n c) (h_d c) (content (h_d c) t0) s0 (h_ops c) steps
    | None => false
    end
  | _ => false
  end.

Definition c01_checker : checker hist_case :=
  {| model := hist_model; holds := c01_holds; region := fun _ => 0 |}.
Definition c02_checker : checker hist_case :=
  {| model := hist_model; holds := c02_holds; region := fun _ => 0 |}.
Definition c03_checker : checker hist_case :=
  {| model := hist_model; holds := c03_holds; region := fun _ => 0 |}.
