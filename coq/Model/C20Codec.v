(* C20Codec.v — model of fibertree/codec (Codec.encode, the U / C / B formats, the handle API
   and getSize), for C20.  The model is of the code WITH the proposed fixes
   proposed_fixes/S15-bitvector-encode-passes-shape.diff and
   proposed_fixes/S24-coordlist-getsize-empty-fiber.diff applied.

   The tensor is a Base.tree with leaf default 0 (the codec hard-codes 0 as "empty"); every
   rank of the tensor has fibertree format "C", so `for ind, val in a` is iterOccupancy: the
   stored elements whose payload is not empty (Base.present 0).

   Codec.encode appends to per-rank lists of a dictionary (coords_<r>, payloads_<r>) and to a
   per-level list of fiber objects (output_tensor[depth+1]) while it walks the tree depth
   first.  Appends to different lists commute, so the model returns, for the ranks from the
   current one down, what one call appends to each list, in order (a writer): a call's
   contribution to its own rank comes first, followed by the contributions of the recursive
   calls in call order (c20_oapp = rank-wise append).  No proofs in this file. *)
From Coq Require Import ZArith List Bool.
From FT Require Import Model.Base.
Import ListNotations.
Open Scope Z_scope.

Inductive c20_fmt := FU | FC | FB.

(* <Format>.encodeUpperPayload(): U False (uncompressed.py:162-164), C True
   (coord_list.py:306-308), B True (bitvector.py:226-229) *)
Definition c20_upper (f : c20_fmt) : bool := match f with FU => false | _ => true end.

Definition c20_len {A} (l : list A) : Z := Z.of_nat (length l).

Definition c20_es (t : tree) : fib := match t with Node es => es | Leaf _ => [] end.
Definition c20_leafval (t : tree) : Z := match t with Leaf v => v | Node _ => 0 end.

(* a.getPayload(i) (fiber.py:751-865) at a leaf rank: the stored value, or the default 0 *)
Definition c20_leaf_at (i : Z) (es : fib) : Z :=
  match lookup i es with Some t => c20_leafval t | None => 0 end.
(* ... at an interior rank: the stored sub-fiber, or a new empty fiber *)
Definition c20_sub_at (i : Z) (es : fib) : tree :=
  match lookup i es with Some t => t | None => Node [] end.

Definition c20_range (dim : Z) : list Z := iota (Z.to_nat dim).

Definition c20_mem (i : Z) (l : list Z) : bool := existsb (Z.eqb i) l.

(* bitvector.py:39,59: self.coords = [0]*dim_len; self.coords[ind] = 1 for every element *)
Definition c20_bits (dim : Z) (cs : list Z) : list Z :=
  map (fun i => if c20_mem i cs then 1 else 0) (c20_range dim).

(* running (inclusive) sums: cumulative_occupancy after each child *)
Fixpoint c20_cumul (acc : Z) (l : list Z) : list Z :=
  match l with
  | [] => []
  | x :: l' => (acc + x) :: c20_cumul (acc + x) l'
  end.

(* ---- the encoded fiber object (CompressionFormat instance), fields the handle API reads *)
Record c20_efib := {
  ef_fmt    : c20_fmt;
  ef_coords : list Z;        (* self.coords: C coordinates / B bit mask / U [] *)
  ef_occ    : list Z;        (* self.occupancies *)
  ef_vals   : list Z;        (* self.payloads at the leaf rank (values); [] at interior ranks *)
  ef_npay   : Z;             (* len(self.payloads) *)
  ef_shape  : Z;             (* self.shape (U only; 0 otherwise) *)
  ef_leaf   : bool;
  ef_nextup : bool;          (* next_fmt is not None and next_fmt.encodeUpperPayload() *)
  ef_nnz    : Z              (* fiber.nnz = value returned by encodeFiber (C, B); 0 for U, see c20_enc *)
}.

(* what one rank accumulates: coords_<r>, payloads_<r>, output_tensor[depth+1] *)
Record c20_rank := { rk_coords : list Z; rk_pays : list Z; rk_fibers : list c20_efib }.
Definition c20_out := list c20_rank.

Fixpoint c20_oapp (a b : c20_out) : c20_out :=
  match a, b with
  | [], _ => b
  | _, [] => a
  | x :: a', y :: b' =>
    {| rk_coords := rk_coords x ++ rk_coords y; rk_pays := rk_pays x ++ rk_pays y;
       rk_fibers := rk_fibers x ++ rk_fibers y |} :: c20_oapp a' b'
  end.

(* nothing appended yet to the ranks fs *)
Definition c20_blank (fs : list c20_fmt) : c20_out :=
  map (fun _ => {| rk_coords := []; rk_pays := []; rk_fibers := [] |}) fs.

(* the sub-fibers encodeFiber recurses into: U walks range(dim_len) with getPayload(i)
   (uncompressed.py:32-35); C and B walk `for ind, val in a` (coord_list.py:39,
   bitvector.py:41) *)
Definition c20_kids (f : c20_fmt) (dim : Z) (es : fib) : list tree :=
  match f with
  | FU => map (fun i => c20_sub_at i es) (c20_range dim)
  | _ => map snd (present 0 es)
  end.

Definition c20_coords (f : c20_fmt) (dim : Z) (es : fib) : list Z :=
  match f with
  | FU => []
  | FC => map fst (present 0 es)
  | FB => c20_bits dim (map fst (present 0 es))
  end.

(* leaf payloads: U every position (uncompressed.py:48-54), C/B the occupied ones *)
Definition c20_vals (f : c20_fmt) (dim : Z) (es : fib) : list Z :=
  match f with
  | FU => map (fun i => c20_leaf_at i es) (c20_range dim)
  | _ => map (fun ct => c20_leafval (snd ct)) (present 0 es)
  end.

(* value returned by encodeFiber: C/B the number of elements walked; U returns
   len(output_tensor[depth]) (uncompressed.py:56), which is only ever added into a cumulative
   occupancy that is not emitted (the next format is U) and stored in fiber.nnz of a U fiber,
   which nothing on the footprint of C20 reads — modelled as 0 *)
Definition c20_ret (f : c20_fmt) (es : fib) : Z :=
  match f with FU => 0 | _ => c20_len (present 0 es) end.

(* ---- Codec.encode (tensor_codec.py:63-117) + <Format>.encodeFiber.
   fs / dims: formats and dimension lengths from this depth down (dim_len = shape[depth] if a
   shape is imposed, else a.getShape()[0] = the rank's shape).
   Returns (appended words and fibers per rank, occupancy returned to the caller). *)
Fixpoint c20_enc (fs : list c20_fmt) (dims : list Z) (t : tree) {struct fs} : c20_out * Z :=
  match fs, dims with
  | f :: fs', dim :: dims' =>
    let es := c20_es t in
    match fs' with
    | [] =>      (* depth == len(ranks) - 1: leaf rank *)
      let vals := c20_vals f dim es in
      let cs := c20_coords f dim es in
      ([{| rk_coords := cs; rk_pays := vals;
           rk_fibers := [{| ef_fmt := f; ef_coords := cs; ef_occ := []; ef_vals := vals;
                            ef_npay := c20_len vals;
                            ef_shape := match f with FU => dim | _ => 0 end;
                            ef_leaf := true; ef_nextup := false;
                            ef_nnz := c20_ret f es |}] |}],
       c20_ret f es)
    | g :: _ =>
      let rs := map (c20_enc fs' dims') (c20_kids f dim es) in
      (* cumulative occupancy is appended only if the next format encodes upper payloads
         (uncompressed.py:45-47, coord_list.py:68-71, bitvector.py:53-55) *)
      let occs := if c20_upper g then c20_cumul 0 (map snd rs) else [] in
      let cs := c20_coords f dim es in
      (* len(self.payloads): U and B append every child fiber; C only under the `if`
         (coord_list.py:72) *)
      let npay := match f with
                  | FC => if c20_upper g then c20_len rs else 0
                  | _ => c20_len rs
                  end in
      ({| rk_coords := cs; rk_pays := occs;
          rk_fibers := [{| ef_fmt := f; ef_coords := cs; ef_occ := occs; ef_vals := [];
                           ef_npay := npay;
                           ef_shape := match f with FU => dim | _ => 0 end;
                           ef_leaf := false; ef_nextup := c20_upper g;
                           ef_nnz := c20_ret f es |}] |}
         :: fold_right c20_oapp (c20_blank fs') (map fst rs),
       c20_ret f es)
    end
  | _, _ => ([], 0)
  end.

(* depth == -1 (tensor_codec.py:70-85): payloads_root gets the root's occupancy iff the first
   format encodes upper payloads *)
Definition c20_root (fs : list c20_fmt) (dims : list Z) (t : tree) : list Z * c20_out :=
  let r := c20_enc fs dims t in
  (match fs with
   | f :: _ => if c20_upper f then [snd r] else []
   | [] => []
   end, fst r).

(* ---- handle API *)
Definition c20_nthZ (l : list Z) (i : Z) : Z := nth (Z.to_nat i) l 0.
Definition c20_last (l : list Z) : Z := last l 0.

(* CoordinateList.coordToHandle (coord_list.py:86-140): binary search with ceiling midpoint.
   Out of fuel = Some (-2); never happens with fuel = len(coords) (C20_lookup). *)
Fixpoint c20_bs (fuel : nat) (cs : list Z) (q lo hi mid : Z) : option Z :=
  if lo <=? hi then
    match fuel with
    | O => Some (-2)
    | S fuel' =>
      let mid' := (hi + lo + 1) / 2 in          (* math.ceil((hi + lo) / 2) *)
      let cm := c20_nthZ cs mid' in
      if cm =? q then Some mid'
      else if cm <? q then c20_bs fuel' cs q (mid' + 1) hi mid'
      else c20_bs fuel' cs q lo (mid' - 1) mid'
    end
  else Some (if q >? c20_nthZ cs mid then mid + 1 else mid).

Definition c20_c2h_C (cs : list Z) (q : Z) : option Z :=
  match cs with
  | [] => None
  | c0 :: _ =>
    if q >? c20_last cs then None
    else if q <=? c0 then Some 0
    else c20_bs (length cs) cs q 0 (c20_len cs - 1) 0
  end.

(* coordToHandle: U uncompressed.py:87-91; B bitvector.py:132-133 (identity) *)
Definition c20_c2h (e : c20_efib) (q : Z) : option Z :=
  match ef_fmt e with
  | FU => if (q <? 0) || (q >=? ef_shape e) then None else Some q
  | FC => c20_c2h_C (ef_coords e) q
  | FB => Some q
  end.

(* CompressionFormat.handleToPayload (compression_format.py:102-111) *)
Definition c20_h2p_base (e : c20_efib) (h : Z) : option Z :=
  if h >=? ef_npay e then None else Some h.

(* CompressionFormat.payloadToValue (compression_format.py:38-63) *)
Definition c20_p2v (e : c20_efib) (p : option Z) : option Z :=
  match p with
  | None => None
  | Some p => if p >=? ef_npay e then None else Some (c20_nthZ (ef_vals e) p)
  end.

(* one scanned element: [handleToCoord h; handleToPayload h; payloadToValue of it (leaf)] *)
Definition c20_elem := (option Z * option Z * option Z)%type.

(* setupSlice(0) + nextInSlice until None, for U and C (compression_format.py:114-136):
   handles start at coordToHandle(0) and step by one below getSliceMaxLength() *)
Definition c20_handles (start : option Z) (maxlen : Z) : list Z :=
  match start with
  | None => []
  | Some s => map (fun i => s + i) (c20_range (maxlen - s))
  end.

(* Bitvector.setupSlice / nextInSlice (bitvector.py:189-216): the coordinate handle walks the
   mask to the next set bit, the payload handle counts the elements returned; stops when
   either runs off its array.  bits = the mask from the coordinate handle on. *)
Fixpoint c20_bscan (bits : list Z) (ch ph npay : Z) : list (Z * Z) :=
  match bits with
  | [] => []
  | b :: bits' =>
    if ph >=? npay then []
    else if b =? 1 then (ch, ph) :: c20_bscan bits' (ch + 1) (ph + 1) npay
    else c20_bscan bits' (ch + 1) ph npay
  end.

(* osf = fiber.occupancy_so_far (tensor_codec.py:101-107) *)
Definition c20_scan (e : c20_efib) (osf : Z) : list c20_elem :=
  let fin (p : option Z) := if ef_leaf e then c20_p2v e p else None in
  match ef_fmt e with
  | FU =>   (* handleToCoord = handle (uncompressed.py:59-60) *)
    map (fun h => (Some h, c20_h2p_base e h, fin (c20_h2p_base e h)))
        (c20_handles (c20_c2h e 0) (ef_shape e))
  | FC =>   (* handleToCoord compression_format.py:79-99; handleToPayload coord_list.py:228-234 *)
    map (fun h =>
           let p := if negb (ef_leaf e) && negb (ef_nextup e) then Some osf else Some h in
           ((if h >=? c20_len (ef_coords e) then None else Some (c20_nthZ (ef_coords e) h)),
            p, fin p))
        (c20_handles (c20_c2h e 0) (c20_len (ef_coords e)))
  | FB =>   (* handleToCoord / handleToPayload bitvector.py:114-128 *)
    map (fun hp => (Some (fst hp), c20_h2p_base e (snd hp), fin (c20_h2p_base e (snd hp))))
        (c20_bscan (ef_coords e) 0 0 (ef_npay e))
  end.

(* getSize: uncompressed.py:127-135, coord_list.py:278-287 (with S24 fix), bitvector.py:141-147 *)
Definition c20_size (e : c20_efib) : Z :=
  match ef_fmt e with
  | FU => c20_len (ef_occ e) + (if ef_leaf e then ef_npay e else 0)
  | FC => c20_len (ef_coords e) + c20_len (ef_occ e) + ef_npay e
  | FB => (c20_len (ef_coords e) + 31) / 32 + c20_len (ef_occ e)
          + (if ef_leaf e || ef_nextup e then ef_npay e else 0)
  end.

(* exclusive prefix sums of nnz along a level: occupancy_so_far of each fiber *)
Fixpoint c20_osf (acc : Z) (l : list c20_efib) : list (c20_efib * Z) :=
  match l with
  | [] => []
  | e :: l' => (e, acc) :: c20_osf (acc + ef_nnz e) l'
  end.
