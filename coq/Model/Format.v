(* Format.v — model of fibertree/model/format.py (class Format), for C18.

   A tensor is (tree, per-rank (spec, shape) list top to bottom, leaf default).
   Function names follow the Python methods. *)
From Coq Require Import ZArith List Bool.
From FT Require Import Model.Base.
Import ListNotations.
Open Scope Z_scope.

(* ---- _checkFillSpec (format.py:55-97): missing fields default to 0 / "C" / "contiguous" *)
Record raw_rspec := { r_rh : option Z; r_fh : option Z; r_cb : option Z; r_pb : option Z;
                      r_fmtU : option bool; r_interleaved : option bool }.
Record rspec := { rh : Z; fh : Z; cb : Z; pb : Z; isU : bool; interleaved : bool }.

Definition fill_int (o : option Z) : Z := match o with Some z => z | None => 0 end.
Definition fill_bool (o : option bool) : bool := match o with Some b => b | None => false end.

Definition fill_rspec (r : raw_rspec) : rspec :=
  {| rh := fill_int (r_rh r); fh := fill_int (r_fh r); cb := fill_int (r_cb r);
     pb := fill_int (r_pb r); isU := fill_bool (r_fmtU r);
     interleaved := fill_bool (r_interleaved r) |}.

Definition empty_raw : raw_rspec :=
  {| r_rh := None; r_fh := None; r_cb := None; r_pb := None; r_fmtU := None;
     r_interleaved := None |}.

(* a rank spec absent from the dictionary is filled like an empty one *)
Definition fill_opt (o : option raw_rspec) : rspec :=
  fill_rspec (match o with Some r => r | None => empty_raw end).

(* root: hbits, pbits *)
Definition fill_root (o : option (option Z * option Z)) : Z * Z :=
  match o with
  | Some (h, p) => (fill_int h, fill_int p)
  | None => (0, 0)
  end.

Definition rk := (rspec * Z)%type.   (* filled spec and rank shape *)

(* ---- _getFiberFootprint (format.py:217-227) *)
Definition fiber_fp (s : rspec) (shape : Z) (es : fib) : Z :=
  let n := if isU s then shape else Z.of_nat (length es) in
  fh s + pb s * n + cb s * n.

(* ---- getRank (150-161): rhbits + footprints of Rank.getFibers() = fibers at that depth *)
Fixpoint level (k : nat) (t : tree) : list fib :=
  match t with
  | Leaf _ => []
  | Node es => match k with
               | O => [es]
               | S k' => flat_map (fun ct => level k' (snd ct)) es
               end
  end.

Definition rank_fp (k : nat) (r : rk) (t : tree) : Z :=
  fold_left (fun total f => total + fiber_fp (fst r) (snd r) f) (level k t) (rh (fst r)).

(* ---- getRoot / getTensor (163-165, 195-202) *)
Definition root_fp (root : Z * Z) : Z := fst root + snd root.

Fixpoint ranks_fp (k : nat) (rs : list rk) (t : tree) (total : Z) : Z :=
  match rs with
  | [] => total
  | r :: rs' => ranks_fp (S k) rs' t (total + rank_fp k r t)
  end.

Definition tensor_fp (root : Z * Z) (rs : list rk) (t : tree) : Z :=
  ranks_fp 0 rs t (root_fp root).

(* ---- getSubTree (167-193).  The children pushed on the worklist are the Fiber payloads
   yielded by iterShape (format U: every coordinate 0..shape-1, getPayload synthesising an
   empty fiber for an absent interior coordinate) or iterOccupancy (format C: non-empty
   stored elements).  At the leaf rank payloads are not Fibers: nothing is pushed. *)
Definition get_or_empty (c : Z) (es : fib) : tree :=
  match lookup c es with Some t => t | None => Node [] end.

Definition as_fib (t : tree) : list fib :=
  match t with Node es => [es] | Leaf _ => [] end.

Definition child_fibers (d : Z) (s : rspec) (shape : Z) (leaf_rank : bool) (es : fib)
  : list fib :=
  if leaf_rank then []
  else if isU s
       then flat_map (fun c => as_fib (get_or_empty c es)) (iota (Z.to_nat shape))
       else flat_map (fun ct => as_fib (snd ct)) (present d es).

Definition is_nil {A} (l : list A) : bool := match l with [] => true | _ => false end.

(* worklist: head of the list = top of the Python list-as-stack (fibers.pop() pops the
   last appended); pushing children c1..ck in order leaves ck on top. *)
Fixpoint subtree_loop (d : Z) (fuel : nat) (stack : list (list rk * fib)) (total : Z)
  : option Z :=
  match stack with
  | [] => Some total
  | (rs, es) :: rest =>
    match fuel with
    | O => None
    | S fuel' =>
      match rs with
      | [] => None    (* a Fiber below the last rank: not a well-formed tensor *)
      | (s, shape) :: rs' =>
        let kids := map (fun f => (rs', f)) (child_fibers d s shape (is_nil rs') es) in
        subtree_loop d fuel' (rev kids ++ rest) (total + fiber_fp s shape es)
      end
    end
  end.

(* number of fibers the worklist visits = fuel that suffices *)
Fixpoint reach_count (d : Z) (rs : list rk) (es : fib) : nat :=
  match rs with
  | [] => 1
  | (s, shape) :: rs' =>
    S (fold_right Nat.add O (map (reach_count d rs') (child_fibers d s shape (is_nil rs') es)))
  end.

(* _getFiberFromCoords (204-215): tensor.getPayload( *coords ); an absent coordinate yields a
   default (empty) fiber owned by the next rank and the descent continues through it *)
Fixpoint descend (rs : list rk) (es : fib) (pt : list Z) : option (list rk * fib) :=
  match pt with
  | [] => Some (rs, es)
  | c :: pt' =>
    match rs with
    | [] => None
    | _ :: rs' =>
      match get_or_empty c es with
      | Node es' => descend rs' es' pt'
      | Leaf _ => None      (* "should not be a payload" assertion *)
      end
    end
  end.

Definition get_fiber (rs : list rk) (es : fib) (pt : list Z) : option Z :=
  match descend rs es pt with
  | Some ((s, shape) :: _, es') => Some (fiber_fp s shape es')
  | _ => None
  end.

Definition get_subtree (d : Z) (rs : list rk) (es : fib) (pt : list Z) : option Z :=
  if Nat.eqb (length pt) (length rs)
  then match rev rs with
       | (s, _) :: _ => Some (cb s + pb s)
       | [] => None
       end
  else match descend rs es pt with
       | Some (rs', es') => subtree_loop d (reach_count d rs' es') [(rs', es')] 0
       | None => None
       end.

(* ---- specification side: the recursive sums the property talks about *)

(* sum over exactly the fibers reachable below a fiber *)
Fixpoint sub_fp (d : Z) (rs : list rk) (es : fib) : Z :=
  match rs with
  | [] => 0
  | (s, shape) :: rs' =>
    fiber_fp s shape es
    + sumZ (map (sub_fp d rs') (child_fibers d s shape (is_nil rs') es))
  end.

(* sum over every stored fiber of the tree (what the rank lists enumerate) *)
Fixpoint all_fp (rs : list rk) (t : tree) : Z :=
  match rs with
  | [] => 0
  | (s, shape) :: rs' =>
    match t with
    | Leaf _ => 0
    | Node es => fiber_fp s shape es + sumZ (map (fun ct => all_fp rs' (snd ct)) es)
    end
  end.
