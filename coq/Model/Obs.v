(* Obs.v — the universal observation datatype in which the implementation's behaviour and the
   model's behaviour are compared (correspondence check), and the case runner.

   An observation is a nested list of integers.  Conventions used by every property:
   bool = VZ 0 / VZ 1; None = VL []; Some x = VL [x]; tuples and records = VL of the fields;
   an exception class = VL [VZ (-1); VZ code]. *)
From Coq Require Import ZArith List Bool.
Import ListNotations.
Open Scope Z_scope.

Inductive V := VZ (z : Z) | VL (l : list V).

Fixpoint V_eqb (a b : V) : bool :=
  match a, b with
  | VZ x, VZ y => Z.eqb x y
  | VL la, VL lb =>
    (fix go (la lb : list V) : bool :=
       match la, lb with
       | [], [] => true
       | x :: la', y :: lb' => V_eqb x y && go la' lb'
       | _, _ => false
       end) la lb
  | _, _ => false
  end.

(* flat token stream, for printing an observation from Coq in a form the harness can parse:
   VZ z -> [0; z]; VL l -> [1; length l; tokens of the elements] *)
Fixpoint V_flat (v : V) : list Z :=
  match v with
  | VZ z => [0; z]
  | VL l => 1 :: Z.of_nat (length l) :: flat_map V_flat l
  end.

Definition Vb (b : bool) : V := VZ (if b then 1 else 0).
Definition Vo {A} (f : A -> V) (o : option A) : V :=
  match o with None => VL [] | Some x => VL [f x] end.
Definition Vl {A} (f : A -> V) (l : list A) : V := VL (map f l).
Definition Vn (n : nat) : V := VZ (Z.of_nat n).
Definition Vp {A B} (f : A -> V) (g : B -> V) (p : A * B) : V := VL [f (fst p); g (snd p)].
Definition Verr (code : Z) : V := VL [VZ (-1); VZ code].

(* A property's executable check:
     model  : the faithful model's observation for the case
     holds  : the property itself, evaluated on an observation (normally the
              implementation's), independent of the model
     region : 0, or the number of the known-finding region the case lies in *)
Record checker (case : Type) := {
  model  : case -> V;
  holds  : case -> V -> bool;
  region : case -> Z
}.
Arguments model {case}. Arguments holds {case}. Arguments region {case}.

(* verdict bits: 1 = the property fails on the observation; 2 = observation differs from the
   model's; 4 = the model's own observation fails the property (model/theorem mismatch —
   cannot happen if the oracle-soundness lemmas hold; kept as a self-check) *)
Definition verdict {case} (k : checker case) (c : case) (o : V) : Z :=
  (if holds k c o then 0 else 1)
  + (if V_eqb (model k c) o then 0 else 2)
  + (if holds k c (model k c) then 0 else 4).

Fixpoint run_cases_from {case} (k : checker case) (i : Z) (cs : list (case * V)) : list Z :=
  match cs with
  | [] => []
  | (c, o) :: cs' =>
    let v := verdict k c o in
    (if Z.eqb v 0 then [] else [i; v; region k c]) ++ run_cases_from k (i + 1) cs'
  end.

Definition run_cases {case} (k : checker case) (cs : list (case * V)) : list Z :=
  run_cases_from k 0 cs.
