(* C13Check.v — executable check for C13 (correspondence + property oracle). *)
From Coq Require Import ZArith List Bool.
From FT Require Import Model.Base Model.Obs Model.C13Convert.
Import ListNotations.
Open Scope Z_scope.

Inductive c13_case :=
  (* nest -> fiber (tensor_path = false) or tensor (true) -> nest *)
| KNest (tensor_path : bool) (d : Z) (dims : list Z) (n : nest)
  (* dictionary / YAML round trip of a tensor (leaf default d); flat = the harness flattened
     the two top ranks first, so the coordinates are tuples *)
| KTree (d : Z) (T : tens) (flat : bool)
  (* fromRandom over the injected draw stream; seed is used for the real-PRNG runs only *)
| KRand (shape dens : list Z) (scalar : bool) (interval d : Z) (draws : list Z) (seed : Z).

(* ---- observations as V *)
Fixpoint V_tree (t : tree) : V :=
  match t with
  | Leaf v => VZ v
  | Node es => VL (map (fun ct => VL [VZ (fst ct); V_tree (snd ct)]) es)
  end.

Fixpoint V_nest (n : nest) : V :=
  match n with
  | NLeaf v => VZ v
  | NList l => VL (map V_nest l)
  end.

Fixpoint V_dict (y : ydict) : V :=
  match y with
  | YVal v => VZ v
  | YFiber cs ps => VL [Vl VZ cs; VL (map V_dict ps)]
  end.

Fixpoint tree_of_V (v : V) : option tree :=
  match v with
  | VZ z => Some (Leaf z)
  | VL l =>
    match all_some (map (fun e => match e with
                                  | VL [VZ c; s] => match tree_of_V s with
                                                    | Some t => Some (c, t)
                                                    | None => None
                                                    end
                                  | _ => None
                                  end) l) with
    | Some es => Some (Node es)
    | None => None
    end
  end.

(* what == compares (fiber.py:4641-4659 over iterOccupancy): the tree without its empty
   elements, at every level *)
Fixpoint prune (d : Z) (t : tree) : tree :=
  match t with
  | Leaf v => Leaf v
  | Node es => Node (flat_map (fun ct => if is_empty d (snd ct) then []
                                         else [(fst ct, prune d (snd ct))]) es)
  end.

Definition same_content (d1 : Z) (t1 : tree) (d2 : Z) (t2 : tree) : bool :=
  V_eqb (V_tree (prune d1 t1)) (V_tree (prune d2 t2)).

Definition is_node (t : tree) : bool := match t with Node _ => true | Leaf _ => false end.

Definition ERR_EXIT : Z := 6.       (* SystemExit from the YAML loaders *)

(* ---- the faithful model's observation *)
Definition V_tens (d : Z) (orig : tens) (r : option tens) : V :=
  match r with
  | None => Verr 1
  | Some T => VL [Vl VZ (t_ids T); Vl VZ (t_shape T); VZ (t_name T); V_tree (t_root T);
                  Vb (zlist_eqb (t_ids orig) (t_ids T)
                      && same_content d (t_root orig) 0 (t_root T))]
  end.

Definition c13_model (c : c13_case) : V :=
  match c with
  | KNest tp d dims n =>
    let t := from_uncompressed d n in
    let sh := if tp then calc_shape n else fiber_shape d n in
    VL [V_tree t; Vl VZ sh; V_nest (uncompress d dims t); V_nest (uncompress d sh t)]
  | KTree d T flat =>
    if flat then VL [Verr ERR_EXIT; Verr ERR_EXIT]       (* S14: safe_load refuses the dump *)
    else
      let y := tensor2dict T in
      let back := from_yaml y in
      VL [ (* dictionary form of the root fiber, its image under dict2fiber, == *)
           (if is_node (t_root T)
            then let back := dict2fiber (y_root y) in
                 let eq := Vb (match back with
                               | Some t' => same_content d (t_root T) 0 t'
                               | None => false end) in
                 VL [V_dict (y_root y);
                     Vo V_tree back; eq;           (* Fiber.dict2fiber(root.fiber2dict()) *)
                     Vo V_tree back; eq]           (* Fiber.fromYAMLfile(root.dump()) *)
            else VL []);
           V_tens d T back;                              (* Tensor.fromYAMLfile(dump) *)
           V_tens d T back ]                             (* Tensor(dump) *)
  | KRand shape dens scalar interval d draws seed =>
    let dn := expand_density scalar dens (length shape) in
    VL [V_tree (Node (fst (from_random shape dn interval d draws))); Vl VZ shape;
        VL [VZ 1; VZ 1]]
  end.

(* ---- the property, evaluated on an observation *)
Definition opt_eqb (a b : option Z) : bool :=
  match a, b with
  | Some x, Some y => Z.eqb x y
  | None, None => true
  | _, _ => false
  end.

(* "content equal to the nest's non-default entries, no explicit defaults stored": the tree
   read as a map (default where nothing is stored) agrees with the nest at every point of the
   box, stores nothing that is empty, is sorted and stays inside the box *)
Definition built_ok (d : Z) (dims : list Z) (n : nest) (t : tree) : bool :=
  canonical_top d t && sorted_t t && in_shape dims t
  && forallb (fun p => opt_eqb (tree_get d t p) (nest_get n p)) (all_points dims).

Definition nest_holds (d : Z) (dims : list Z) (n : nest) (o : V) : bool :=
  match o with
  | VL [vt; vsh; vu1; vu2] =>
    match tree_of_V vt with Some t => built_ok d dims n t | None => false end
    && V_eqb vsh (Vl VZ dims)                      (* the nest's dimensions as shape *)
    && V_eqb vu1 (V_nest n)                        (* uncompress(shape=dims) = the nest *)
    && V_eqb vu2 (V_nest n)                        (* uncompress() = the nest *)
  | _ => false
  end.

(* a reloaded tensor: same rank ids, shape, name; equal (==) with the same content *)
Definition tens_holds (d : Z) (T : tens) (o : V) : bool :=
  match o with
  | VL [vids; vsh; VZ name; vroot; VZ 1] =>
    V_eqb vids (Vl VZ (t_ids T)) && V_eqb vsh (Vl VZ (t_shape T)) && Z.eqb name (t_name T)
    && match tree_of_V vroot with
       | Some t' => same_content d (t_root T) d t'
       | None => false
       end
  | _ => false
  end.

Definition dict_holds (d : Z) (T : tens) (o : V) : bool :=
  if is_node (t_root T)
  then match o with
       | VL [_; VL [vback]; VZ 1; VL [vback2]; VZ 1] =>
         match tree_of_V vback, tree_of_V vback2 with
         | Some t', Some t'' => same_content d (t_root T) d t' && same_content d (t_root T) d t''
         | _, _ => false
         end
       | _ => false
       end
  else true.

Definition dens_full (dn : list Z) : bool := forallb (fun x => 1000 <=? x) dn.

Definition rand_holds (shape dn : list Z) (interval d : Z) (o : V) : bool :=
  match o with
  | VL [vt; vsh; VL [VZ 1; VZ 1]] =>     (* real PRNG: reproducible; inside / full below *)
    match tree_of_V vt with
    | Some t => in_shape shape t && sorted_t t
                && (if dens_full dn && negb ((1 <=? d) && (d <=? interval))
                       && forallb (fun s => 0 <? s) shape
                    then full_box d shape t else true)
    | None => false
    end
    && V_eqb vsh (Vl VZ shape)
  | _ => false
  end.

Definition c13_holds (c : c13_case) (o : V) : bool :=
  match c with
  | KNest _ d dims n => nest_holds d dims n o
  | KTree d T flat =>
    if flat
    then V_eqb o (VL [VL [VZ 1; VZ 1; VZ 1; VZ 1]; VL [VZ 1; VZ 1; VZ 1; VZ 1]])
    else match o with
         | VL [od; o1; o2] => dict_holds d T od && tens_holds d T o1 && tens_holds d T o2
         | _ => false
         end
  | KRand shape dens scalar interval d draws seed =>
    rand_holds shape (expand_density scalar dens (length shape)) interval d o
  end.

(* ---- well-formed cases (what the generator produces) *)
Definition tens_wf (T : tens) : bool :=
  match t_root T with
  | Leaf _ => match t_ids T with [] => true | _ => false end    (* rank-0 *)
  | Node _ => true
  end.

Definition c13_wf (c : c13_case) : bool :=
  match c with
  | KNest _ d dims n => dims_ok dims && rect dims n
  | KTree d T flat => tens_wf T
  | KRand shape dens scalar interval d draws seed =>
    (1 <=? interval) && negb (match shape with [] => true | _ => false end)
    && (scalar || Nat.eqb (length dens) (length shape))     (* asserted at fiber.py:486 *)
  end.

(* ---- known-finding regions
     1  S14: the tensor has tuple coordinates (flattened): the dump is not loadable
     2  the YAML form does not record the default: with a non-zero default the reloaded
        tensor (default 0) is not == the original when stored zeros / stored defaults exist
     3  Fiber.fromUncompressed of an all-default nest of depth >= 2 is Fiber([], [],
        shape=dims[0]): the lower dimensions are lost (getShape, uncompress() without shape) *)
Definition c13_region (c : c13_case) : Z :=
  match c with
  | KNest tp d dims n =>
    if negb tp && negb (stored d n) && (2 <=? Z.of_nat (length dims)) then 3 else 0
  | KTree d T flat =>
    if flat then 1
    else if negb (Z.eqb d 0) && negb (same_content d (t_root T) 0 (t_root T)) then 2 else 0
  | KRand _ _ _ _ _ _ _ => 0
  end.

Definition c13_checker : checker c13_case :=
  {| model := c13_model;
     (* a case that is not well-formed is a generator bug: flagged, never silently passed *)
     holds := fun c o => c13_wf c && c13_holds c o;
     region := c13_region |}.
