(* C08SplitCheck.v — case type, observation, property oracle and checker record for C08.

   The oracle is the property text as a reference map: the partitions are enumerated from the
   boundaries (multiples of the step that meet the active range / the given split list / the
   first coordinates of the position-space chunks), and each lower fiber is the *filter* of
   the operand's non-empty elements by "partition's active range extended by the halos
   contains the coordinate".  It does not use the splitters' single-pass bucket code. *)
From Coq Require Import ZArith List Bool.
From FT Require Import Model.Base Model.Obs Model.C08Split.
Import ListNotations.
Open Scope Z_scope.

(* ---------------------------------------------------------------- observation encoding *)
Fixpoint enc_tree (t : tree) : V :=
  match t with
  | Leaf v => VZ v
  | Node es => VL (map (fun ct => VL [VZ (fst ct); enc_tree (snd ct)]) es)
  end.

Definition enc_range (r : Z * Z) : V := VL [VZ (fst r); VZ (snd r)].

Definition enc_res (body : part -> V) (r : split_res) : V :=
  VL [enc_range (sr_active r); Vo VZ (sr_shape r);
      VL (map (fun p => VL [VZ (fst (fst p)); body p; enc_range (snd p); Vo VZ (sr_shape r)])
              (sr_parts r))].

Definition body_raw (p : part) : V := enc_tree (Node (snd (fst p))).

Definition Vres (o : option V) : V := match o with Some v => v | None => Verr 3 end.

Fixpoint all_some {A} (l : list (option A)) : option (list A) :=
  match l with
  | [] => Some []
  | Some x :: l' => match all_some l' with Some r => Some (x :: r) | None => None end
  | None :: _ => None
  end.

(* ---------------------------------------------------------------- cases *)
Record c08_case := {
  k_sp      : sparams;
  k_tree    : tree;                     (* the operand: root fiber (Node) *)
  k_d       : Z;                        (* leaf default *)
  k_shapes  : list (option Z);          (* shape of the fibers of each level, top to bottom *)
  k_active  : option (Z * Z);           (* explicit active range of the root fiber *)
  k_depth   : nat;                      (* the depth= argument *)
  k_rankid  : option nat;               (* the rankid= argument: index of the named rank *)
  k_tensor  : bool;                     (* through Tensor.splitXXX *)
  k_resplit : option sparams            (* every partition split again (depth 0) *)
}.

(* one fiber split: [split] is the splitter under test (model or reference) *)
Definition splitter := sparams -> Z -> option Z -> option (Z * Z) -> fib -> option split_res.

Definition obs_fiber (split : splitter) (c : c08_case) (lev : nat) (es : fib) : option V :=
  let shape := nth lev (k_shapes c) None in
  let active := match lev with O => k_active c | _ => None end in
  match split (k_sp c) (k_d c) shape active es with
  | None => None
  | Some r =>
    match k_resplit c with
    | None => Some (enc_res body_raw r)
    | Some sp2 =>
      match all_some (map (fun p => split sp2 (k_d c) shape (Some (snd p)) (snd (fst p)))
                          (sr_parts r)) with
      | None => None
      | Some rs =>
        Some (VL [enc_range (sr_active r); Vo VZ (sr_shape r);
                  VL (map (fun pr => VL [VZ (fst (fst (fst pr))); enc_res body_raw (snd pr);
                                         enc_range (snd (fst pr)); Vo VZ (sr_shape r)])
                          (combine (sr_parts r) rs))])
      end
    end
  end.

(* updatePayloadsBelow -> _clearEmptyFibers (fix S29): a sub-fiber at the split level that has
   elements but only default values is emptied (clear()) before the descent; a payload that is
   not a fiber is left alone *)
Definition cleared (t : tree) : tree :=
  match t with Node _ => Node [] | Leaf v => Leaf v end.

(* _splitGeneric: depth 0 splits the fiber itself; depth k descends k levels
   (updatePayloads: every payload above the last level; at the last level only the non-empty
   ones are replaced by their split, the all-default ones are skipped — and, by
   _clearEmptyFibers, are empty fibers by then) *)
Fixpoint obs_depth (split : splitter) (c : c08_case) (k lev : nat) (t : tree) : option V :=
  match t with
  | Leaf v => None
  | Node es =>
    match k with
    | O => obs_fiber split c lev es
    | S k' =>
      match all_some
              (map (fun ct =>
                      match k' with
                      | O => if is_empty (k_d c) (snd ct)
                             then Some (VL [VZ (fst ct); VL [VZ (-3); enc_tree (cleared (snd ct))]])
                             else match obs_depth split c k' (S lev) (snd ct) with
                                  | Some v => Some (VL [VZ (fst ct); v]) | None => None end
                      | S _ => match obs_depth split c k' (S lev) (snd ct) with
                               | Some v => Some (VL [VZ (fst ct); v]) | None => None end
                      end) es) with
      | Some vs => Some (VL vs)
      | None => None
      end
    end
  end.

Definition enc_id (r : rid) : V := VL (map VZ r).

Definition shapes_Z (c : c08_case) : list Z :=
  map (fun o => match o with Some z => z | None => 0 end) (k_shapes c).

(* the rank that is split *)
Definition k_eff (c : c08_case) : nat := eff_depth (k_rankid c) (k_depth c).

(* tensor entry: rank ids, shape and default of the result, its tree, and the bookkeeping of a
   second split that names the new lower rank "<id>.0" *)
Definition obs_case (split : splitter) (c : c08_case) : V :=
  match obs_depth split c (k_eff c) O (k_tree c) with
  | None => Verr 3
  | Some v =>
    if k_tensor c
    then let ids1 := split_ids (k_eff c) (ids0 (length (k_shapes c))) in
         let sh1 := split_shape (k_eff c) (shapes_Z c) in
         VL [VL (map enc_id ids1); VL (map VZ sh1); VZ (k_d c); v;
             VL [VL (map enc_id (split_ids (S (k_eff c)) ids1));
                 VL (map VZ (split_shape (S (k_eff c)) sh1))]]
    else v
  end.

Definition c08_model (c : c08_case) : V := obs_case split_fiber c.

(* ---------------------------------------------------------------- the property (reference) *)

(* partition with boundaries [s, e) (e = None: unbounded) of a fiber with active range
   [a0, a1): its range is the interval clipped to the active range; it exists iff the
   interval meets the active range; its members are the non-empty elements whose coordinate
   lies in the range extended by the halos *)
Definition meets (s : Z) (e : option Z) (a0 a1 : Z) : bool :=
  (s <? a1) && negb (ext_le e a0).

Definition p_lo (s a0 : Z) : Z := Z.max s a0.
Definition p_hi (e : option Z) (a1 : Z) : Z := ext_min e a1.

Definition member (pre post a0 a1 s : Z) (e : option Z) (x : elem) : bool :=
  meets s e a0 a1 && (p_lo s a0 - pre <=? fst x) && (fst x <? p_hi e a1 + post).

Definition ref_part (pre post : Z) (rel : bool) (a0 a1 : Z) (pes : list elem)
           (se : Z * option Z) : list part :=
  let s := fst se in let e := snd se in
  match filter (member pre post a0 a1 s e) pes with
  | [] => []
  | l => [(s, rel_coords rel s l, (p_lo s a0, p_hi e a1))]
  end.

Definition ref_parts (pre post : Z) (rel : bool) (a : Z * Z) (pes : list elem)
           (bs : list (Z * option Z)) : list part :=
  flat_map (ref_part pre post rel (fst a) (snd a) pes) bs.

(* boundaries of a uniform split: the multiples of step whose interval meets [a0, a1) *)
Definition uni_bounds (step a0 a1 : Z) : list (Z * option Z) :=
  map (fun k => ((a0 / step + k) * step, Some ((a0 / step + k) * step + step)))
      (iota (Z.to_nat ((a1 - 1) / step - a0 / step + 1))).

(* boundaries of a split list: consecutive pairs, the last partition is unbounded *)
Fixpoint list_bounds (splits : list Z) : list (Z * option Z) :=
  match splits with
  | [] => []
  | s :: r => (s, match r with [] => None | e :: _ => Some e end) :: list_bounds r
  end.

(* position space: chunks of the stated sizes, the remainder last *)
Fixpoint chunks (fuel : nat) (sizes : nat -> nat) (j : nat) (l : list elem) : list (list elem) :=
  match fuel with
  | O => []
  | S f => match l with
           | [] => []
           | _ => firstn (sizes j) l :: chunks f sizes (S j) (skipn (sizes j) l)
           end
  end.

(* first boundary = active start, the others = first coordinate of the chunk *)
Definition chunk_bounds (a0 : Z) (cs : list (list elem)) : list Z :=
  match cs with
  | [] => []
  | _ :: r => a0 :: map (fun ch => match ch with [] => 0 | x :: _ => fst x end) r
  end.

Definition active_elems (d : Z) (a : Z * Z) (es : fib) : list elem :=
  filter (fun x => (fst a <=? fst x) && (fst x <? snd a)) (present d es).

Definition ref_bounds (k : skind) (d : Z) (shape : option Z) (a : Z * Z) (es : fib)
  : list (Z * option Z) :=
  let act := active_elems d a es in
  match k with
  | KUniform step => uni_bounds step (fst a) (snd a)
  | KNonUniform splits => list_bounds splits
  | KEqual step =>
    list_bounds (chunk_bounds (fst a) (chunks (length act) (fun _ => Z.to_nat step) O act))
  | KUnEqual sizes =>
    list_bounds (chunk_bounds (fst a)
       (chunks (length act)
               (fun j => match nth_error sizes j with
                         | Some z => Z.to_nat z
                         | None => length act          (* everything left: the remainder *)
                         end) O act))
  | KTrueDiv n => uni_bounds ((get_shape shape es + n - 1) / n) (fst a) (snd a)
  | KFloorDiv n =>
    list_bounds (chunk_bounds (fst a)
       (chunks (length act) (fun _ => Z.to_nat ((Z.of_nat (length es) + n - 1) / n)) O act))
  end.

Definition halos (sp : sparams) : Z * Z :=
  match sp_kind sp with
  | KTrueDiv _ | KFloorDiv _ => (0, 0)
  | _ => (sp_pre sp, sp_post sp)
  end.

Definition relc (sp : sparams) : bool :=
  match sp_kind sp with KTrueDiv _ | KFloorDiv _ => false | _ => sp_rel sp end.

Definition ref_fiber (sp : sparams) (d : Z) (shape : option Z) (active : option (Z * Z))
           (es : fib) : option split_res :=
  let a := get_active shape active es in
  Some {| sr_active := a; sr_shape := shape;
          sr_parts := ref_parts (fst (halos sp)) (snd (halos sp)) (relc sp) a (present d es)
                                (ref_bounds (sp_kind sp) d shape a es) |}.

Definition c08_spec (c : c08_case) : V := obs_case ref_fiber c.

(* ---------------------------------------------------------------- well-formedness *)
Definition pos_list (l : list Z) : bool := forallb (fun z => 0 <? z) l.

Definition wf_params (sp : sparams) : bool :=
  (0 <=? sp_pre sp) && (0 <=? sp_post sp) &&
  match sp_kind sp with
  | KUniform step => 0 <? step
  | KNonUniform splits => ssorted splits
  | KEqual step => 0 <? step
  | KUnEqual sizes => pos_list sizes && negb (Nat.eqb (length sizes) 0)
  | KTrueDiv n => 0 <? n
  | KFloorDiv n => 0 <? n
  end.

(* a fiber to be split: coordinates strictly ascending and non-negative; an explicit shape is
   positive; the active range is not empty *)
Definition wf_fiber (shape : option Z) (active : option (Z * Z)) (es : fib) : bool :=
  ssorted (map fst es) && forallb (fun x => 0 <=? fst x) es &&
  match shape with Some s => 0 <? s | None => true end &&
  match active with Some a => fst a <? snd a | None => true end.

Fixpoint wf_depth (c : c08_case) (k lev : nat) (t : tree) : bool :=
  match t with
  | Leaf _ => false
  | Node es =>
    match k with
    | O => wf_fiber (nth lev (k_shapes c) None)
                    (match lev with O => k_active c | _ => None end) es
    | S k' => forallb (fun ct => wf_depth c k' (S lev) (snd ct)) es
    end
  end.

(* re-splits: only of absolute-coordinate partitions, and (see C08SplitCheckP) kept out of
   the proved region: checked by the oracle *)
Definition c08_wf (c : c08_case) : bool :=
  wf_params (k_sp c) && wf_depth c (k_eff c) O (k_tree c) &&
  match k_resplit c with None => true | Some sp2 => wf_params sp2 && negb (sp_rel (k_sp c)) end.

Definition c08_holds (c : c08_case) (o : V) : bool :=
  if c08_wf c then V_eqb (c08_spec c) o else true.

Definition c08_checker : checker c08_case :=
  {| model := c08_model; holds := c08_holds; region := fun _ => 0 |}.
