(* C06Kernel.v — the kernel layer for C06: sum-of-products loop nests in the library idiom.

   A loop nest is determined by a loop order (list of loop variables), the operands (each a
   tree whose rank order is concordant with the loop order, i.e. already swizzled/split) and
   the output's loop variables.  [run] executes it the way the generated Python does:

     for v, (z', (a', b')) in z << (a & b):      -- v is an output variable
     for v, (a', b') in a & b:                    -- v is contracted
     z_ref += a_val * b_val                       -- at the bottom

   Modelled from the source:
   - `a & b` (iterators.py:636-813): two-finger walk over the operands' occupancy
     (iterOccupancy skips empty payloads, iterators.py:172) — [and2] on coordinate lists;
     nested `(a & b) & c` and Fiber.intersection(a, b, c) (iterators.py:493-511) are the left
     fold of it.  The payload tuple that the Python iterator carries along is re-fetched here
     by [lookup] at the yielded coordinate (coordinates are unique).
   - Fiber.intersection(style="leader-follower") (iterators.py:513-545): the leader's
     occupancy; every follower contributes getPayload(c) = the stored payload or a fresh
     default (Payload(0) at the leaf rank, an empty Fiber above it).
   - `z << b` (iterators.py:1044-1287): for every offered coordinate the payload of z is
     looked up, created (default) when absent, handed to the body, and afterwards removed if
     [removable]: `maybe_remove and is-fiber and len == 0  or  not is-fiber and == default`
     (Python precedence: a leaf equal to the default is removed even when it was not created
     by this pass).  Position arithmetic (a_pos / bisect) is abstracted to sorted insertion
     [fset] / deletion [fdel]; property C05 owns that detail.
   - payload.py: `z_ref += a_val * b_val` on Python ints = Z arithmetic.

   Swizzling and uniform splitting of the operands are represented by their content: the
   operand handed to the nest is the re-tabulation [tabulate] of the original operand's
   point function in the loop-concordant rank order (tile coordinate = first coordinate of
   the tile, fiber.py:3515).  The correspondence check compares the content of the real
   swizzleRanks/splitUniform results with it.  No proofs in this file. *)
From Coq Require Import ZArith List Bool PeanoNat.
From FT Require Import Model.Base Model.Obs.
Import ListNotations.
Open Scope Z_scope.

Definition lvar := nat.
Definition op := (list lvar * tree)%type.   (* remaining loop variables, current sub-tree *)

Definition fiber_of (t : tree) : fib := match t with Node es => es | Leaf _ => [] end.
Definition leaf_of (t : tree) : Z := match t with Leaf v => v | Node _ => 0 end.
Definition prodZ (l : list Z) : Z := fold_right Z.mul 1 l.

Fixpoint memN (x : nat) (l : list nat) : bool :=
  match l with [] => false | y :: l' => Nat.eqb x y || memN x l' end.
Fixpoint memZ (x : Z) (l : list Z) : bool :=
  match l with [] => false | y :: l' => Z.eqb x y || memZ x l' end.

(* ---- environments: association lists, first binding wins, unbound = 0 *)
Definition env := list (lvar * Z).
Fixpoint getv (e : env) (l : lvar) : Z :=
  match e with [] => 0 | (l', x) :: e' => if Nat.eqb l l' then x else getv e' l end.

(* ---- value of a tree at a point; 0 where nothing is stored (or the point has the wrong length) *)
Fixpoint sem (t : tree) (p : list Z) {struct t} : Z :=
  match t with
  | Leaf v => match p with [] => v | _ => 0 end
  | Node es =>
    match p with
    | [] => 0
    | c :: p' =>
      (fix go (l : fib) : Z :=
         match l with
         | [] => 0
         | ct :: l' => if Z.eqb c (fst ct) then sem (snd ct) p' else go l'
         end) es
    end
  end.

(* ---- co-iteration *)
Definition occ (o : op) : list Z := map fst (present 0 (fiber_of (snd o))).

(* two-finger intersection of two ascending coordinate streams (iterators.py:758-798) *)
Fixpoint and2 (a : list Z) : list Z -> list Z :=
  fix inner (b : list Z) : list Z :=
    match a, b with
    | ca :: a', cb :: b' =>
      if Z.eqb ca cb then ca :: and2 a' b'
      else if Z.ltb ca cb then and2 a' b
      else inner b'
    | _, _ => []
    end.

Definition active (v : lvar) (o : op) : bool :=
  match fst o with l :: _ => Nat.eqb l v | [] => false end.

(* coordinates offered by the co-iteration of the active operands; style 2 = leader-follower *)
Definition level_coords (style : Z) (acts : list op) : list Z :=
  match acts with
  | [] => []
  | o :: rest =>
    if Z.eqb style 2 then occ o
    else fold_left (fun acc o' => and2 acc (occ o')) rest (occ o)
  end.

(* default payload one level down: Payload(0) at the leaf rank, an empty fiber above *)
Definition dflt (rest : list lvar) : tree := match rest with [] => Leaf 0 | _ => Node [] end.

Definition child_at (c : Z) (o : op) : op :=
  (tl (fst o),
   match lookup c (fiber_of (snd o)) with Some t => t | None => dflt (tl (fst o)) end).

Definition advance (v : lvar) (c : Z) (ops : list op) : list op :=
  map (fun o => if active v o then child_at c o else o) ops.

(* ---- populate *)
Fixpoint fset (c : Z) (t : tree) (es : fib) : fib :=
  match es with
  | [] => [(c, t)]
  | ct :: es' =>
    if Z.eqb c (fst ct) then (c, t) :: es'
    else if Z.ltb c (fst ct) then (c, t) :: es
    else ct :: fset c t es'
  end.

Fixpoint fdel (c : Z) (es : fib) : fib :=
  match es with
  | [] => []
  | ct :: es' => if Z.eqb c (fst ct) then es' else ct :: fdel c es'
  end.

Definition removable (isnew : bool) (t : tree) : bool :=
  match t with
  | Leaf v => Z.eqb v 0
  | Node es => isnew && Nat.eqb (length es) 0
  end.

Definition populate_step (zrest : list lvar) (body : tree -> tree) (es : fib) (c : Z) : fib :=
  let isnew := match lookup c es with Some _ => false | None => true end in
  let zc := match lookup c es with Some t => t | None => dflt zrest end in
  let zc' := body zc in
  if removable isnew zc' then fdel c es else fset c zc' es.

Definition out_active (v : lvar) (zv : list lvar) : bool :=
  match zv with l :: _ => Nat.eqb l v | [] => false end.

(* ---- the loop nest *)
Fixpoint run (style : Z) (order : list lvar) (ops : list op) (zv : list lvar) (z : tree)
         {struct order} : tree :=
  match order with
  | [] =>
    match z with
    | Leaf v =>
      let p := prodZ (map (fun o => leaf_of (snd o)) ops) in
      Leaf (if Z.eqb style 2 && Z.eqb p 0 then v else v + p)
    | Node _ => z
    end
  | v :: order' =>
    let cs := level_coords style (filter (active v) ops) in
    if out_active v zv then
      (* for v, (z', ...) in z << (...): *)
      Node (fold_left (fun es c =>
                         populate_step (tl zv) (run style order' (advance v c ops) (tl zv)) es c)
                      cs (fiber_of z))
    else
      (* for v, ... in (...): the same output reference is passed down *)
      fold_left (fun z' c => run style order' (advance v c ops) zv z') cs z
  end.

(* ---- operands as handed to the nest: re-tabulation in the loop-concordant rank order *)
Fixpoint tabulate (shapes : list nat) (f : list Z -> Z) : tree :=
  match shapes with
  | [] => Leaf (f [])
  | s :: ss =>
    Node (present 0 (map (fun c => (c, tabulate ss (fun p => f (c :: p)))) (iota s)))
  end.

Definition dbl (v : nat) : lvar := (2 * v)%nat.
Definition base_of (l : lvar) : nat := Nat.div2 l.

Definition step_of (tiles : list (nat * Z)) (v : nat) : Z :=
  match find (fun vs => Nat.eqb (fst vs) v) tiles with Some vs => snd vs | None => 1 end.

(* the tile variable of v holds the first coordinate of the tile of the in-tile variable *)
Definition consistent (tiles : list (nat * Z)) (e : env) (lv : list lvar) : bool :=
  forallb (fun l => if Nat.odd l
                    then Z.eqb (getv e l)
                               (getv e (dbl (base_of l)) / step_of tiles (base_of l)
                                * step_of tiles (base_of l))
                    else true) lv.

Definition lshape (shape : list Z) (l : lvar) : nat := Z.to_nat (nth (base_of l) shape 0).

(* loop variables (in loop order) of a tensor over the base variables bs *)
Definition lvars_of (order : list lvar) (bs : list nat) : list lvar :=
  filter (fun l => memN (base_of l) bs) order.

(* point function of the swizzled + split operand over its loop variables *)
Definition tfun (tiles : list (nat * Z)) (lv : list lvar) (bs : list nat) (t : tree)
           (p : list Z) : Z :=
  let e := combine lv p in
  if consistent tiles e lv then sem t (map (fun b => getv e (dbl b)) bs) else 0.

Definition transform (shape : list Z) (tiles : list (nat * Z)) (order : list lvar)
           (o : list nat * tree) : op :=
  let lv := lvars_of order (fst o) in
  (lv, tabulate (map (lshape shape) lv) (tfun tiles lv (fst o) (snd o))).
