(* C04Check.v — executable check for C04: case type, the faithful model's observation, and the
   property oracle [c04_holds], which is written from the property text (membership of a
   coordinate in the operands' sets of present coordinates; truth tables) and does not call
   the merge functions of C04Coiter.v. *)
From Coq Require Import ZArith List Bool.
From FT Require Import Model.Base Model.Obs Model.C04Coiter.
Import ListNotations.
Open Scope Z_scope.

Record c04_case := {
  k_ops : list operand;   (* 2..4 operands; the binary operators use the first two *)
  k_mixed : bool          (* operands of different tuple arity: only a & b, b & a are run *)
}.

(* ------------------------------------------------------------------ encodings *)

Definition V_coord (c : coord) : V := Vl VZ c.

Fixpoint V_tree (t : tree) : V :=
  match t with
  | Leaf v => VZ v
  | Node es => VL (map (fun ct => VL [VZ (fst ct); V_tree (snd ct)]) es)
  end.

Definition V_origin (o : origin) : V :=
  match o with
  | Pos i => VL [VZ 0; Vn i]
  | Fresh t => VL [VZ 1; V_tree t]
  end.

Definition V_npay (n : npay) : V :=
  match n with
  | NLeaf o => V_origin o
  | _ => VL [VZ 9]          (* a tuple where a payload is expected *)
  end.

Definition item := (coord * Z * list origin)%type.

Definition V_item (it : item) : V :=
  VL [V_coord (fst (fst it)); VZ (snd (fst it)); Vl V_origin (snd it)].

Definition V_snap (o : operand) : V :=
  Vl (fun ct => VL [V_coord (fst ct); V_tree (snd ct)]) (o_es o).

Definition op_tree (o : operand) : tree :=
  Node (map (fun ct => (hd 0 (fst ct), snd ct)) (o_es o)).

Definition rank_counts (o : operand) : list Z :=
  if o_owned o then map (fun k => nfibers k (op_tree o)) (seq 0 (o_depth o)) else [].

(* ------------------------------------------------------------------ the model's observation *)

Definition op_a (c : c04_case) : operand :=
  nth 0 (k_ops c) (Build_operand [] 0 false 0 0 false 1).
Definition op_b (c : c04_case) : operand :=
  nth 1 (k_ops c) (Build_operand [] 0 false 0 0 false 1).

Definition items2 (r : list (coord * (origin * origin))) : list item :=
  map (fun x => (fst x, 0, [fst (snd x); snd (snd x)])) r.
Definition items3 (r : list (coord * (Z * (origin * origin)))) : list item :=
  map (fun x => (fst x, fst (snd x), [fst (snd (snd x)); snd (snd (snd x))])) r.
Definition items1 (r : list (coord * origin)) : list item :=
  map (fun x => (fst x, 0, [snd x])) r.

Definition m_and (a b : operand) : list item := items2 (and_op (stream a) (stream b)).
Definition m_or (a b : operand) : list item :=
  items3 (or_merge lex_eqb lex_ltb (Fresh (op_default a)) (Fresh (op_default b))
                   (stream a) (stream b)).
Definition m_xor (a b : operand) : list item :=
  items3 (xor_merge lex_eqb lex_ltb (Fresh (op_default a)) (Fresh (op_default b))
                    (stream a) (stream b)).
Definition m_sub (a b : operand) : list item :=
  items1 (filter (fun x => negb (origin_empty a (snd x)))
                 (sub_merge lex_eqb lex_ltb (stream a) (stream b))).

Definition V_nitem (x : coord * Z * list npay) : V :=
  VL [V_coord (fst (fst x)); VZ (snd (fst x)); Vl V_npay (snd x)].

Definition m_nand (ops : list operand) : list (coord * Z * list npay) :=
  map (fun x => (fst x, 0, snd x)) (intersection_n (map stream ops)).

(* None = the unrolling loop of union() met something that is not a 3-tuple *)
Fixpoint opt_all {A} (l : list (option A)) : option (list A) :=
  match l with
  | [] => Some []
  | None :: _ => None
  | Some x :: l' => match opt_all l' with Some r => Some (x :: r) | None => None end
  end.

Definition m_nor (ops : list operand) : option (list (coord * Z * list npay)) :=
  opt_all (map (fun x => match snd x with
                         | Some (m, ps) => Some (fst x, m, ps)
                         | None => None
                         end)
               (union_n (map (fun o => (stream o, op_default o)) ops))).

Definition m_lf (ops : list operand) : option (list item) :=
  match leader_follower ops with
  | Some r => Some (map (fun x => (fst x, 0, snd x)) r)
  | None => None
  end.

(* observation layout:
   [ a&b; b&a; a|b; a^b; a-b; intersection(ops); union(ops); leader-follower(ops);
     fresh objects pairwise distinct and not stored anywhere;
     operand snapshots before; after; Rank fiber counts before; after ]
   every operator result is a list of [coordinate; mask; [payload origins]] *)
Definition c04_model (c : c04_case) : V :=
  let a := op_a c in
  let b := op_b c in
  let ops := k_ops c in
  let skip := k_mixed c in
  VL [ Vl V_item (m_and a b);
       Vl V_item (m_and b a);
       (if skip then VL [] else Vl V_item (m_or a b));
       (if skip then VL [] else Vl V_item (m_xor a b));
       (if skip then VL [] else Vl V_item (m_sub a b));
       (if skip then VL [] else Vl V_nitem (m_nand ops));
       (if skip then VL [] else match m_nor ops with Some r => Vl V_nitem r | None => Verr 2 end);
       (if skip then VL [] else match m_lf ops with Some r => Vl V_item r | None => Verr 1 end);
       Vb true;
       Vl V_snap ops; Vl V_snap ops;
       Vl (fun o => Vl VZ (rank_counts o)) ops; Vl (fun o => Vl VZ (rank_counts o)) ops ].

(* ------------------------------------------------------------------ the property oracle *)

(* what the property text talks about, per operand *)
Definition keys (o : operand) : list coord := map fst (o_es o).

(* "the coordinates a present: their non-empty elements, or every coordinate of the active
   range for a rank declared uncompressed" *)
Definition present (o : operand) (c : coord) : bool :=
  if o_U o
  then match c with [z] => Z.leb (o_lo o) z && Z.ltb z (o_hi o) | _ => false end
  else existsb (fun ct => lex_eqb (fst ct) c && negb (is_empty (o_d o) (snd ct))) (o_es o).

(* every present coordinate is one of these *)
Definition universe (o : operand) : list coord :=
  if o_U o then map (fun z => [z]) (zrange (o_lo o) (o_hi o)) else keys o.

Fixpoint index_of (c : coord) (cs : list coord) : option nat :=
  match cs with
  | [] => None
  | x :: cs' => if lex_eqb x c then Some O
                else match index_of c cs' with Some i => Some (S i) | None => None end
  end.

(* expected origin of a delivered payload *)
Inductive eorigin :=
| EPos (i : nat)     (* the operand's own payload object stored at position i *)
| EFresh (d : Z).    (* a new object that is a default: empty with respect to leaf default d *)

(* "the operands' own stored payloads ... or a fresh default" *)
Definition expect (o : operand) (c : coord) : eorigin :=
  match index_of c (keys o) with Some i => EPos i | None => EFresh (o_d o) end.
Definition absent (o : operand) : eorigin := EFresh (o_d o).

(* emptiness of a snapshot value (mirror of Base.is_empty on the encoding) *)
Fixpoint v_empty (d : Z) (v : V) : bool :=
  match v with
  | VZ z => Z.eqb z d
  | VL l => forallb (fun e => match e with
                              | VL [_; s] => v_empty d s
                              | _ => false
                              end) l
  end.

Definition origin_ok (e : eorigin) (v : V) : bool :=
  match e, v with
  | EPos i, VL [VZ 0; VZ j] => Z.eqb j (Z.of_nat i)
  | EFresh d, VL [VZ 1; t] => v_empty d t
  | _, _ => false
  end.

Fixpoint origins_ok (es : list eorigin) (vs : list V) : bool :=
  match es, vs with
  | [], [] => true
  | e :: es', v :: vs' => origin_ok e v && origins_ok es' vs'
  | _, _ => false
  end.

(* decoding of an operator result *)
Fixpoint dec_zs (l : list V) : option (list Z) :=
  match l with
  | [] => Some []
  | VZ z :: l' => match dec_zs l' with Some r => Some (z :: r) | None => None end
  | _ => None
  end.

Definition dec_item (v : V) : option (coord * Z * list V) :=
  match v with
  | VL [VL c; VZ m; VL os] => match dec_zs c with Some c' => Some (c', m, os) | None => None end
  | _ => None
  end.

Definition dec_items (v : V) : option (list (coord * Z * list V)) :=
  match v with
  | VL l => opt_all (map dec_item l)
  | _ => None
  end.

(* strictly ascending in Python's tuple order: "in ascending coordinate order and each
   coordinate once" *)
Fixpoint lex_sorted (l : list coord) : bool :=
  match l with
  | [] => true
  | x :: l' => match l' with [] => true | y :: _ => lex_ltb x y && lex_sorted l' end
  end.

Definition mem (c : coord) (l : list coord) : bool := existsb (lex_eqb c) l.

(* the truth-table check: [exp_at c] = None if coordinate c must not be delivered, Some (mask,
   expected origins) if it must; [univ] = a list containing every coordinate that may have
   to be delivered.  The result must be strictly ascending, contain only coordinates that
   must be delivered, each with the right mask and origins, and contain all of them. *)
Definition check_items (exp_at : coord -> option (Z * list eorigin)) (univ : list coord)
           (v : V) : bool :=
  match dec_items v with
  | None => false
  | Some its =>
    let ks := map (fun it => fst (fst it)) its in
    lex_sorted ks
    && forallb (fun it => match exp_at (fst (fst it)) with
                          | Some (m, es) => Z.eqb (snd (fst it)) m && origins_ok es (snd it)
                          | None => false
                          end) its
    && forallb (fun c => match exp_at c with Some _ => mem c ks | None => true end) univ
  end.

(* tuple arity of an operand's coordinates (1 for ints and for a fiber with nothing stored) *)
Definition op_arity (o : operand) : nat :=
  match o_es o with (c, _) :: _ => length c | [] => 1%nat end.

(* a & b: the coordinates present in both; "a fiber with shorter tuple coordinates matches on
   the common prefix": c (of the longer arity) is delivered iff its prefixes of a's and b's
   arity are present in a and b *)
Definition exp_and (a b : operand) (c : coord) : option (Z * list eorigin) :=
  let ca := firstn (op_arity a) c in
  let cb := firstn (op_arity b) c in
  if Nat.eqb (length c) (Nat.max (op_arity a) (op_arity b))
     && present a ca && present b cb
  then Some (0, [expect a ca; expect b cb]) else None.

Definition exp_or (a b : operand) (c : coord) : option (Z * list eorigin) :=
  let pa := present a c in
  let pb := present b c in
  if pa || pb
  then Some ((if pa then 1 else 0) + (if pb then 2 else 0),
             [if pa then expect a c else absent a; if pb then expect b c else absent b])
  else None.

Definition exp_xor (a b : operand) (c : coord) : option (Z * list eorigin) :=
  let pa := present a c in
  let pb := present b c in
  if xorb pa pb
  then Some ((if pa then 1 else 0) + (if pb then 2 else 0),
             [if pa then expect a c else absent a; if pb then expect b c else absent b])
  else None.

Definition exp_sub (a b : operand) (c : coord) : option (Z * list eorigin) :=
  if present a c && negb (present b c) then Some (0, [expect a c]) else None.

Definition exp_nand (ops : list operand) (c : coord) : option (Z * list eorigin) :=
  if forallb (fun o => present o c) ops
  then Some (0, map (fun o => expect o c) ops) else None.

Fixpoint mask_bits (bs : list bool) (w : Z) : Z :=
  match bs with
  | [] => 0
  | b :: bs' => (if b then w else 0) + mask_bits bs' (2 * w)
  end.

Definition exp_nor (ops : list operand) (c : coord) : option (Z * list eorigin) :=
  if existsb (fun o => present o c) ops
  then Some (mask_bits (map (fun o => present o c) ops) 1,
             map (fun o => if present o c then expect o c else absent o) ops)
  else None.

(* leader-follower: every coordinate the leader presents, with the followers' stored payloads
   at that coordinate or defaults *)
Definition exp_lf (ops : list operand) (c : coord) : option (Z * list eorigin) :=
  match ops with
  | [] => None
  | l :: fs => if present l c then Some (0, expect l c :: map (fun f => expect f c) fs)
               else None
  end.

Definition univ_all (ops : list operand) : list coord := flat_map universe ops.

(* a & b, b & a, a | b, a ^ b, a - b on operands of one arity *)
Definition holds_binary (a b : operand) (r_and r_andr r_or r_xor r_sub : V) : bool :=
  check_items (exp_and a b) (universe a ++ universe b) r_and
  && check_items (exp_and b a) (universe a ++ universe b) r_andr
  && check_items (exp_or a b) (universe a ++ universe b) r_or
  && check_items (exp_xor a b) (universe a ++ universe b) r_xor
  && check_items (exp_sub a b) (universe a) r_sub.

(* intersection, union, leader-follower intersection of all operands *)
Definition holds_nary (ops : list operand) (r_nand r_nor r_lf : V) : bool :=
  check_items (exp_nand ops) (univ_all ops) r_nand
  && check_items (exp_nor ops) (univ_all ops) r_nor
  && check_items (exp_lf ops) (univ_all ops) r_lf.

(* operands of different tuple arity: a & b and b & a match on the common prefix; the other
   operators are not run *)
Definition holds_mixed (a b : operand) (r_and r_andr r_or r_xor r_sub r_nand r_nor r_lf : V)
  : bool :=
  check_items (exp_and a b) (universe a ++ universe b) r_and
  && check_items (exp_and b a) (universe a ++ universe b) r_andr
  && V_eqb r_or (VL []) && V_eqb r_xor (VL []) && V_eqb r_sub (VL [])
  && V_eqb r_nand (VL []) && V_eqb r_nor (VL []) && V_eqb r_lf (VL []).

(* fresh defaults are new objects; neither the operands nor the tensors they belong to are
   modified *)
Definition holds_pure (ops : list operand) (r_fresh s_before s_after k_before k_after : V)
  : bool :=
  V_eqb r_fresh (VZ 1)
  && V_eqb s_before (Vl V_snap ops) && V_eqb s_after s_before
  && V_eqb k_after k_before.

Definition c04_holds (c : c04_case) (obs : V) : bool :=
  let a := op_a c in
  let b := op_b c in
  let ops := k_ops c in
  match obs with
  | VL [r_and; r_andr; r_or; r_xor; r_sub; r_nand; r_nor; r_lf; r_fresh;
        s_before; s_after; k_before; k_after] =>
    (if k_mixed c
     then holds_mixed a b r_and r_andr r_or r_xor r_sub r_nand r_nor r_lf
     else holds_binary a b r_and r_andr r_or r_xor r_sub && holds_nary ops r_nand r_nor r_lf)
    && holds_pure ops r_fresh s_before s_after k_before k_after
  | _ => false
  end.

(* known finding, region 1: a - b with a declared uncompressed.  The lazy result is iterated as
   a compressed fiber and skips the coordinates of a's active range whose payload is a default
   (absent, or stored explicit default / empty sub-fiber), so these coordinates — present in a
   by the property text, and delivered by a | b and a ^ b — are missing from a - b. *)
Definition stored_empty (o : operand) (c : coord) : bool :=
  match index_of c (keys o) with
  | Some i => match nth_error (o_es o) i with
              | Some (_, p) => is_empty (o_d o) p
              | None => true
              end
  | None => true
  end.

Definition c04_region (c : c04_case) : Z :=
  let a := op_a c in
  let b := op_b c in
  if negb (k_mixed c) && o_U a
     && existsb (fun z => negb (present b [z]) && stored_empty a [z]) (zrange (o_lo a) (o_hi a))
  then 1 else 0.

Definition c04_checker : checker c04_case :=
  {| model := c04_model; holds := c04_holds; region := c04_region |}.

(* ------------------------------------------------------------------ well-formed cases *)

Definition uniform_arity (n : nat) (o : operand) : bool :=
  forallb (fun ct => Nat.eqb (length (fst ct)) n) (o_es o).

Definition wf_operand (o : operand) : bool :=
  lex_sorted (keys o)
  && uniform_arity (op_arity o) o
  && Nat.ltb 0 (op_arity o)
  && (if o_U o then Nat.eqb (op_arity o) 1 else true).

(* an operand whose coordinates take part in comparisons *)
Definition constrained (o : operand) : bool :=
  o_U o || match o_es o with [] => false | _ => true end.

(* (An operand with stored tuple coordinates that delivers nothing — all payloads empty — is
   taken by __and__ for an int-coordinate fiber, arity 1, and projected; since the S20 fix
   project() handles it, and the model's and_op of an empty stream is [] on every path.) *)
Definition wf_case (c : c04_case) : bool :=
  forallb wf_operand (k_ops c)
  && Nat.leb 2 (length (k_ops c))
  && (if k_mixed c
      then forallb (fun o => negb (o_U o)) (k_ops c)
      else forallb (fun o => if constrained o
                             then Nat.eqb (op_arity o)
                                    (fold_right Nat.max 1%nat
                                       (map (fun o' => if constrained o' then op_arity o' else 1%nat)
                                            (k_ops c)))
                             else true) (k_ops c)).
