(* C16Metrics.v — the Metrics trace state machine (fibertree/core/metrics.py), as it is.

   Ranks are integers (the harness maps the rank name of loop level i to i); a trace type is
   (kind, label): kind 0 = "iter", 1 = "intersect_<l>", 2 = "populate_<l>",
   3 = "populate_read_<l>", 4 = "populate_write_<l>".  A row is a list of integers; the header
   row [r_pos...; r...; fiber_pos] is encoded as [100+r...; r...; -1].

   Events are the calls the iterators make: registerRank, addUse (with cls.iteration or with a
   saved copy of it), incIter, endIter, and the three manipulations of the local variable
   `iteration` of the populate generator (copy, [idx] += 1, use as iteration_num).  No proofs. *)
From Coq Require Import ZArith List Bool.
Import ListNotations.
Open Scope Z_scope.

Definition row := list Z.
Definition tkey := (Z * Z * Z)%type.          (* rank, kind, label *)

Definition K_ITER := 0. Definition K_INT := 1. Definition K_POP := 2.
Definition K_RD := 3.   Definition K_WR := 4.

Definition key_eqb (a b : tkey) : bool :=
  match a, b with (r, k, l), (r', k', l') => (r =? r') && (k =? k') && (l =? l') end.
Definition key_rank (k : tkey) : Z := fst (fst k).
Definition key_kind (k : tkey) : Z := snd (fst k).
Definition key_label (k : tkey) : Z := snd k.

(* cls.traces[rank][type] = (file_trace, mem_trace, is_started); written = what is in the file *)
Record tstate := {
  t_file : bool; t_mem : bool; t_started : bool;
  t_pending : list row; t_written : list row; t_memrows : list row }.

Record mstate := {
  m_lo : list Z;                       (* loop_order; line_order r = index of r in it *)
  m_it : list Z;                       (* iteration *)
  m_pt : list Z;                       (* point *)
  m_tr : list (tkey * tstate);         (* traces *)
  m_saved : list (Z * list Z);         (* local `iteration` copies of generators, by slot *)
  m_rm : list (Z * Z) }.               (* rank_matches: matched rank -> registered loop rank *)

Inductive mev :=
| EReg (r : Z)                                 (* registerRank *)
| EUse (r c pos kind label : Z)                (* addUse(rank, coord, pos, type_) *)
| EInc (r : Z)                                 (* incIter *)
| EEnd (r : Z)                                 (* endIter *)
| ESave (s : Z)                                (* iteration = Metrics.getIter().copy() *)
| EBump (s r : Z)                              (* iteration[Metrics.getIndex(rank)] += 1 *)
| EUseS (r c pos kind label s : Z)             (* addUse(..., iteration_num=iteration) *)
(* the same calls for a rank that is not a loop rank itself but matched to one (matchRanks):
   the index is that of rank_matches[rank] and cls.point is not updated (metrics.py:87-93) *)
| EStartM (src r : Z)                          (* registerRank(r): rank_matches[src] = r, start src's traces *)
| EUseM (r c pos kind label : Z)
| EUseSM (r c pos kind label s : Z)
| EIncM (r : Z)
| EBumpM (s r : Z).

Fixpoint index_of (r : Z) (l : list Z) : option nat :=
  match l with
  | [] => None
  | x :: l' => if x =? r then Some O else option_map S (index_of r l')
  end.

Fixpoint upd (n : nat) (f : Z -> Z) (l : list Z) : list Z :=
  match l, n with
  | [], _ => []
  | x :: l', O => f x :: l'
  | x :: l', S n' => x :: upd n' f l'
  end.

Fixpoint lookup_saved (s : Z) (m : list (Z * list Z)) : list Z :=
  match m with
  | [] => []
  | (s', v) :: m' => if s =? s' then v else lookup_saved s m'
  end.

(* _startTrace header (metrics.py:590-600) for a rank at loop index i *)
Definition header (lo : list Z) (i : nat) : row :=
  map (fun r => 100 + r) (firstn (S i) lo) ++ firstn (S i) lo ++ [-1].

(* _startTrace (metrics.py:558-600): the file is truncated, the header joins the cached rows *)
Definition start_trace (hdr : row) (t : tstate) : tstate :=
  {| t_file := t_file t; t_mem := t_mem t; t_started := true;
     t_pending := if t_file t then t_pending t ++ [hdr] else t_pending t;
     t_written := [];
     t_memrows := if t_mem t then t_memrows t ++ [hdr] else t_memrows t |}.

(* addUse tail (metrics.py:109-119): append to both caches; flush the file cache when it holds
   exactly num_cached_uses rows *)
Definition push_row (n : Z) (data : row) (t : tstate) : tstate :=
  let pend := if t_file t then t_pending t ++ [data] else t_pending t in
  let flush := t_file t && (Z.of_nat (length pend) =? n) in
  {| t_file := t_file t; t_mem := t_mem t; t_started := t_started t;
     t_pending := if flush then [] else pend;
     t_written := if flush then t_written t ++ pend else t_written t;
     t_memrows := if t_mem t then t_memrows t ++ [data] else t_memrows t |}.

Definition map_key (P : tkey -> bool) (f : tstate -> tstate) (tr : list (tkey * tstate))
  : list (tkey * tstate) :=
  map (fun kt => if P (fst kt) then (fst kt, f (snd kt)) else kt) tr.

Definition with_tr (st : mstate) (tr : list (tkey * tstate)) : mstate :=
  {| m_lo := m_lo st; m_it := m_it st; m_pt := m_pt st; m_tr := tr; m_saved := m_saved st;
     m_rm := m_rm st |}.

(* addUse (metrics.py:54-119) with the stamp given *)
Definition add_use (n : Z) (st : mstate) (r c pos kind label : Z) (stamp : list Z) : mstate :=
  match index_of r (m_lo st) with
  | None => st                                   (* assert; cannot happen in a loop nest *)
  | Some i =>
    let pt := upd i (fun _ => c) (m_pt st) in
    let data := firstn (S i) stamp ++ firstn i pt ++ [c] ++ [pos] in
    {| m_lo := m_lo st; m_it := m_it st; m_pt := pt;
       m_tr := map_key (key_eqb (r, kind, label)) (push_row n data) (m_tr st);
       m_saved := m_saved st; m_rm := m_rm st |}
  end.

Fixpoint lookup_rm (r : Z) (m : list (Z * Z)) : option Z :=
  match m with
  | [] => None
  | (s, d) :: m' => if r =? s then Some d else lookup_rm r m'
  end.

(* index of a matched rank: line_order[rank_matches[rank]] *)
Definition aidx (st : mstate) (r : Z) : option nat :=
  match lookup_rm r (m_rm st) with Some d => index_of d (m_lo st) | None => None end.

(* addUse for a matched rank *)
Definition add_use_m (n : Z) (st : mstate) (r c pos kind label : Z) (stamp : list Z) : mstate :=
  match aidx st r with
  | None => st
  | Some i =>
    let data := firstn (S i) stamp ++ firstn i (m_pt st) ++ [c] ++ [pos] in
    with_tr st (map_key (key_eqb (r, kind, label)) (push_row n data) (m_tr st))
  end.

Definition step (n : Z) (st : mstate) (e : mev) : mstate :=
  match e with
  | EReg r =>                                    (* registerRank, metrics.py:494-534 *)
    (* (a rank that is already known through a match is not registered a second time here:
       that would restart its traces; loop nests never do it) *)
    match index_of r (m_lo st), lookup_rm r (m_rm st) with
    | None, None =>
      let lo := m_lo st ++ [r] in
      {| m_lo := lo; m_it := m_it st ++ [0]; m_pt := m_pt st ++ [0];
         m_tr := map_key (fun k => key_rank k =? r)
                         (start_trace (header lo (length (m_lo st)))) (m_tr st);
         m_saved := m_saved st; m_rm := m_rm st |}
    | _, _ => st
    end
  | EUse r c pos kind label => add_use n st r c pos kind label (m_it st)
  | EInc r =>
    match index_of r (m_lo st) with
    | None => st
    | Some i => {| m_lo := m_lo st; m_it := upd i (fun x => x + 1) (m_it st); m_pt := m_pt st;
                   m_tr := m_tr st; m_saved := m_saved st; m_rm := m_rm st |}
    end
  | EEnd r =>
    match index_of r (m_lo st) with
    | None => st
    | Some i => {| m_lo := m_lo st; m_it := upd i (fun _ => 0) (m_it st); m_pt := m_pt st;
                   m_tr := m_tr st; m_saved := m_saved st; m_rm := m_rm st |}
    end
  | ESave s => {| m_lo := m_lo st; m_it := m_it st; m_pt := m_pt st; m_tr := m_tr st;
                  m_saved := (s, m_it st) :: m_saved st; m_rm := m_rm st |}
  | EBump s r =>
    match index_of r (m_lo st) with
    | None => st
    | Some i => {| m_lo := m_lo st; m_it := m_it st; m_pt := m_pt st; m_tr := m_tr st;
                   m_saved := (s, upd i (fun x => x + 1) (lookup_saved s (m_saved st)))
                              :: m_saved st; m_rm := m_rm st |}
    end
  | EUseS r c pos kind label s => add_use n st r c pos kind label (lookup_saved s (m_saved st))
  | EStartM src r =>
    (* the part of registerRank(r) that concerns a rank matched to r (metrics.py:526-534);
       only the first match of a rank that is not itself a loop rank takes effect here *)
    match index_of r (m_lo st), index_of src (m_lo st), lookup_rm src (m_rm st) with
    | Some i, None, None =>
      {| m_lo := m_lo st; m_it := m_it st; m_pt := m_pt st;
         m_tr := map_key (fun k => key_rank k =? src) (start_trace (header (m_lo st) i)) (m_tr st);
         m_saved := m_saved st; m_rm := (src, r) :: m_rm st |}
    | _, _, _ => st
    end
  | EUseM r c pos kind label => add_use_m n st r c pos kind label (m_it st)
  | EUseSM r c pos kind label s => add_use_m n st r c pos kind label (lookup_saved s (m_saved st))
  | EIncM r =>
    match aidx st r with
    | None => st
    | Some i => {| m_lo := m_lo st; m_it := upd i (fun x => x + 1) (m_it st); m_pt := m_pt st;
                   m_tr := m_tr st; m_saved := m_saved st; m_rm := m_rm st |}
    end
  | EBumpM s r =>
    match aidx st r with
    | None => st
    | Some i => {| m_lo := m_lo st; m_it := m_it st; m_pt := m_pt st; m_tr := m_tr st;
                   m_saved := (s, upd i (fun x => x + 1) (lookup_saved s (m_saved st)))
                              :: m_saved st; m_rm := m_rm st |}
    end
  end.

Definition exec (n : Z) (st : mstate) (evs : list mev) : mstate := fold_left (step n) evs st.

(* beginCollect + Metrics.trace(rank, type[, consumable]) for every key *)
Definition fresh_trace (file mem : bool) : tstate :=
  {| t_file := file; t_mem := mem; t_started := false;
     t_pending := []; t_written := []; t_memrows := [] |}.

Definition init_state (keys : list tkey) (file mem : bool) : mstate :=
  {| m_lo := []; m_it := []; m_pt := [];
     m_tr := map (fun k => (k, fresh_trace file mem)) keys; m_saved := []; m_rm := [] |}.

(* endCollect (metrics.py:221-256) visits the traces in turn: a file trace is written and its cache
   re-armed (_writeTrace), then a consumable trace that still holds rows raises AssertionError -
   the collection stays open, the traces visited so far have been flushed.  The caller may consume
   the rest and call endCollect again. *)
Definition flush_trace (t : tstate) : tstate :=
  if t_file t then
    {| t_file := true; t_mem := t_mem t; t_started := true; t_pending := [];
       t_written := t_written t ++ t_pending t; t_memrows := t_memrows t |}
  else t.

Fixpoint end_attempt_tr (tr : list (tkey * tstate)) : list (tkey * tstate) :=
  match tr with
  | [] => []
  | (k, t) :: tr' =>
    if t_mem t && negb (Nat.eqb (length (t_memrows t)) 0)
    then (k, flush_trace t) :: tr'                       (* assert len(mem_trace) == 0 fails here *)
    else (k, flush_trace t) :: end_attempt_tr tr'
  end.

Definition end_attempt (st : mstate) : mstate := with_tr st (end_attempt_tr (m_tr st)).

(* what the CSV file holds after endCollect (the last _writeTrace appends the cached rows) *)
Definition file_content (t : tstate) : list row := t_written t ++ t_pending t.
