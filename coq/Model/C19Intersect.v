(* C19Intersect.v — model for C19 of
     - the intersect_i trace rows that Fiber.__and__ emits under Metrics collection
       (fibertree/core/iterators.py:691-807, metrics.py:54-119 addUse, 558-600 _startTrace),
     - the three intersection cost models of fibertree/model/intersect.py
       (LeaderFollower 56-84, SkipAhead 86-181, TwoFinger 183-262) *with the proposed fix
       S19-intersect-models-fiber-boundary.diff applied* (a finger left on a row of an earlier
       fiber is forwarded without counting; the entry assert is gone),
     - and the reference quantities the property text names (two-finger merge steps, maximal
       same-side runs plus matches, elements presented).
   No proofs here. *)
From Coq Require Import ZArith List Bool.
Import ListNotations.
Open Scope Z_scope.

Definition row := list Z.          (* one trace row: stamps ++ point ++ [fiber_pos] *)
Definition point := list Z.

(* ---------------------------------------------------------------- Python list operators *)
(* p == q *)
Fixpoint list_eqb (p q : list Z) : bool :=
  match p, q with
  | [], [] => true
  | x :: p', y :: q' => Z.eqb x y && list_eqb p' q'
  | _, _ => false
  end.

(* p < q on lists of ints: lexicographic, a proper prefix is smaller *)
Fixpoint lex_ltb (p q : list Z) : bool :=
  match p, q with
  | [], [] => false
  | [], _ :: _ => true
  | _ :: _, [] => false
  | x :: p', y :: q' => if Z.ltb x y then true else if Z.eqb x y then lex_ltb p' q' else false
  end.

Definition is_nil {A} (l : list A) : bool := match l with [] => true | _ => false end.

(* point[:-1] *)
Definition fid_of (p : point) : list Z := removelast p.

(* ---------------------------------------------------------------- the operands *)
(* a fiber operand: stored (coordinate, payload) elements.  a_fiber.__iter__(tick=False) is
   iterOccupancy: elements whose payload equals the fiber's default d are not presented
   (iterators.py:172).  A fiber whose default is None ("no empty value") is modelled by a d that
   no payload equals: every stored element, zeros included, is presented. *)
Definition occ (d : Z) (f : list (Z * Z)) : list Z :=
  map fst (filter (fun cv => negb (Z.eqb (snd cv) d)) f).

(* one two-operand intersection inside the loop nest: the outer loop coordinates (the part
   Metrics.point[:i] of every row), the default of the two operands, and the two operands *)
Record fpair := { f_id : list Z; f_d : Z; f_a : list (Z * Z); f_b : list (Z * Z) }.

(* ---------------------------------------------------------------- trace emission *)
(* event of one side: (K_pos stamp, coordinate, fiber_pos) *)
Definition ev := (Z * Z * Z)%type.
Definition ev_c (e : ev) : Z := snd (fst e).

(* the while loop of and_iterator (iterators.py:758-807).  k = Metrics.iteration[idx K]: one
   incIter per skipped element (782, 794) and one per yielded match (iterRange:182, the lazy
   fiber is walked with tick=True); a_pos/b_pos count the rows of each side; at exhaustion the
   side still holding a coordinate emits one more row (800-804). *)
Fixpoint and_ev (a : list Z) : list Z -> Z -> Z -> Z -> list ev * list ev :=
  fix inner (b : list Z) (apos bpos k : Z) : list ev * list ev :=
  match a, b with
  | x :: a', y :: b' =>
    if Z.eqb x y then
      let r := and_ev a' b' (apos + 1) (bpos + 1) (k + 1) in
      ((k, x, apos) :: fst r, (k, y, bpos) :: snd r)
    else if Z.ltb x y then
      let r := and_ev a' b (apos + 1) bpos (k + 1) in
      ((k, x, apos) :: fst r, snd r)
    else
      let r := inner b' apos (bpos + 1) (k + 1) in
      (fst r, (k, y, bpos) :: snd r)
  | x :: _, [] => ([(k, x, apos)], [])
  | [], y :: _ => ([], [(k, y, bpos)])
  | [], [] => ([], [])
  end.

(* Metrics.addUse (metrics.py:102-109): iteration[:i+1] ++ point[:i] ++ [coord] ++ [pos] *)
Definition mk_row (st f : list Z) (e : ev) : row :=
  st ++ [fst (fst e)] ++ f ++ [ev_c e; snd e].

(* stamps of the outer loops: the loop over the level-l fiber of prefix f[:l] has yielded
   (and incIter'ed) once per distinct coordinate smaller than f[l] *)
Fixpoint mem_z (x : Z) (l : list Z) : bool :=
  match l with [] => false | y :: l' => Z.eqb x y || mem_z x l' end.
Fixpoint distinct (l : list Z) : list Z :=
  match l with [] => [] | x :: l' => if mem_z x l' then distinct l' else x :: distinct l' end.

Definition stamp_at (all : list (list Z)) (f : list Z) (l : nat) : Z :=
  Z.of_nat (length (distinct
    (filter (fun c => Z.ltb c (nth l f 0))
       (map (fun g => nth l g 0)
          (filter (fun g => list_eqb (firstn l g) (firstn l f)) all))))).

Definition stamps (all : list (list Z)) (f : list Z) : list Z :=
  map (stamp_at all f) (seq 0 (length f)).

(* rows of both sides for one intersection *)
Definition fiber_rows (all : list (list Z)) (p : fpair) : list row * list row :=
  let r := and_ev (occ (f_d p) (f_a p)) (occ (f_d p) (f_b p)) 0 0 0 in
  let st := stamps all (f_id p) in
  (map (mk_row st (f_id p)) (fst r), map (mk_row st (f_id p)) (snd r)).

(* the heading row _startTrace appends when rank K is registered (metrics.py:594-600): d+1
   "_pos" names, d+1 rank names, "fiber_pos"; only its length is ever used *)
Definition header (d : nat) : row := repeat 0 (2 * (d + 1) + 1).

(* what consumeTrace returns for one batch of consecutive intersections *)
Definition batch_rows (all : list (list Z)) (seg : list fpair) : list row * list row :=
  (flat_map (fun p => fst (fiber_rows all p)) seg,
   flat_map (fun p => snd (fiber_rows all p)) seg).

(* ---------------------------------------------------------------- intersect.py *)
(* get_next: trace[i+1][num_ranks : 2*num_ranks].  The finger is modelled as the remaining
   suffix of the list of points; None = [] *)
Definition pt (nr : nat) (r : row) : point := firstn nr (skipn nr r).

(* "point is None or fiber != point[:-1]" for the head of a suffix *)
Definition ends (fiber : list Z) (t : list point) : bool :=
  match t with [] => true | p :: _ => negb (list_eqb fiber (fid_of p)) end.

(* "fiber = point0[:-1] if point0 else None; fiber != old_fiber" (truthiness of a list) *)
Definition ends_t (fiber : list Z) (t : list point) : bool :=
  match t with [] => true | p :: _ => is_nil p || negb (list_eqb fiber (fid_of p)) end.

(* TwoFingerIntersector.addTraces, the while loop (fixed code).  Every iteration drops at
   least one row, so fuel = 1 + rows suffices; None = out of fuel. *)
Fixpoint tf_loop (fuel : nat) (t0 t1 : list point) (n : Z) : option Z :=
  match fuel with
  | O => None
  | S fuel' =>
    match t0, t1 with
    | p0 :: t0', p1 :: t1' =>
      if is_nil p0 || is_nil p1 then Some n                  (* while point0 and point1 *)
      else if negb (list_eqb (fid_of p0) (fid_of p1)) then   (* the fix: fingers in different fibers *)
        if lex_ltb (fid_of p0) (fid_of p1) then tf_loop fuel' t0' t1 n
        else tf_loop fuel' t0 t1' n
      else
        let fiber := fid_of p0 in
        let n := n + 1 in
        if list_eqb p0 p1 then tf_loop fuel' t0' t1' n
        else if lex_ltb p0 p1 then
          if ends fiber t0' then tf_loop fuel' t0' t1' n else tf_loop fuel' t0' t1 n
        else
          if ends fiber t1' then tf_loop fuel' t0' t1' n else tf_loop fuel' t0 t1' n
    | _, _ => Some n
    end
  end.

Definition tf_run (t0 t1 : list point) (n : Z) : option Z :=
  tf_loop (S (length t0 + length t1)) t0 t1 n.

(* SkipAheadIntersector.addTraces, the while loop (fixed code); curr: None / Some false = 0 /
   Some true = 1 *)
Definition is_side (s : bool) (curr : option bool) : bool :=
  match curr with Some c => Bool.eqb c s | None => false end.

Fixpoint sa_loop (fuel : nat) (t0 t1 : list point) (curr : option bool) (n : Z) : option Z :=
  match fuel with
  | O => None
  | S fuel' =>
    match t0, t1 with
    | p0 :: t0', p1 :: t1' =>
      if is_nil p0 || is_nil p1 then Some n
      else if negb (list_eqb (fid_of p0) (fid_of p1)) then
        if lex_ltb (fid_of p0) (fid_of p1) then sa_loop fuel' t0' t1 None n
        else sa_loop fuel' t0 t1' None n
      else
        let fiber := fid_of p0 in
        if list_eqb p0 p1 then
          sa_loop fuel' t0' t1' None (n + 1)
        else if lex_ltb p0 p1 then
          let n := if is_side false curr then n else n + 1 in
          let t1n := if ends fiber t0' then t1' else t1 in
          sa_loop fuel' t0' t1n (if ends_t fiber t0' then None else Some false) n
        else
          let n := if is_side true curr then n else n + 1 in
          let t0n := if ends fiber t1' then t0' else t0 in
          sa_loop fuel' t0n t1' (if ends_t fiber t0n then None else Some true) n
    | _, _ => Some n
    end
  end.

Definition sa_run (t0 t1 : list point) (n : Z) : option Z :=
  sa_loop (S (length t0 + length t1)) t0 t1 None n.

(* model object state: started, num_ranks, num_intersects *)
Record ist := { i_started : bool; i_nr : nat; i_cnt : Z }.
Definition ist0 : ist := {| i_started := false; i_nr := O; i_cnt := 0 |}.

(* TwoFinger.addTraces (lines 198-262).  None = an exception (trace0[0] on an empty first
   trace) *)
Definition tf_add (s : ist) (tr : list row * list row) : option ist :=
  let '(tr0, tr1) := tr in
  let hdr := if i_started s then Some (i_nr s, tr0, tr1)
             else match tr0 with
                  | [] => None
                  | h :: tr0' => Some (Nat.div (length h - 1) 2, tr0', tl tr1)
                  end in
  match hdr with
  | None => None
  | Some (nr, tr0, tr1) =>
    match tf_run (map (pt nr) tr0) (map (pt nr) tr1) (i_cnt s) with
    | Some n => Some {| i_started := true; i_nr := nr; i_cnt := n |}
    | None => None
    end
  end.

(* SkipAhead.addTraces (lines 101-181): the header is only looked at when trace0 is
   non-empty; get_next on a non-empty trace before that raises AttributeError (num_ranks) *)
Definition sa_add (s : ist) (tr : list row * list row) : option ist :=
  let '(tr0, tr1) := tr in
  let hdr := if i_started s then Some (true, i_nr s, tr0, tr1)
             else match tr0 with
                  | [] => match tr1 with [] => Some (false, O, tr0, tr1) | _ => None end
                  | h :: tr0' => Some (true, Nat.div (length h - 1) 2, tr0', tl tr1)
                  end in
  match hdr with
  | None => None
  | Some (st, nr, tr0, tr1) =>
    match sa_run (map (pt nr) tr0) (map (pt nr) tr1) (i_cnt s) with
    | Some n => Some {| i_started := st; i_nr := nr; i_cnt := n |}
    | None => None
    end
  end.

(* LeaderFollower.addTraces (lines 59-84) *)
Definition lf_add (s : ist) (tr : list row) : ist :=
  let new := Z.of_nat (length tr) in
  let new := if i_started s then new else new - 1 in
  {| i_started := true; i_nr := i_nr s; i_cnt := i_cnt s + new |}.

(* feeding a sequence of batches; the first batch carries the heading row.  Result: the
   value of getNumIntersects() after every call, or None on an exception *)
Fixpoint feed {T} (add : ist -> T -> option ist) (s : ist) (calls : list T) : option (list Z) :=
  match calls with
  | [] => Some []
  | c :: calls' =>
    match add s c with
    | None => None
    | Some s' => match feed add s' calls' with
                 | None => None
                 | Some l => Some (i_cnt s' :: l)
                 end
    end
  end.

(* The heading row is appended to both traces when rank K is registered, i.e. when the first
   intersection starts: it is part of the first batch that follows at least one intersection.
   Batches consumed before that (a flush at the top of the loop body, a first iteration that
   skips the inner loop) are empty lists -- they do not even hold the heading row. *)
Fixpoint calls_from (h : option row) (rowsf : list fpair -> list row * list row)
                    (segs : list (list fpair)) : list (list row * list row) :=
  match segs with
  | [] => []
  | seg :: segs' =>
    match seg, h with
    | _ :: _, Some hd =>
      (hd :: fst (rowsf seg), hd :: snd (rowsf seg)) :: calls_from None rowsf segs'
    | _, _ => rowsf seg :: calls_from h rowsf segs'
    end
  end.

(* number of leading empty batches; the batches from the first non-empty one on *)
Fixpoint lead_n (segs : list (list fpair)) : nat :=
  match segs with [] :: segs' => S (lead_n segs') | _ => O end.
Fixpoint drop_lead (segs : list (list fpair)) : list (list fpair) :=
  match segs with [] :: segs' => drop_lead segs' | _ => segs end.

Definition depth_of (fs : list fpair) : nat :=
  match fs with [] => O | p :: _ => length (f_id p) end.

(* the calls one schedule makes: segs = the consecutive groups of intersections after which
   the traces were consumed and handed to the models *)
Definition calls_of (all : list (list Z)) (d : nat) (segs : list (list fpair))
  : list (list row * list row) :=
  calls_from (Some (header d)) (batch_rows all) segs.

Definition tf_feed all d segs := feed tf_add ist0 (calls_of all d segs).
Definition sa_feed all d segs := feed sa_add ist0 (calls_of all d segs).
Definition lf_feed (side : bool) all d segs :=
  feed (fun s c => Some (lf_add s c)) ist0
       (map (fun c : list row * list row => if side then snd c else fst c) (calls_of all d segs)).

(* ---------------------------------------------------------------- leader-follower style *)
(* Fiber.intersection(a, b, style="leader-follower") (iterators.py:521-553): for the i-th element
   the leader presents, one intersect_0 row (c, i) and one lookup in the follower,
   b.getPayload(c, trace="intersect_1"), which logs (c, index) with index = position of the first
   stored follower coordinate >= c (fiber.py:830-843, _coord2pos) whether or not c is stored there
   -- also when the search runs off the end of the follower or the follower is empty.  The lazy
   result is walked by iterRange(tick=True): one incIter per leader element, so K_pos = i. *)
Definition lfs_ev (a bstored : list Z) : list ev * list ev :=
  let ia := combine (map Z.of_nat (seq 0 (length a))) a in
  (map (fun ic => (fst ic, snd ic, fst ic)) ia,
   map (fun ic => (fst ic, snd ic,
                   Z.of_nat (length (filter (fun y => Z.ltb y (snd ic)) bstored)))) ia).

Definition lfs_fiber_rows (all : list (list Z)) (p : fpair) : list row * list row :=
  let r := lfs_ev (occ (f_d p) (f_a p)) (map fst (f_b p)) in
  let st := stamps all (f_id p) in
  (map (mk_row st (f_id p)) (fst r), map (mk_row st (f_id p)) (snd r)).

Definition lfs_batch_rows (all : list (list Z)) (seg : list fpair) : list row * list row :=
  (flat_map (fun p => fst (lfs_fiber_rows all p)) seg,
   flat_map (fun p => snd (lfs_fiber_rows all p)) seg).

Definition lfs_calls_of (all : list (list Z)) (d : nat) (segs : list (list fpair))
  : list (list row * list row) :=
  calls_from (Some (header d)) (lfs_batch_rows all) segs.

Definition lfs_feed (side : bool) all d segs :=
  feed (fun s c => Some (lf_add s c)) ist0
       (map (fun c : list row * list row => if side then snd c else fst c) (lfs_calls_of all d segs)).

(* every element the leader holds is presented once, to the model of either operand *)
Definition led (a b : list Z) : Z := Z.of_nat (length a).

(* ---------------------------------------------------------------- reference quantities *)
(* the textbook two-finger merge of two coordinate lists, as the list of its comparison
   steps until either list is exhausted *)
Inductive kind := KM | KL | KR.     (* match / left smaller / right smaller *)

Fixpoint merge_kinds (a : list Z) : list Z -> list kind :=
  fix inner (b : list Z) : list kind :=
  match a, b with
  | x :: a', y :: b' =>
    if Z.eqb x y then KM :: merge_kinds a' b'
    else if Z.ltb x y then KL :: merge_kinds a' b
    else KR :: inner b'
  | _, _ => []
  end.

Definition merge_steps (a b : list Z) : Z := Z.of_nat (length (merge_kinds a b)).

(* number of matches plus number of maximal runs of consecutive same-side steps *)
Definition kind_eqb (j k : kind) : bool :=
  match j, k with KM, KM | KL, KL | KR, KR => true | _, _ => false end.

Fixpoint runs (prev : option kind) (ks : list kind) : Z :=
  match ks with
  | [] => 0
  | k :: ks' =>
    (match k, prev with
     | KM, _ => 1
     | _, Some j => if kind_eqb j k then 0 else 1
     | _, None => 1
     end) + runs (Some k) ks'
  end.

Definition skip_steps (a b : list Z) : Z := runs None (merge_kinds a b).

(* elements the operand [a] presents when intersected with [b]: those not beyond every
   element of b, plus the first one that is (it reveals that b is exhausted) *)
Definition presented (a b : list Z) : Z :=
  Z.of_nat (length (filter (fun x => existsb (fun y => Z.leb x y) b) a))
  + (if existsb (fun x => forallb (fun y => Z.ltb y x) b) a then 1 else 0).

Definition sumZ' (l : list Z) : Z := fold_right Z.add 0 l.

Definition total (q : list Z -> list Z -> Z) (fs : list fpair) : Z :=
  sumZ' (map (fun p => q (occ (f_d p) (f_a p)) (occ (f_d p) (f_b p))) fs).

(* set-style closed form of the two-finger count: elements of either list that are not
   beyond the other list's last element, matches counted once *)
Definition steps_closed (a b : list Z) : Z :=
  Z.of_nat (length (filter (fun x => existsb (fun y => Z.leb x y) b) a))
  + Z.of_nat (length (filter (fun y => existsb (fun x => Z.leb y x) a) b))
  - Z.of_nat (length (filter (fun x => mem_z x b) a)).
