(* C19Check.v — executable check for C19 (case type, model observation, property oracle). *)
From Coq Require Import ZArith List Bool.
From FT Require Import Model.Base Model.Obs Model.C19Intersect Model.C19Compute.
Import ListNotations.
Open Scope Z_scope.

Inductive c19_case :=
| CI (fs : list fpair) (scheds : list (list nat))
    (* a loop nest running the intersections fs one after the other (outer loop coordinates
       f_id, lexicographically increasing); each schedule is the list of numbers of
       consecutive intersections after which the traces are consumed and fed to the models *)
| CS (t u : tree) (depth : nat) (radix lat : option Z)
| CL (fs : list fpair) (scheds : list (list nat)).
    (* as CI, but every intersection is Fiber.intersection(a, b, style="leader-follower") with a
       the leader; only the two leader-follower models are fed *)
    (* numSwaps of tensor t and of u (same coordinates, other payload values);
       radix None = float("inf"), lat None = "N" *)

Fixpoint split_by {A} (lens : list nat) (l : list A) : list (list A) :=
  match lens with
  | [] => []
  | n :: lens' => firstn n l :: split_by lens' (skipn n l)
  end.

Definition Vrows (rs : list row) : V := Vl (Vl VZ) rs.

(* ---- model observation *)
(* every model object is fed on its own (an exception of one does not stop the others): per
   schedule the observation is [two-finger; skip-ahead; leader-follower a; leader-follower b],
   each the list of getNumIntersects() after every call, or an error.  The two-finger object is
   only fed from the first non-empty batch on: fed an empty first batch it raises IndexError
   (trace0[0]) and stays unusable -- C19_two_finger_empty_first_refuted; proposed fix
   twofinger-empty-first-batch.diff *)
Definition Vres (r : option (list Z)) : V :=
  match r with Some l => Vl VZ l | None => Verr 1 end.

Definition sched_model (fs : list fpair) (lens : list nat) : V :=
  let all := map f_id fs in
  let d := depth_of fs in
  let segs := split_by lens fs in
  VL [Vres (tf_feed all d (drop_lead segs)); Vres (sa_feed all d segs);
      Vres (lf_feed false all d segs); Vres (lf_feed true all d segs)].

Definition lsched_model (fs : list fpair) (lens : list nat) : V :=
  let all := map f_id fs in
  let d := depth_of fs in
  let segs := split_by lens fs in
  VL [Vres (lfs_feed false all d segs); Vres (lfs_feed true all d segs)].

Definition c19_model (c : c19_case) : V :=
  match c with
  | CI fs scheds =>
    let all := map f_id fs in
    let rows := batch_rows all fs in
    VL [Vn (length (header (depth_of fs))); Vrows (fst rows); Vrows (snd rows);
        VL (map (sched_model fs) scheds)]
  | CS t u depth radix lat =>
    VL [Vo VZ (swaps_tree depth radix lat t); Vo VZ (swaps_tree depth radix lat u)]
  | CL fs scheds =>
    let all := map f_id fs in
    let rows := lfs_batch_rows all fs in
    VL [Vn (length (header (depth_of fs))); Vrows (fst rows); Vrows (snd rows);
        VL (map (lsched_model fs) scheds)]
  end.

(* ---- the property, from the raw coordinate lists *)
Fixpoint cum (acc : Z) (l : list Z) : list Z :=
  match l with [] => [] | x :: l' => (acc + x) :: cum (acc + x) l' end.

(* what a count list must be from entry k on (k = number of leading empty batches: before any
   intersection has run there is no trace, and what a model reports then is not constrained) *)
Definition lead_eqb (k : nat) (o : V) (spec : list Z) : bool :=
  match o with
  | VL l => Nat.eqb (length l) (length spec) && V_eqb (VL (skipn k l)) (Vl VZ (skipn k spec))
  | VZ _ => false
  end.

Fixpoint forall2b {A B} (f : A -> B -> bool) (l : list A) (m : list B) : bool :=
  match l, m with
  | [], [] => true
  | x :: l', y :: m' => f x y && forall2b f l' m'
  | _, _ => false
  end.

(* after every call each model has added exactly the reference quantity of the
   intersections of that batch, whatever the batching -- empty batches included *)
Definition sched_holds (fs : list fpair) (lens : list nat) (o : V) : bool :=
  let segs := split_by lens fs in
  let k := lead_n segs in
  match o with
  | VL [tf; sa; la; lb] =>
    V_eqb tf (Vl VZ (cum 0 (map (total merge_steps) (drop_lead segs))))
    && lead_eqb k sa (cum 0 (map (total skip_steps) segs))
    && lead_eqb k la (cum 0 (map (total presented) segs))
    && lead_eqb k lb (cum 0 (map (total (fun a b => presented b a)) segs))
  | _ => false
  end.

(* leader-follower style: the model of either operand has counted, after every call, one
   attempt per element the leader presented in the intersections of the batches so far *)
Definition lsched_holds (fs : list fpair) (lens : list nat) (o : V) : bool :=
  let segs := split_by lens fs in
  let k := lead_n segs in
  match o with
  | VL [la; lb] =>
    lead_eqb k la (cum 0 (map (total led) segs)) && lead_eqb k lb (cum 0 (map (total led) segs))
  | _ => false
  end.

Definition c19_holds (c : c19_case) (o : V) : bool :=
  match c, o with
  | CI fs scheds, VL [_; _; _; VL rs] => forall2b (sched_holds fs) scheds rs
  | CL fs scheds, VL [_; _; _; VL rs] => forall2b (lsched_holds fs) scheds rs
  | CS t u depth radix lat, VL [VL [VZ x]; VL [VZ y]] =>
    Z.eqb x y
    && match lat with
       | Some l => Z.eqb x (swaps_spec_int depth radix l t)
       | None => match swaps_ref_N depth radix t with   (* register-bag reference *)
                 | Some v => Z.eqb x v
                 | None => false
                 end
       end
  | _, _ => false
  end.

(* ---- well-formedness of a case (what the generator produces) *)
Fixpoint fids_sorted (fs : list (list Z)) : bool :=
  match fs with
  | [] => true
  | f :: fs' => forallb (fun g => lex_ltb f g) fs' && fids_sorted fs'
  end.

Definition sum_nat (l : list nat) : nat := fold_right Nat.add O l.

Definition wf_fs (fs : list fpair) : bool :=
  forallb (fun p => Nat.eqb (length (f_id p)) (depth_of fs)) fs
  && fids_sorted (map f_id fs)
  && forallb (fun p => ssorted (occ (f_d p) (f_a p)) && ssorted (occ (f_d p) (f_b p))) fs.

(* a schedule: numbers of consecutive intersections per batch, 0 = an empty batch *)
Definition wf_sched (n : nat) (lens : list nat) : bool := Nat.eqb (sum_nat lens) n.

Definition c19_wf (c : c19_case) : bool :=
  match c with
  | CI fs scheds => wf_fs fs && forallb (wf_sched (length fs)) scheds
  | CS t u depth radix lat =>
    depth_ok (depth + 2) t && same_shape t u
    && match radix with Some r => Z.leb 2 r | None => true end
  | CL fs scheds => true
  end.

Definition c19_checker : checker c19_case :=
  {| model := c19_model; holds := c19_holds; region := fun _ => 0 |}.
