(* C07Iter.v — model of the traversal modes of fibertree/core/iterators.py and of
   Fiber.project / Fiber.prune / Fiber.fromLazy (fibertree/core/fiber.py), for C07.

   A fiber is the stored element list (coords/payloads in position order), its leaf default,
   the RankAttrs shape, the active range and the format.  A yielded element is the triple
   (coordinate, payload, origin) where origin is the position of the stored payload object
   that was handed out (Python `is`), or -1 for a freshly made default.
   The model is of the code with the proposed fixes S20 and S23 applied (see project).
   Metrics are off (Metrics.isCollecting() = False), coordinates are ints. *)
From Coq Require Import ZArith List Bool.
From FT Require Import Model.Base.
Import ListNotations.
Open Scope Z_scope.

Definition yelem := (Z * tree * Z)%type.
Definition ycoord (y : yelem) : Z := fst (fst y).
Definition ypay (y : yelem) : tree := snd (fst y).
Definition yorig (y : yelem) : Z := snd y.

(* f_isU: the format in the fiber's own RankAttrs; f_owner: None for a free-standing fiber,
   Some u for the root fiber of a one-rank tensor whose rank has format "U" (u) or "C" *)
Record fiber := { f_es : fib; f_d : Z; f_shape : option Z; f_active : option (Z * Z);
                  f_isU : bool; f_owner : option bool }.

(* __iter__ (iterators.py:16-24): the owner rank's format if the fiber is owned, else the
   format of its own RankAttrs *)
Definition fmt_U (f : fiber) : bool :=
  match f_owner f with Some u => u | None => f_isU f end.

Definition zlen {A} (l : list A) : Z := Z.of_nat (length l).

(* ---- Fiber.getDefault / _createDefault (fiber.py:1536-1598) for an unowned fiber: the class
   Fiber when the first payload is a fiber (a new empty Fiber() is made), else the leaf
   default of the fiber's own RankAttrs *)
Definition dflt (d : Z) (es : fib) : tree :=
  match es with
  | (_, Node _) :: _ => Node []
  | _ => Leaf d
  end.

(* ---- maxCoord / estimateShape(all_ranks=False) (fiber.py:1844-1883, 2662-2730) *)
Definition est_shape (es : fib) : Z :=
  match es with
  | [] => 0
  | _ => last (map fst es) 0 + 1
  end.

(* getShape(all_ranks=False) (2600-2659).  Unowned: the attrs shape unless None.  Owned (the
   tensor was built from this fiber without an explicit shape): Rank.append (rank.py:445-460)
   copies the fiber's shape into the rank unless it is 0, Rank.getShape (210-226) returns it,
   and a missing one is estimated *)
Definition get_shape (f : fiber) : Z :=
  match f_shape f with
  | Some s => match f_owner f with
              | Some _ => if s =? 0 then est_shape (f_es f) else s
              | None => s
              end
  | None => est_shape (f_es f)
  end.

(* getActive (1487-1509): the stored range; else (0, shape) with a falsy shape estimated *)
Definition get_active (f : fiber) : Z * Z :=
  match f_active f with
  | Some a => a
  | None => (0, match f_shape f with
                | Some s => if s =? 0 then est_shape (f_es f) else s
                | None => est_shape (f_es f)
                end)
  end.

(* ---- Python range(start, end, step) for step >= 1, as the for loop runs it; the fuel
   end - start suffices when step >= 1 (C07_zrange) *)
Fixpoint zrange_loop (fuel : nat) (c hi step : Z) : list Z :=
  match fuel with
  | O => []
  | S fuel' => if c <? hi then c :: zrange_loop fuel' (c + step) hi step else []
  end.

Definition zrange (lo hi step : Z) : list Z := zrange_loop (Z.to_nat (hi - lo)) lo hi step.

(* ---- iterRange (iterators.py:122-188), eager fiber.  i = position of the head of es. *)
Definition in_lo (lo : option Z) (c : Z) : bool :=
  match lo with None => true | Some l => l <=? c end.
Definition ge_hi (hi : option Z) (c : Z) : bool :=
  match hi with None => false | Some h => h <=? c end.

Fixpoint iter_range_loop (d : Z) (lo hi : option Z) (i : Z) (es : fib) : list yelem :=
  match es with
  | [] => []
  | (c, t) :: es' =>
    if ge_hi hi c then []                                         (* 167-168 break *)
    else if in_lo lo c then                                       (* 171 *)
      if is_empty d t then iter_range_loop d lo hi (i + 1) es'    (* 172 *)
      else (c, t, i) :: iter_range_loop d lo hi (i + 1) es'       (* 179 *)
    else iter_range_loop d lo hi (i + 1) es'
  end.

(* None = AssertionError (152: start_pos < len(self.coords)) *)
Definition iter_range (f : fiber) (lo hi : option Z) (sp : option Z) : option (list yelem) :=
  match sp with
  | None => Some (iter_range_loop (f_d f) lo hi 0 (f_es f))
  | Some p => if p <? zlen (f_es f)
              then Some (iter_range_loop (f_d f) lo hi p (skipn (Z.to_nat p) (f_es f)))
              else None
  end.

(* setSavedPos(i + j) at every yield, only when a start_pos was given (173-174); a fresh
   fiber has saved position 0 *)
Definition saved_after (sp : option Z) (ys : list yelem) : Z :=
  match sp with None => 0 | Some _ => last (map yorig ys) 0 end.

Definition iter_occupancy (f : fiber) (sp : option Z) := iter_range f None None sp.   (* 44-59 *)
Definition iter_active (f : fiber) (sp : option Z) :=                                 (* 91-99 *)
  iter_range f (Some (fst (get_active f))) (Some (snd (get_active f))) sp.

(* ---- _coord2pos (fiber.py:4958-5042), ordered, no start_pos: bisect_left = the first
   position whose coordinate is >= c (on a sorted list); _coordExists (5044-5053) *)
Fixpoint coord2pos (c : Z) (es : fib) : nat :=
  match es with
  | [] => O
  | (c', _) :: es' => if c <=? c' then O else S (coord2pos c es')
  end.

Definition coord_exists (c : Z) (pos : nat) (es : fib) : option tree :=
  match nth_error es pos with
  | Some (c', t) => if c' =? c then Some t else None
  | None => None
  end.

(* getPayload(c) (751-865), one coordinate, allocate=True: the stored payload or a fresh
   default (_createDefault(addtorank=False)); the fiber is not changed *)
Definition get_payload (d : Z) (c : Z) (es : fib) : tree * Z :=
  let i := coord2pos c es in
  match coord_exists c i es with
  | Some t => (t, Z.of_nat i)
  | None => (dflt d es, -1)
  end.

(* getPayloadRef(c) (868-930) + _create_payload (933-962): insert the default at the
   bisect position when absent *)
Definition insert_at {A} (pos : nat) (x : A) (l : list A) : list A :=
  firstn pos l ++ x :: skipn pos l.

Definition get_payload_ref (d : Z) (c : Z) (es : fib) : fib :=
  let i := coord2pos c es in
  match coord_exists c i es with
  | Some _ => es
  | None => insert_at (coord2pos c es) (c, dflt d es) es
  end.

(* ---- iterRangeShape (190-222) *)
Definition shape_loop (d : Z) (cs : list Z) (es : fib) : list yelem :=
  map (fun c => (c, fst (get_payload d c es), snd (get_payload d c es))) cs.

(* ---- iterRangeShapeRef (224-256): the fiber is threaded through the loop.  Yields the
   (coordinate, payload) pairs and the final fiber; the origin of each yielded payload is
   its position in the final fiber (that is where the harness looks for the object). *)
Fixpoint shape_ref_loop (d : Z) (cs : list Z) (es : fib) : list (Z * tree) * fib :=
  match cs with
  | [] => ([], es)
  | c :: cs' =>
    let es1 := get_payload_ref d c es in
    let t := fst (get_payload d c es1) in
    let r := shape_ref_loop d cs' es1 in
    ((c, t) :: fst r, snd r)
  end.

Definition with_origin (d : Z) (post : fib) (ys : list (Z * tree)) : list yelem :=
  map (fun ct => (fst ct, snd ct, snd (get_payload d (fst ct) post))) ys.

Definition iter_range_shape (f : fiber) (lo hi step : Z) : list yelem :=
  shape_loop (f_d f) (zrange lo hi step) (f_es f).

Definition iter_range_shape_ref (f : fiber) (lo hi step : Z) : list yelem * fib :=
  let r := shape_ref_loop (f_d f) (zrange lo hi step) (f_es f) in
  (with_origin (f_d f) (snd r) (fst r), snd r).

(* ---- __iter__ (iterators.py:16-32): "C" -> iterOccupancy(start_pos), "U" ->
   iterActiveShape() and start_pos is ignored *)
Definition iter_dispatch (f : fiber) (sp : option Z) : option (list yelem) :=
  if fmt_U f
  then Some (iter_range_shape f (fst (get_active f)) (snd (get_active f)) 1)
  else iter_occupancy f sp.

Definition saved_dispatch (f : fiber) (sp : option Z) (ys : list yelem) : Z :=
  if fmt_U f then 0 else saved_after sp ys.

(* ---- coiterRangeShape / coiterRangeShapeRef (362-448): one tuple of payloads per
   coordinate of the range; the lazy result is iterated through iterRange, whose emptiness
   test never fires on a tuple payload (tuple == 0 is False), so every tuple is yielded *)
Definition coelem := (Z * list (tree * Z))%type.

Definition co_loop (d : Z) (cs : list Z) (fs : list fib) : list coelem :=
  map (fun c => (c, map (get_payload d c) fs)) cs.

Fixpoint co_ref_loop (d : Z) (cs : list Z) (fs : list fib) : list (Z * list tree) * list fib :=
  match cs with
  | [] => ([], fs)
  | c :: cs' =>
    let fs1 := map (get_payload_ref d c) fs in
    let ts := map (fun es => fst (get_payload d c es)) fs1 in
    let r := co_ref_loop d cs' fs1 in
    ((c, ts) :: fst r, snd r)
  end.

Definition co_with_origin (d : Z) (post : list fib) (ys : list (Z * list tree)) : list coelem :=
  map (fun ct => (fst ct, combine (snd ct) (map (fun es => snd (get_payload d (fst ct) es)) post)))
      ys.

(* ---- iterRange on a *lazy* fiber with start = end = None (what `for c, p in lazy` runs):
   the elements of the iterator object that are not empty w.r.t. the lazy fiber's default *)
Definition lazy_occ (d : Z) (ys : list yelem) : list yelem :=
  filter (fun y => negb (is_empty d (ypay y))) ys.

Fixpoint indexed_from (i : Z) (es : fib) : list yelem :=
  match es with
  | [] => []
  | (c, t) :: es' => (c, t, i) :: indexed_from (i + 1) es'
  end.
Definition indexed (es : fib) : list yelem := indexed_from 0 es.

(* ---- project (fiber.py:1179-1341) with trans_fn = fun c => k*c + b.
   project_iterator.__iter__ (1292-1324): transform, break at c >= interval[1], yield when
   inside the interval. *)
Fixpoint proj_loop (k b : Z) (iv : option (Z * Z)) (ys : list yelem) : list yelem :=
  match ys with
  | [] => []
  | y :: ys' =>
    let c := k * ycoord y + b in
    match iv with
    | Some (lo, hi) =>
      if hi <=? c then []                                               (* 1314-1315 *)
      else if lo <=? c then (c, ypay y, yorig y) :: proj_loop k b iv ys' (* 1317-1319 *)
      else proj_loop k b iv ys'
    | None => (c, ypay y, yorig y) :: proj_loop k b iv ys'
    end
  end.

(* the source elements the generator pulled before it stopped (for the saved position) *)
Fixpoint proj_consumed (k b : Z) (iv : option (Z * Z)) (ys : list yelem) : list yelem :=
  match ys with
  | [] => []
  | y :: ys' =>
    match iv with
    | Some (_, hi) => if hi <=? k * ycoord y + b then [y] else y :: proj_consumed k b iv ys'
    | None => y :: proj_consumed k b iv ys'
    end
  end.

(* start_pos assertions of project (1264-1272) *)
Definition proj_sp_ok (f : fiber) (iv : option (Z * Z)) (sp : option Z) : bool :=
  match sp with
  | None => true
  | Some p =>
    (p <? zlen (f_es f)) &&
    match iv with
    | None => true
    | Some (lo, _) =>
      (p =? 0) || match nth_error (f_es f) (Z.to_nat (p - 1)) with
                  | Some (c, _) => c <? lo
                  | None => false
                  end
    end
  end.

(* source iteration of project: reversed (trans(0) > trans(1), 1247-1258) = a lazy fiber over
   reversed(zip(coords, payloads)), iterated by __iter__ -> iterRange(None, None) lazily,
   with the operand's default (fix S23; the unfixed code leaves the lazy fiber's default 0);
   otherwise the operand's own __iter__(start_pos) (1311).
   Fix S20: the example coordinate is taken from self.coords, so a fiber whose stored
   payloads are all empty no longer raises StopIteration (for int coordinates the example
   only decides c0 = 0, c1 = 1). *)
Definition proj_reversed (k b : Z) : bool := (k * 0 + b) >? (k * 1 + b).

Definition proj_source (f : fiber) (k b : Z) (iv : option (Z * Z)) (sp : option Z)
  : option (list yelem) :=
  if proj_reversed k b
  then match sp with
       | Some _ => None                                    (* 1265 assert not fiber.isLazy() *)
       | None => Some (lazy_occ (f_d f) (rev (indexed (f_es f))))
       end
  else if proj_sp_ok f iv sp then iter_dispatch f sp else None.

(* the result fiber is lazy with the operand's default (1336-1337) and is iterated by
   __iter__ -> iterRange(None, None) *)
Definition project (f : fiber) (k b : Z) (iv : option (Z * Z)) (sp : option Z)
  : option (list yelem) :=
  match proj_source f k b iv sp with
  | Some src => Some (lazy_occ (f_d f) (proj_loop k b iv src))
  | None => None
  end.

Definition project_saved (f : fiber) (k b : Z) (iv : option (Z * Z)) (sp : option Z) : Z :=
  match proj_source f k b iv sp with
  | Some src => if proj_reversed k b then 0 else saved_dispatch f sp (proj_consumed k b iv src)
  | None => 0
  end.

(* ---- a window over a projection: project(...).iterRange(start, end) — iterRange (122-188) on the
   *lazy* result: the same loop as the eager one, over the elements the generator produces *)
Fixpoint lazy_range_loop (d : Z) (lo hi : option Z) (ys : list yelem) : list yelem :=
  match ys with
  | [] => []
  | y :: ys' =>
    if ge_hi hi (ycoord y) then []
    else if in_lo lo (ycoord y) then
      if is_empty d (ypay y) then lazy_range_loop d lo hi ys'
      else y :: lazy_range_loop d lo hi ys'
    else lazy_range_loop d lo hi ys'
  end.

Definition project_window (f : fiber) (k b : Z) (iv : option (Z * Z)) (lo hi : option Z)
  : option (list yelem) :=
  match proj_source f k b iv None with
  | Some src => Some (lazy_range_loop (f_d f) lo hi (proj_loop k b iv src))
  | None => None
  end.

(* the same fiber object with other stored elements (after a reference traversal grew it) *)
Definition set_es (f : fiber) (es : fib) : fiber :=
  {| f_es := es; f_d := f_d f; f_shape := f_shape f; f_active := f_active f; f_isU := f_isU f;
     f_owner := f_owner f |}.

(* ---- prune (fiber.py:1026-1078): trans_fn(i, c, p) over enumerate(self.__iter__(start_pos)) *)
Fixpoint prune_loop (P : Z -> Z -> tree -> bool) (i : Z) (ys : list yelem) : list yelem :=
  match ys with
  | [] => []
  | y :: ys' =>
    if P i (ycoord y) (ypay y) then y :: prune_loop P (i + 1) ys'
    else prune_loop P (i + 1) ys'
  end.

Definition prune_source (f : fiber) (sp : option Z) : option (list yelem) :=
  match sp with
  | Some p => if p <? zlen (f_es f) then iter_dispatch f sp else None     (* 1058-1060 *)
  | None => iter_dispatch f sp
  end.

Definition prune (f : fiber) (P : Z -> Z -> tree -> bool) (sp : option Z) : option (list yelem) :=
  match prune_source f sp with
  | Some src => Some (lazy_occ (f_d f) (prune_loop P 0 src))
  | None => None
  end.

Definition prune_saved (f : fiber) (sp : option Z) : Z :=
  match prune_source f sp with
  | Some src => saved_dispatch f sp src
  | None => 0
  end.

(* ---- Fiber.fromLazy (fiber.py:544-564):
       f_out = cls(default=fiber.getDefault())
       for c, (f_ref, f_val) in f_out << fiber:  f_ref <<= f_val
   i.e. the populate generator (iterators.py __lshift__ 1052-1290; C05Populate.loop1 is the general
   model of it on an owned tensor) run on a fresh, empty, unowned destination against the
   elements the lazy fiber's own __iter__ yields, with the body "assign a copy". *)

Fixpoint set_nth {A} (pos : nat) (x : A) (l : list A) : list A :=
  match l, pos with
  | [], _ => []
  | _ :: l', O => x :: l'
  | y :: l', S p => y :: set_nth p x l'
  end.

Fixpoint remove_nth {A} (i : nat) (l : list A) : list A :=
  match l, i with
  | [], _ => []
  | _ :: l', O => l'
  | x :: l', S i' => x :: remove_nth i' l'
  end.

(* Fiber.__ilshift__ (fiber.py:3016-3065) on an empty destination [acc]:
     for c, p in other:  ref = self.getPayloadRef(c);  ref <<= p
   `for c, p in other` is other's default iteration (compressed: the non-empty elements);
   [cp] is the assignment of one payload (the recursion below) *)
Definition ilshift_loop (cp : tree -> tree) (d : Z) : fib -> fib -> fib :=
  fix go (l : fib) (acc : fib) : fib :=
    match l with
    | [] => acc
    | (c, s) :: l' =>
      if is_empty d s then go l' acc
      else let acc1 := get_payload_ref d c acc in
           go l' (set_nth (coord2pos c acc1) (c, cp s) acc1)
    end.

(* ref <<= p: Payload.__ilshift__ copies the value, Fiber.__ilshift__ the elements *)
Fixpoint assign_copy (d : Z) (t : tree) : tree :=
  match t with
  | Leaf v => Leaf v
  | Node es => Node (ilshift_loop (assign_copy d) d es [])
  end.

(* _coord2pos(c, start_pos=p) (fiber.py 5013-5023): first i >= p with coords[i] >= c, else len *)
Definition coord2pos_from (p : nat) (c : Z) (es : fib) : nat := (p + coord2pos c (skipn p es))%nat.

(* _createDefault of the destination: Fiber() once it stores fibers, else the default it was
   given, which is the lazy fiber's (= the operand's) default [dt] *)
Definition dflt_out (dt : tree) (es : fib) : tree :=
  match es with
  | (_, Node _) :: _ => Node []
  | _ => dt
  end.

(* lshift_iterator.__iter__ (iterators.py 1108-1290), metrics off, with the body of fromLazy;
   [es] = the destination, [a_pos] the running position *)
Fixpoint from_lazy_loop (d : Z) (dt : tree) (b : fib) (es : fib) (a_pos : nat) : fib :=
  match b with
  | [] => es
  | (c, bp) :: b' =>
    (* 1180-1192: advance a_pos by bisect_left on the suffix, choose getPayload's start_pos *)
    let a_pos1 := match es with [] => a_pos | _ :: _ => coord2pos_from a_pos c es end in
    let gpp := match es with
               | [] => None
               | _ :: _ => match coord_exists c a_pos1 es with
                           | Some _ => Some a_pos1
                           | None => match a_pos1 with O => None | S p => Some p end
                           end
               end in
    (* 1194: getPayload(b_coord, allocate=False, start_pos=gpp); None when absent *)
    let idx := match gpp with None => coord2pos c es | Some p => coord2pos_from p c es end in
    let existing := match coord_exists c idx es with Some _ => true | None => false end in
    (* 1199-1203: _create_payload(b_coord, pos=a_pos) *)
    let es1 := if existing then es else insert_at a_pos1 (c, dflt_out dt es) es in
    let pos := if existing then idx else a_pos1 in
    (* 1213 yield; body: f_ref <<= f_val *)
    let zp' := assign_copy d bp in
    let es2 := set_nth pos (c, zp') es1 in
    (* 1216-1219: (maybe_remove and fiber and len == 0) or (leaf and == default) *)
    let remove := match zp' with
                  | Node sub => negb existing && Nat.eqb (length sub) O
                  | Leaf v => v =? d
                  end in
    (* 1221-1236 *)
    let es3 := if remove then remove_nth (coord2pos c es2) es2 else es2 in
    let a_pos2 := if remove then a_pos1 else S a_pos1 in          (* 1236, 1261 *)
    from_lazy_loop d dt b' es3 a_pos2
  end.

(* dt = the default payload of the lazy fiber (project/prune hand on the operand's) *)
Definition from_lazy (d : Z) (dt : tree) (ys : list yelem) : fib :=
  from_lazy_loop d dt (map (fun y => (ycoord y, ypay y)) ys) [] O.

(* the predicate family the harness drives prune with:
   (a*i + b*c + e*val(p)) mod m < th, val = leaf value or number of stored elements *)
Definition tval (t : tree) : Z :=
  match t with Leaf v => v | Node es => zlen es end.

Record pred := { p_a : Z; p_b : Z; p_e : Z; p_m : Z; p_th : Z }.

Definition pred_eval (p : pred) (i c : Z) (t : tree) : bool :=
  ((p_a p * i + p_b p * c + p_e p * tval t) mod (p_m p)) <? p_th p.
