(* C16Check.v — case type, observation of the faithful model, and the property oracle for C16
   (traces are well-formed).  No proofs in this file.

   Observation layout:
     VL [ VL [files under threshold n | n <- thresholds];      file run (Metrics.trace(r, t))
          VL [files; consumed; files'; consumed']              run with file + consumable traces, and
                                                               the same with a failed first endCollect
          z after the run ]                                    (VL [] when no tensor is populated)
   files / consumed = one entry per key of the case, each the list of rows of that trace
   (header first, encoded as in C16Metrics; an unstarted trace is the empty list). *)
From Coq Require Import ZArith List Bool.
From FT Require Import Model.Base Model.Obs Model.C16Metrics Model.C16Nest.
Import ListNotations.
Open Scope Z_scope.

Record c16_case := {
  k_levels : list level;          (* the loop nest, outermost first *)
  k_inputs : list tree;           (* root fibers of the input tensors (depth = nest depth) *)
  k_z : tree;                     (* root fiber of the populated tensor before the run *)
  k_zshape : list Z;              (* its (authoritative) rank shapes *)
  k_skip : Z;                     (* innermost body skips points whose coordinate sum is 0 mod k_skip *)
  k_keys : list tkey;             (* traces registered before the run *)
  k_thresholds : list Z }.        (* Metrics.setNumCachedUses values *)

Fixpoint n_pop (lv : list level) : nat :=
  match lv with
  | L :: lv' => if l_pop L then S (n_pop lv') else O
  | [] => O
  end.

Definition traced (c : c16_case) (k : tkey) : bool := existsb (key_eqb k) (k_keys c).
Definition z_in (c : c16_case) : option tree :=
  match n_pop (k_levels c) with O => None | S _ => Some (k_z c) end.

Definition c16_events (c : c16_case) : list mev * option tree :=
  let res := run (traced c) (k_zshape c) (n_pop (k_levels c)) (k_skip c) (k_levels c) 0 []
                 (k_inputs c) {| th_z := z_in c; th_lab := lab0 |} in
  (fst res, th_z (snd res)).

Definition find_trace (st : mstate) (k : tkey) : option tstate :=
  option_map snd (find (fun kt => key_eqb k (fst kt)) (m_tr st)).

Definition V_rows (rs : list row) : V := Vl (Vl VZ) rs.

Definition files_of (c : c16_case) (st : mstate) : V :=
  Vl (fun k => match find_trace st k with Some t => V_rows (file_content t) | None => VL [] end)
     (k_keys c).
Definition mems_of (c : c16_case) (st : mstate) : V :=
  Vl (fun k => match find_trace st k with Some t => V_rows (t_memrows t) | None => VL [] end)
     (k_keys c).

Fixpoint V_tree (t : tree) : V :=
  match t with
  | Leaf v => VZ v
  | Node es => VL (map (fun ct => VL [VZ (fst ct); V_tree (snd ct)]) es)
  end.

Definition c16_model (c : c16_case) : V :=
  let ev := c16_events c in
  let n0 := hd 1000 (k_thresholds c) in
  let st2 := exec n0 (init_state (k_keys c) true true) (fst ev) in
  VL [ Vl (fun n => files_of c (exec n (init_state (k_keys c) true false) (fst ev)))
          (k_thresholds c);
       (* the same run, and the run in which the first endCollect() raises (rows not consumed),
          the caller consumes them and calls endCollect() again *)
       VL [files_of c st2; mems_of c st2; files_of c (end_attempt st2); mems_of c (end_attempt st2)];
       match snd ev with Some t => V_tree t | None => VL [] end ].

(* ===================================================================== the property oracle
   Written from the property text with a reference semantics of the nest: the iteration space
   is built with filter / lookup (no two-finger walk, no generator, no Metrics state). *)

Definition V_list (v : V) : list V := match v with VL l => l | VZ _ => [] end.
Definition V_z (v : V) : Z := match v with VZ z => z | VL _ => 0 end.
Definition rows_of_V (v : V) : list row := map (fun r => map V_z (V_list r)) (V_list v).
Fixpoint tree_of_V (v : V) : tree :=
  match v with
  | VZ z => Leaf z
  | VL l => Node (map (fun e => match e with
                                | VL [VZ c; t] => (c, tree_of_V t)
                                | _ => (0, Leaf 0)
                                end) l)
  end.

(* elements a level offers below environment e: stored non-empty elements of x, resp. those of
   x whose coordinate is also a stored non-empty element of y *)
Definition pcoord (L : level) (c : Z) : Z := match l_proj L with Some k => c + k | None => c end.
Definition ref_off (L : level) (e : env) (x : nat) : fib :=
  offered_f (l_ufmt L) (l_shape L) (sub e x).

Definition ref_elems (L : level) (e : env) : list (Z * env) :=
  match l_src L with
  | SFib x => map (fun ct => (pcoord L (fst ct), set_nth x (snd ct) e)) (ref_off L e x)
  | SAnd x y =>
    flat_map (fun ct => match lookup (fst ct) (ref_off L e y) with
                        | Some ty => [(fst ct, set_nth y ty (set_nth x (snd ct) e))]
                        | None => []
                        end) (ref_off L e x)
  end.

(* the points of length i the nest reaches, in execution (= lexicographic) order *)
Fixpoint space (lv : list level) (i : nat) (pe : list (list Z * env)) : list (list Z * env) :=
  match i, lv with
  | O, _ => pe
  | S i', L :: lv' =>
    space lv' i' (flat_map (fun q => map (fun ce => (fst q ++ [fst ce], snd ce))
                                         (ref_elems L (snd q))) pe)
  | S _, [] => []
  end.

Fixpoint index_in (c : Z) (es : fib) : option Z :=
  match es with
  | [] => None
  | (c', _) :: es' => if c =? c' then Some 0 else option_map (Z.add 1) (index_in c es')
  end.

Fixpoint enumZ {A} (l : list A) (j : Z) : list (Z * A) :=
  match l with [] => [] | x :: l' => (j, x) :: enumZ l' (j + 1) end.

(* the elements of xs a two-sided walk against a fiber whose largest coordinate is m touches:
   everything up to m, and the first one beyond *)
Fixpoint touched (m : option Z) (xs : fib) : fib :=
  match xs with
  | [] => []
  | (c, t) :: xs' =>
    match m with
    | Some mm => if c <=? mm then (c, t) :: touched m xs' else [(c, t)]
    | None => [(c, t)]
    end
  end.

Fixpoint zdesc (t : tree) (p : list Z) : fib :=
  match t with
  | Leaf _ => []
  | Node es =>
    match p with
    | [] => es
    | c :: p' => match lookup c es with Some t' => zdesc t' p' | None => [] end
    end
  end.

Definition addr (p : list Z) (c : Z) (pos : option Z) : row :=
  p ++ [c; match pos with Some j => j | None => -1 end].

(* number of stored coordinates below c = the position c has / would get in the fiber *)
Definition rank_in (c : Z) (zf : fib) : Z := lenZ (filter (fun ct => fst ct <? c) zf).
Definition mem_fib (c : Z) (zf : fib) : bool := existsb (fun ct => fst ct =? c) zf.

(* position of coordinate c in the fiber of operand x: its coordinate if the rank is
   uncompressed, its index among the stored elements otherwise *)
Definition pos_in (L : level) (e : env) (x : nat) (c : Z) : option Z :=
  if l_ufmt L then Some c else index_in c (sub e x).

(* coordinates + position part of the rows one traversal of level L below (p, e) must leave in
   the trace (kind, label) of the level's own rank (srcrank = false) or of the rank of the
   projected operand (srcrank = true); zi / zf: the populated fiber at p before / after the run *)
Definition expect_at (L : level) (srcrank : bool) (kind label : Z) (zi zf : fib) (p : list Z)
  (e : env) : list row :=
  let base := if l_pop L then 2 else 0 in
  let els := ref_elems L e in
  let isproj := match l_proj L with Some _ => true | None => false end in
  if srcrank then
    (* the loop rank of a projected operand: the iter rows of its own (eager) traversal *)
    if isproj && (kind =? K_ITER) && (label =? 0) then
      match l_src L with
      | SFib x => flat_map (fun jc => if is_empty 0 (snd (snd jc)) then []
                              else [addr p (fst (snd jc)) (Some (fst jc))]) (enumZ (sub e x) 0)
      | SAnd _ _ => []
      end
    else []
  else if kind =? K_ITER then
    if negb (label =? 0) || isproj then [] else
    match l_pop L, l_src L, l_ufmt L with
    | false, SFib x, false =>     (* eager fiber: position = index among the stored elements *)
      flat_map (fun jc => if is_empty 0 (snd (snd jc)) then []
                          else [addr p (fst (snd jc)) (Some (fst jc))]) (enumZ (sub e x) 0)
    | _, _, _ =>                  (* lazy fiber: index in the stream; uncompressed: coordinate *)
      map (fun jc => addr p (fst (snd jc)) (Some (fst jc))) (enumZ els 0)
    end
  else if kind =? K_INT then
    match l_src L with
    | SAnd x y =>
      if label =? base then
        map (fun ct => addr p (fst ct) (pos_in L e x (fst ct)))
            (touched (last_coord (ref_off L e y)) (ref_off L e x))
      else if label =? base + 1 then
        map (fun ct => addr p (fst ct) (pos_in L e y (fst ct)))
            (touched (last_coord (ref_off L e x)) (ref_off L e y))
      else []
    | SFib _ => []
    end
  else if kind =? K_POP then
    if l_pop L && (label =? 1) then
      match l_src L, isproj with
      | SFib x, false => map (fun ce => addr p (fst ce) (pos_in L e x (fst ce))) els
      | _, _ => map (fun jc => addr p (fst (snd jc)) (Some (fst jc))) (enumZ els 0)
      end
    else []
  else if kind =? K_RD then
    if l_pop L && (label =? 0) then
      flat_map (fun ce => if mem_fib (fst ce) zi then [addr p (fst ce) (Some (rank_in (fst ce) zf))]
                          else []) els
    else []
  else if kind =? K_WR then
    if l_pop L && (label =? 0) then
      flat_map (fun ce => if mem_fib (fst ce) zf then [addr p (fst ce) (Some (rank_in (fst ce) zf))]
                          else []) els
    else []
  else [].

(* a populate traversal does not insert when its destination rank is uncompressed, or when its
   first coordinate is not below the largest stored one *)
Definition appending (L : level) (zi : fib) (e : env) : bool :=
  l_zufmt L ||
  match last_coord zi, ref_elems L e with
  | Some m, (c0, _) :: _ => negb (c0 <? m)
  | _, _ => true
  end.

Fixpoint lex_lt (a b : list Z) : bool :=
  match a, b with
  | x :: a', y :: b' => (x <? y) || ((x =? y) && lex_lt a' b')
  | _, _ => false
  end.
Fixpoint lex_le (a b : list Z) : bool :=
  match a, b with
  | x :: a', y :: b' => (x <? y) || ((x =? y) && lex_le a' b')
  | [], [] => true
  | _, _ => false
  end.
Fixpoint chain (R : list Z -> list Z -> bool) (l : list (list Z)) : bool :=
  match l with
  | a :: (b :: _) as l' => R a b && chain R l'
  | _ => true
  end.

Fixpoint list_eqb (a b : list Z) : bool :=
  match a, b with
  | [], [] => true
  | x :: a', y :: b' => (x =? y) && list_eqb a' b'
  | _, _ => false
  end.
Fixpoint rows_eqb (a b : list row) : bool :=
  match a, b with
  | [], [] => true
  | x :: a', y :: b' => list_eqb x y && rows_eqb a' b'
  | _, _ => false
  end.

Definition is_proj (L : level) : bool := match l_proj L with Some _ => true | None => false end.
Definition dflt_level : level :=
  {| l_pop := false; l_src := SFib 0; l_ufmt := false; l_zufmt := false; l_proj := None; l_shape := 0 |}.

(* loop ranks down to level i; the rank of level i is 50 + i when the level iterates a projection *)
Definition ref_ranks (i : nat) (proj : bool) : list Z :=
  iota i ++ [if proj then 50 + Z.of_nat i else Z.of_nat i].
Definition ref_header (i : nat) (proj : bool) : row :=
  map (fun r => 100 + r) (ref_ranks i proj) ++ ref_ranks i proj ++ [-1].

Definition is_zside (kind : Z) : bool := (kind =? K_RD) || (kind =? K_WR).

(* an INSERTING traversal reads the destination while it scans for the insertion points
   (iterators.py: iterRange(old_end, b_coord) before each source coordinate, the element itself
   when it exists): every stored non-empty element of z below the last source coordinate has a
   populate_read row from that scan, and a second one from the final shift when the write trace
   is registered (only then coordinates are staged), a new coordinate was kept before it and it
   is still non-empty at the end *)
Definition read_covered (L : level) (kind label : Z) (i : nat) (wt : bool) (zi zf : fib) (e : env)
  (here : list row) : bool :=
  if (kind =? K_RD) && (label =? 0) && l_pop L then
    let srcs := map fst (ref_elems L e) in
    match rev srcs with
    | m :: _ =>
      let staged := filter (fun s => negb (mem_fib s zi) && mem_fib s zf) srcs in
      forallb (fun ct =>
        is_empty 0 (snd ct) || negb (fst ct <? m) ||
        let n := length (filter (fun rw => nth i rw (-1) =? fst ct) here) in
        let shifted := wt && existsb (fun s => s <? fst ct) staged
                       && existsb (fun ct' => (fst ct' =? fst ct) && negb (is_empty 0 (snd ct'))) zf in
        Nat.leb (if shifted then 2 else 1) n) zi
    | [] => true
    end
  else true.

(* one trace file against the property *)
Definition trace_ok (c : c16_case) (zf : tree) (k : tkey) (content : list row) : bool :=
  let r := key_rank k in
  let srcrank := 50 <=? r in
  let i := Z.to_nat (if srcrank then r - 50 else r) in
  let L := nth i (k_levels c) dflt_level in
  let sp := if (0 <=? r) then space (k_levels c) i [([], k_inputs c)] else [] in
  let reached := match sp with [] => false | _ => Nat.ltb i (length (k_levels c)) end
                 && (negb srcrank || is_proj L) in
  match content with
  | [] => negb reached                      (* never registered: empty, header-less file *)
  | hdr :: rows =>
    let stamps := map (firstn (S i)) rows in
    let rest := map (skipn (S i)) rows in
    reached
    && list_eqb hdr (ref_header i (is_proj L))
    && forallb (fun rw => Nat.eqb (length rw) (2 * S i + 1)) rows
    && chain (if key_kind k =? K_ITER then lex_lt else lex_le) stamps
    && (if key_kind k =? K_PROJ then true
        else if is_zside (key_kind k) && negb srcrank then
          (* destination side of a populate: every row lies below a reached point; traversals
             that do not insert are addressed exactly, inserting ones are stamp-ordered and their
             populate_read rows cover the stored elements below the last source coordinate *)
          forallb (fun rw => existsb (fun q => list_eqb (firstn i rw) (fst q)) sp) rest
          && forallb (fun q =>
               let zi := zdesc (k_z c) (fst q) in
               let here := filter (fun rw => list_eqb (firstn i rw) (fst q)) rest in
               if appending L zi (snd q)
               then rows_eqb here
                             (expect_at L false (key_kind k) (key_label k) zi (zdesc zf (fst q))
                                        (fst q) (snd q))
               else read_covered L (key_kind k) (key_label k) i (traced c (r, K_WR, 0)) zi
                                 (zdesc zf (fst q)) (snd q) here) sp
        else
          rows_eqb rest
            (flat_map (fun q => expect_at L srcrank (key_kind k) (key_label k) [] [] (fst q) (snd q))
                      sp))
  end.

Fixpoint all_ok {A} (f : A -> list row -> bool) (ks : list A) (vs : list V) : bool :=
  match ks, vs with
  | [], [] => true
  | k :: ks', v :: vs' => f k (rows_of_V v) && all_ok f ks' vs'
  | _, _ => false
  end.

(* well-formed cases (what the generator produces) *)
Fixpoint pops_leading (lv : list level) : bool :=
  match lv with
  | [] => true
  | L :: lv' => if l_pop L then pops_leading lv'
                else forallb (fun L' => negb (l_pop L')) lv'
  end.
Definition src_ok (n : nat) (s : src) : bool :=
  match s with SFib x => Nat.ltb x n | SAnd x y => Nat.ltb x n && Nat.ltb y n && negb (Nat.eqb x y) end.
Fixpoint distinct_keys (ks : list tkey) : bool :=
  match ks with [] => true | k :: ks' => negb (existsb (key_eqb k) ks') && distinct_keys ks' end.

(* uncompressed input ranks and projections only at the innermost level; a projection level is a
   populate of a single compressed fiber *)
Fixpoint fmt_ok (lv : list level) : bool :=
  match lv with
  | [] => true
  | [L] => (negb (is_proj L) || (l_pop L && negb (l_ufmt L)
                                 && match l_src L with SFib _ => true | SAnd _ _ => false end))
           && (0 <=? l_shape L)
  | L :: lv' => negb (l_ufmt L) && negb (is_proj L) && fmt_ok lv'
  end.

Definition c16_wf (c : c16_case) : bool :=
  let d := length (k_levels c) in
  Nat.leb 1 d && Nat.leb d 3
  && pops_leading (k_levels c) && fmt_ok (k_levels c)
  && forallb (fun L => src_ok (length (k_inputs c)) (l_src L)) (k_levels c)
  && forallb (fun t => depth_ok d t && sorted_t t) (k_inputs c)
  && match n_pop (k_levels c) with
     | O => true
     | S _ as nz => depth_ok nz (k_z c) && sorted_t (k_z c)
                    && Nat.eqb (length (k_zshape c)) nz
     end
  && distinct_keys (k_keys c)
  && forallb (fun k => 0 <=? key_rank k) (k_keys c)
  && negb (Nat.eqb (length (k_thresholds c)) 0)
  && forallb (fun n => 2 <=? n) (k_thresholds c).

(* the observation has the layout above (re-serialising what was parsed gives it back) *)
Definition V_files (l : list (list row)) : V := Vl V_rows l.
Definition parse_files (v : V) : list (list row) := map rows_of_V (V_list v).
Definition files_wf (f : V) : bool := V_eqb (V_files (parse_files f)) f.

Definition c16_holds (c : c16_case) (o : V) : bool :=
  c16_wf c &&
  match o with
  | VL [VL runs; VL [f2; m2; f3; m3]; z] =>
    forallb files_wf runs && files_wf f2 && files_wf m2 && files_wf f3 && files_wf m3
    && Nat.eqb (length runs) (length (k_thresholds c))
    && match runs with
       | base :: others =>
         all_ok (trace_ok c (tree_of_V z)) (k_keys c) (V_list base)  (* every trace, by the text *)
         && forallb (V_eqb base) others                              (* flush independence *)
         && V_eqb base f2 && V_eqb base m2                           (* consumable: same rows *)
         && V_eqb base f3 && V_eqb base m3                           (* also after a retried endCollect *)
       | [] => false
       end
  | _ => false
  end.

(* known-finding region 1: `&` and the source side of `<<` report positions that skip stored
   empty elements (explicit defaults, empty sub-fibers) of their operands *)
Fixpoint has_empty_elem (t : tree) : bool :=
  match t with
  | Leaf _ => false
  | Node es => existsb (fun ct => is_empty 0 (snd ct) || has_empty_elem (snd ct)) es
  end.

(* a registered trace is affected when it is an intersect_<l> trace of a `&` level, or the
   populate_<source> trace of a `<<` level over a single fiber, and an operand it reads stores
   an empty element *)
Definition affected (c : c16_case) (k : tkey) : bool :=
  let i := Z.to_nat (key_rank k) in
  let L := nth i (k_levels c) dflt_level in
  let emp x := has_empty_elem (nth x (k_inputs c) (Node [])) in
  (0 <=? key_rank k) && (key_rank k <? 50) && negb (l_ufmt L) &&
  if key_kind k =? K_INT then
    match l_src L with SAnd x y => emp x || emp y | SFib _ => false end
  else if key_kind k =? K_POP then
    l_pop L && negb (is_proj L) && match l_src L with SFib x => emp x | SAnd _ _ => false end
  else false.

Definition c16_region (c : c16_case) : Z :=
  if existsb (affected c) (k_keys c) then 1 else 0.

Definition c16_checker : checker c16_case :=
  {| model := c16_model; holds := c16_holds; region := c16_region |}.
