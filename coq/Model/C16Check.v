(* C16Check.v — case type, observation of the faithful model, and the property oracle for C16
   (traces are well-formed).  No proofs in this file.

   Observation layout:
     VL [ VL [files under threshold n | n <- thresholds];      file run (Metrics.trace(r, t))
          VL [files; consumed]                                 run with file + consumable traces
          z after the run ]                                    (VL [] when no tensor is populated)
   files / consumed = one entry per key of the case, each the list of rows of that trace
   (header first, encoded as in C16Metrics; an unstarted trace is the empty list). *)
From Coq Require Import ZArith List Bool.
From FT Require Import Model.Base Model.Obs Model.C16Metrics Model.C16Nest.
Import ListNotations.
Open Scope Z_scope.

Record c16_case := {
  k_levels : list level;          (* the loop nest, outermost first *)
  k_inputs : list tree;           (* root fibers of the input tensors (depth = nest depth) *)
  k_z : tree;                     (* root fiber of the populated tensor before the run *)
  k_zshape : list Z;              (* its (authoritative) rank shapes *)
  k_skip : Z;                     (* innermost body skips points whose coordinate sum is 0 mod k_skip *)
  k_keys : list tkey;             (* traces registered before the run *)
  k_thresholds : list Z }.        (* Metrics.setNumCachedUses values *)

Fixpoint n_pop (lv : list level) : nat :=
  match lv with
  | L :: lv' => if l_pop L then S (n_pop lv') else O
  | [] => O
  end.

Definition traced (c : c16_case) (k : tkey) : bool := existsb (key_eqb k) (k_keys c).
Definition z_in (c : c16_case) : option tree :=
  match n_pop (k_levels c) with O => None | S _ => Some (k_z c) end.

Definition c16_events (c : c16_case) : list mev * option tree :=
  run (traced c) (k_zshape c) (n_pop (k_levels c)) (k_skip c) (k_levels c) 0 [] (k_inputs c)
      (z_in c).

Definition find_trace (st : mstate) (k : tkey) : option tstate :=
  option_map snd (find (fun kt => key_eqb k (fst kt)) (m_tr st)).

Definition V_rows (rs : list row) : V := Vl (Vl VZ) rs.

Definition files_of (c : c16_case) (st : mstate) : V :=
  Vl (fun k => match find_trace st k with Some t => V_rows (file_content t) | None => VL [] end)
     (k_keys c).
Definition mems_of (c : c16_case) (st : mstate) : V :=
  Vl (fun k => match find_trace st k with Some t => V_rows (t_memrows t) | None => VL [] end)
     (k_keys c).

Fixpoint V_tree (t : tree) : V :=
  match t with
  | Leaf v => VZ v
  | Node es => VL (map (fun ct => VL [VZ (fst ct); V_tree (snd ct)]) es)
  end.

Definition c16_model (c : c16_case) : V :=
  let ev := c16_events c in
  let n0 := hd 1000 (k_thresholds c) in
  let st2 := exec n0 (init_state (k_keys c) true true) (fst ev) in
  VL [ Vl (fun n => files_of c (exec n (init_state (k_keys c) true false) (fst ev)))
          (k_thresholds c);
       VL [files_of c st2; mems_of c st2];
       match snd ev with Some t => V_tree t | None => VL [] end ].

(* ===================================================================== the property oracle
   Written from the property text with a reference semantics of the nest: the iteration space
   is built with filter / lookup (no two-finger walk, no generator, no Metrics state). *)

Definition V_list (v : V) : list V := match v with VL l => l | VZ _ => [] end.
Definition V_z (v : V) : Z := match v with VZ z => z | VL _ => 0 end.
Definition rows_of_V (v : V) : list row := map (fun r => map V_z (V_list r)) (V_list v).
Fixpoint tree_of_V (v : V) : tree :=
  match v with
  | VZ z => Leaf z
  | VL l => Node (map (fun e => match e with
                                | VL [VZ c; t] => (c, tree_of_V t)
                                | _ => (0, Leaf 0)
                                end) l)
  end.

(* elements a level offers below environment e: stored non-empty elements of x, resp. those of
   x whose coordinate is also a stored non-empty element of y *)
Definition ref_elems (s : src) (e : env) : list (Z * env) :=
  match s with
  | SFib x => map (fun ct => (fst ct, set_nth x (snd ct) e)) (offered (sub e x))
  | SAnd x y =>
    flat_map (fun ct => match lookup (fst ct) (offered (sub e y)) with
                        | Some ty => [(fst ct, set_nth y ty (set_nth x (snd ct) e))]
                        | None => []
                        end) (offered (sub e x))
  end.

(* the points of length i the nest reaches, in execution (= lexicographic) order *)
Fixpoint space (lv : list level) (i : nat) (pe : list (list Z * env)) : list (list Z * env) :=
  match i, lv with
  | O, _ => pe
  | S i', L :: lv' =>
    space lv' i' (flat_map (fun q => map (fun ce => (fst q ++ [fst ce], snd ce))
                                         (ref_elems (l_src L) (snd q))) pe)
  | S _, [] => []
  end.

Fixpoint index_in (c : Z) (es : fib) : option Z :=
  match es with
  | [] => None
  | (c', _) :: es' => if c =? c' then Some 0 else option_map (Z.add 1) (index_in c es')
  end.

Fixpoint enumZ {A} (l : list A) (j : Z) : list (Z * A) :=
  match l with [] => [] | x :: l' => (j, x) :: enumZ l' (j + 1) end.

(* the elements of xs a two-sided walk against a fiber whose largest coordinate is m touches:
   everything up to m, and the first one beyond *)
Fixpoint touched (m : option Z) (xs : fib) : fib :=
  match xs with
  | [] => []
  | (c, t) :: xs' =>
    match m with
    | Some mm => if c <=? mm then (c, t) :: touched m xs' else [(c, t)]
    | None => [(c, t)]
    end
  end.

Fixpoint zdesc (t : tree) (p : list Z) : fib :=
  match t with
  | Leaf _ => []
  | Node es =>
    match p with
    | [] => es
    | c :: p' => match lookup c es with Some t' => zdesc t' p' | None => [] end
    end
  end.

Definition addr (p : list Z) (c : Z) (pos : option Z) : row :=
  p ++ [c; match pos with Some j => j | None => -1 end].

(* coordinates + position part of the rows one traversal of level L below (p, e) must leave in
   the trace (kind, label); zi / zf: the populated fiber at p before / after the run *)
Definition expect_at (L : level) (kind label : Z) (zi zf : fib) (p : list Z) (e : env)
  : list row :=
  let base := if l_pop L then 2 else 0 in
  let els := ref_elems (l_src L) e in
  if kind =? K_ITER then
    if negb (label =? 0) then [] else
    match l_pop L, l_src L with
    | false, SFib x =>            (* eager fiber: position = index among the stored elements *)
      flat_map (fun jc => if is_empty 0 (snd (snd jc)) then []
                          else [addr p (fst (snd jc)) (Some (fst jc))]) (enumZ (sub e x) 0)
    | _, _ =>                     (* lazy fiber: position = index in the stream it yields *)
      map (fun jc => addr p (fst (snd jc)) (Some (fst jc))) (enumZ els 0)
    end
  else if kind =? K_INT then
    match l_src L with
    | SAnd x y =>
      if label =? base then
        map (fun ct => addr p (fst ct) (index_in (fst ct) (sub e x)))
            (touched (last_coord (offered (sub e y))) (offered (sub e x)))
      else if label =? base + 1 then
        map (fun ct => addr p (fst ct) (index_in (fst ct) (sub e y)))
            (touched (last_coord (offered (sub e x))) (offered (sub e y)))
      else []
    | SFib _ => []
    end
  else if kind =? K_POP then
    if l_pop L && (label =? 1) then
      match l_src L with
      | SFib x => map (fun ce => addr p (fst ce) (index_in (fst ce) (sub e x))) els
      | SAnd _ _ => map (fun jc => addr p (fst (snd jc)) (Some (fst jc))) (enumZ els 0)
      end
    else []
  else if kind =? K_RD then
    if l_pop L && (label =? 0) then
      flat_map (fun ce => match index_in (fst ce) zi with
                          | Some j => [addr p (fst ce) (Some j)] | None => [] end) els
    else []
  else if kind =? K_WR then
    if l_pop L && (label =? 0) then
      flat_map (fun ce => match index_in (fst ce) zf with
                          | Some j => [addr p (fst ce) (Some j)] | None => [] end) els
    else []
  else [].

(* a populate traversal only appends when its first coordinate is not below the largest stored *)
Definition appending (L : level) (zi : fib) (e : env) : bool :=
  match last_coord zi, ref_elems (l_src L) e with
  | Some m, (c0, _) :: _ => negb (c0 <? m)
  | _, _ => true
  end.

Fixpoint lex_lt (a b : list Z) : bool :=
  match a, b with
  | x :: a', y :: b' => (x <? y) || ((x =? y) && lex_lt a' b')
  | _, _ => false
  end.
Fixpoint lex_le (a b : list Z) : bool :=
  match a, b with
  | x :: a', y :: b' => (x <? y) || ((x =? y) && lex_le a' b')
  | [], [] => true
  | _, _ => false
  end.
Fixpoint chain (R : list Z -> list Z -> bool) (l : list (list Z)) : bool :=
  match l with
  | a :: (b :: _) as l' => R a b && chain R l'
  | _ => true
  end.

Fixpoint list_eqb (a b : list Z) : bool :=
  match a, b with
  | [], [] => true
  | x :: a', y :: b' => (x =? y) && list_eqb a' b'
  | _, _ => false
  end.
Fixpoint rows_eqb (a b : list row) : bool :=
  match a, b with
  | [], [] => true
  | x :: a', y :: b' => list_eqb x y && rows_eqb a' b'
  | _, _ => false
  end.

Definition ref_header (i : nat) : row := map (fun r => 100 + r) (iota (S i)) ++ iota (S i) ++ [-1].

Definition is_zside (kind : Z) : bool := (kind =? K_RD) || (kind =? K_WR).

(* one trace file against the property *)
Definition trace_ok (c : c16_case) (zf : tree) (k : tkey) (content : list row) : bool :=
  let r := key_rank k in
  let i := Z.to_nat r in
  let sp := if (0 <=? r) then space (k_levels c) i [([], k_inputs c)] else [] in
  let reached := match sp with [] => false | _ => Nat.ltb i (length (k_levels c)) end in
  match content with
  | [] => negb reached                      (* never registered: empty, header-less file *)
  | hdr :: rows =>
    let L := nth i (k_levels c) {| l_pop := false; l_src := SFib 0 |} in
    let stamps := map (firstn (S i)) rows in
    let rest := map (skipn (S i)) rows in
    reached
    && list_eqb hdr (ref_header i)
    && forallb (fun rw => Nat.eqb (length rw) (2 * S i + 1)) rows
    && chain (if key_kind k =? K_ITER then lex_lt else lex_le) stamps
    && (if is_zside (key_kind k) then
          (* destination side of a populate: every row lies below a reached point; traversals
             that only append are addressed exactly, inserting ones are only stamp-ordered *)
          forallb (fun rw => existsb (fun q => list_eqb (firstn i rw) (fst q)) sp) rest
          && forallb (fun q =>
               let zi := zdesc (k_z c) (fst q) in
               negb (appending L zi (snd q))
               || rows_eqb (filter (fun rw => list_eqb (firstn i rw) (fst q)) rest)
                           (expect_at L (key_kind k) (key_label k) zi (zdesc zf (fst q))
                                      (fst q) (snd q))) sp
        else
          rows_eqb rest
            (flat_map (fun q => expect_at L (key_kind k) (key_label k) [] [] (fst q) (snd q)) sp))
  end.

Fixpoint all_ok {A} (f : A -> list row -> bool) (ks : list A) (vs : list V) : bool :=
  match ks, vs with
  | [], [] => true
  | k :: ks', v :: vs' => f k (rows_of_V v) && all_ok f ks' vs'
  | _, _ => false
  end.

(* well-formed cases (what the generator produces) *)
Fixpoint pops_leading (lv : list level) : bool :=
  match lv with
  | [] => true
  | L :: lv' => if l_pop L then pops_leading lv'
                else forallb (fun L' => negb (l_pop L')) lv'
  end.
Definition src_ok (n : nat) (s : src) : bool :=
  match s with SFib x => Nat.ltb x n | SAnd x y => Nat.ltb x n && Nat.ltb y n && negb (Nat.eqb x y) end.
Fixpoint distinct_keys (ks : list tkey) : bool :=
  match ks with [] => true | k :: ks' => negb (existsb (key_eqb k) ks') && distinct_keys ks' end.

Definition c16_wf (c : c16_case) : bool :=
  let d := length (k_levels c) in
  Nat.leb 1 d && Nat.leb d 3
  && pops_leading (k_levels c)
  && forallb (fun L => src_ok (length (k_inputs c)) (l_src L)) (k_levels c)
  && forallb (fun t => depth_ok d t && sorted_t t) (k_inputs c)
  && match n_pop (k_levels c) with
     | O => true
     | S _ as nz => depth_ok nz (k_z c) && sorted_t (k_z c)
                    && Nat.eqb (length (k_zshape c)) nz
     end
  && distinct_keys (k_keys c)
  && forallb (fun k => 0 <=? key_rank k) (k_keys c)
  && negb (Nat.eqb (length (k_thresholds c)) 0)
  && forallb (fun n => 2 <=? n) (k_thresholds c).

(* the observation has the layout above (re-serialising what was parsed gives it back) *)
Definition V_files (l : list (list row)) : V := Vl V_rows l.
Definition parse_files (v : V) : list (list row) := map rows_of_V (V_list v).
Definition files_wf (f : V) : bool := V_eqb (V_files (parse_files f)) f.

Definition c16_holds (c : c16_case) (o : V) : bool :=
  c16_wf c &&
  match o with
  | VL [VL runs; VL [f2; m2]; z] =>
    forallb files_wf runs && files_wf f2 && files_wf m2
    && Nat.eqb (length runs) (length (k_thresholds c))
    && match runs with
       | base :: others =>
         all_ok (trace_ok c (tree_of_V z)) (k_keys c) (V_list base)  (* every trace, by the text *)
         && forallb (V_eqb base) others                              (* flush independence *)
         && V_eqb base f2 && V_eqb base m2                           (* consumable: same rows *)
       | [] => false
       end
  | _ => false
  end.

(* known-finding region 1: some input tensor stores an empty element (explicit default or empty
   sub-fiber); `&`, the source side of `<<` then report positions that skip those elements *)
Fixpoint has_empty_elem (t : tree) : bool :=
  match t with
  | Leaf _ => false
  | Node es => existsb (fun ct => is_empty 0 (snd ct) || has_empty_elem (snd ct)) es
  end.

Definition c16_region (c : c16_case) : Z :=
  if existsb has_empty_elem (k_inputs c) then 1 else 0.

Definition c16_checker : checker c16_case :=
  {| model := c16_model; holds := c16_holds; region := c16_region |}.
