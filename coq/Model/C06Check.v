(* C06Check.v — executable check for C06 (correspondence + property oracle).

   Encoding of loop variables: base index variable v is loop variable 2v (dbl v); when v is
   tiled, 2v is the in-tile variable and 2v+1 the tile variable.  Environments bind loop
   variables.  The oracle [c06_holds] never runs a nest and never looks at the loop order
   except to know in which rank order the output was produced: it enumerates the output index
   space and evaluates the expression from the ORIGINAL operands by nested range sums. *)
From Coq Require Import ZArith List Bool PeanoNat.
From FT Require Import Model.Base Model.Obs Model.C06Kernel.
Import ListNotations.
Open Scope Z_scope.

Record c06_case := {
  k_out   : list nat;                 (* base variables of the output *)
  k_ops   : list (list nat * tree);   (* operands: base variables in rank order, tree *)
  k_shape : list Z;                   (* extent of every base variable *)
  k_order : list lvar;                (* loop order *)
  k_tiles : list (nat * Z);           (* uniformly tiled base variables with their step *)
  k_style : Z                         (* 0 nested &, 1 Fiber.intersection, 2 leader-follower *)
}.

Definition nvars (c : c06_case) : nat := length (k_shape c).
Definition lsh (c : c06_case) : lvar -> nat := lshape (k_shape c).
Definition zvars (c : c06_case) : list lvar := lvars_of (k_order c) (k_out c).
Definition tops (c : c06_case) : list op :=
  map (transform (k_shape c) (k_tiles c) (k_order c)) (k_ops c).
Definition z0 (c : c06_case) : tree := dflt (zvars c).   (* empty output tensor *)

(* ---- model *)
Definition c06_run (c : c06_case) : tree :=
  run (k_style c) (k_order c) (tops c) (zvars c) (z0 c).

Fixpoint V_of_tree (t : tree) : V :=
  match t with
  | Leaf v => VZ v
  | Node es => VL (map (fun ct => VL [VZ (fst ct); V_of_tree (snd ct)]) es)
  end.

Definition V_content (l : list (list Z * Z)) : V := Vl (Vp (Vl VZ) VZ) l.

(* observation: raw output tree; content of every transformed (split + swizzled) operand *)
Definition c06_model (c : c06_case) : V :=
  VL [V_of_tree (c06_run c); Vl (fun o => V_content (content 0 (snd o))) (tops c)].

(* ---- reading a tree back from an observation *)
Fixpoint V_is_tree (v : V) : bool :=
  match v with
  | VZ _ => true
  | VL l => forallb (fun e => match e with
                              | VL [VZ _; s] => V_is_tree s
                              | _ => false
                              end) l
  end.

Fixpoint tree_of_V (v : V) : tree :=
  match v with
  | VZ z => Leaf z
  | VL l => Node (map (fun e => match e with
                                | VL [VZ c; s] => (c, tree_of_V s)
                                | _ => (0, Leaf 0)
                                end) l)
  end.

(* ---- the dense mathematical result *)
(* Σ over the listed variables, each over 0..shape-1, innermost function on the environment *)
Fixpoint dsum (vars : list lvar) (sh : lvar -> nat) (e : env) (f : env -> Z) : Z :=
  match vars with
  | [] => f e
  | v :: vs => sumZ (map (fun x => dsum vs sh ((v, x) :: e) f) (iota (sh v)))
  end.

Definition all_vars (c : c06_case) : list nat := seq 0 (nvars c).
Definition contracted (c : c06_case) : list nat :=
  filter (fun v => negb (memN v (k_out c))) (all_vars c).

(* product of the original operands at the point the environment assigns to their variables *)
Definition term (c : c06_case) (e : env) : Z :=
  prodZ (map (fun o => sem (snd o) (map (fun b => getv e (dbl b)) (fst o))) (k_ops c)).

Definition dense_val (c : c06_case) (e : env) : Z :=
  dsum (map dbl (contracted c)) (lsh c) e (term c).

Fixpoint box (shapes : list nat) : list (list Z) :=
  match shapes with
  | [] => [[]]
  | s :: ss => flat_map (fun x => map (cons x) (box ss)) (iota s)
  end.

(* value expected at a point of the output as produced (rank order = output loop variables in
   loop order; a tiled output variable appears as tile coordinate + coordinate) *)
Definition expected_at (c : c06_case) (p : list Z) : Z :=
  let e := combine (zvars c) p in
  if consistent (k_tiles c) e (zvars c) then dense_val c e else 0.

Definition dense_content (c : c06_case) : list (list Z * Z) :=
  filter (fun pv => negb (Z.eqb (snd pv) 0))
         (map (fun p => (p, expected_at c p)) (box (map (lsh c) (zvars c)))).

(* ---- well-formed cases *)
Fixpoint nodupN (l : list nat) : bool :=
  match l with [] => true | x :: l' => negb (memN x l') && nodupN l' end.

(* coordinates strictly ascending and inside the shape, leaves exactly at the bottom *)
Fixpoint wft (shapes : list nat) (t : tree) : bool :=
  match t, shapes with
  | Leaf _, [] => true
  | Node es, s :: ss =>
    ssorted (map fst es)
    && forallb (fun ct => Z.leb 0 (fst ct) && Z.ltb (fst ct) (Z.of_nat s) && wft ss (snd ct)) es
  | _, _ => false
  end.

Definition tiled (c : c06_case) (v : nat) : bool := memN v (map fst (k_tiles c)).

(* the loop variables a case must have: 2v for every variable, 2v+1 for the tiled ones *)
Definition wf_order (c : c06_case) : bool :=
  nodupN (k_order c)
  && forallb (fun l => Nat.ltb (base_of l) (nvars c) && (negb (Nat.odd l) || tiled c (base_of l)))
             (k_order c)
  && forallb (fun v => memN (dbl v) (k_order c)) (all_vars c)
  && forallb (fun v => memN (S (dbl v)) (k_order c)) (map fst (k_tiles c)).

Definition c06_wf (c : c06_case) : bool :=
  wf_order c
  && nodupN (k_out c) && forallb (fun v => Nat.ltb v (nvars c)) (k_out c)
  && nodupN (map fst (k_tiles c))
  && forallb (fun vs => Nat.ltb (fst vs) (nvars c) && Z.ltb 0 (snd vs)) (k_tiles c)
  && forallb (fun o => nodupN (fst o) && forallb (fun v => Nat.ltb v (nvars c)) (fst o)
                       && wft (map (fun v => lsh c (dbl v)) (fst o)) (snd o)) (k_ops c)
  && forallb (fun v => existsb (fun o => memN v (fst o)) (k_ops c)) (all_vars c).

(* ---- the property, evaluated on an observation *)
Fixpoint content_eqb (a b : list (list Z * Z)) : bool :=
  match a, b with
  | [], [] => true
  | (p, v) :: a', (q, w) :: b' =>
    (fix leq (x y : list Z) : bool :=
       match x, y with
       | [], [] => true
       | i :: x', j :: y' => Z.eqb i j && leq x' y'
       | _, _ => false
       end) p q && Z.eqb v w && content_eqb a' b'
  | _, _ => false
  end.

Definition c06_holds (c : c06_case) (o : V) : bool :=
  c06_wf c &&
  match o with
  | VL (zt :: _) => V_is_tree zt && content_eqb (content 0 (tree_of_V zt)) (dense_content c)
  | _ => false
  end.

Definition c06_checker : checker c06_case :=
  {| model := c06_model; holds := c06_holds; region := fun _ => 0 |}.
