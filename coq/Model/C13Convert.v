(* C13Convert.v — model of the conversions between representations (property C13):

     Fiber.fromUncompressed / _makeFiber          fiber.py:349-434
     Fiber.getShape (unowned, all_ranks)          fiber.py:2604-2663
     Tensor._calc_shape                           tensor.py:304-322
     Fiber.uncompress / _fillempty                fiber.py:2890-2964   (with the S10 fix)
     Fiber.fiber2dict / dict2fiber, payload2dict  fiber.py:4864-4917, payload.py:669-684
     Tensor.dump / parse / fromYAMLfile / Tensor(yamlfile)
                                                  tensor.py:118-149, 218-246, 1944-2025
                                                  (with the S13 fixes)
     Fiber.fromRandom / Tensor.fromRandom         fiber.py:437-522, tensor.py:387-431

   Values are Z (the harness maps Python ints / dyadic floats to Z injectively and
   monotonically; the code only ever compares values with == / != so the int/float type is
   not observable).  The YAML text layer (PyYAML) and the Mersenne Twister are outside the
   model: the model starts at the dictionary form and at an abstract stream of draws.
   No proofs in this file. *)
From Coq Require Import ZArith List Bool.
From FT Require Import Model.Base.
Import ListNotations.
Open Scope Z_scope.

(* ------------------------------------------------------------------ uncompressed nests *)

Inductive nest := NLeaf (v : Z) | NList (l : list nest).

Section NestInd.
  Variable P : nest -> Prop.
  Hypothesis HLeaf : forall v, P (NLeaf v).
  Hypothesis HList : forall l, Forall P l -> P (NList l).
  Fixpoint nest_ind' (n : nest) : P n :=
    match n with
    | NLeaf v => HLeaf v
    | NList l => HList l
        ((fix go (l : list nest) : Forall P l :=
            match l with
            | [] => Forall_nil _
            | x :: l' => Forall_cons x (nest_ind' x) (go l')
            end) l)
    end.
End NestInd.

(* rectangular nest of dimensions dims: lists of exactly these lengths, leaves at depth |dims| *)
Fixpoint rect (dims : list Z) (n : nest) {struct n} : bool :=
  match n, dims with
  | NLeaf _, [] => true
  | NList l, s :: dims' => Z.eqb (Z.of_nat (length l)) s && forallb (rect dims') l
  | _, _ => false
  end.

Definition dims_ok (dims : list Z) : bool :=
  negb (match dims with [] => true | _ => false end) && forallb (fun s => 0 <? s) dims.

(* ---- _makeFiber (fiber.py:389-434).  Python returns None for a list whose entries are all
   default (leaf level: [zipped] empty, l.403-410; interior level: every recursive call
   returned None, l.416-426).  The Python code decides leaf level / interior level from
   payload_list[0] (l.395, 412); on rectangular nests (the property's domain) every element of
   a list is of the same kind, so the per-element split below is the same case split.
   Coordinates are enumerate() positions (l.403). *)
Section MkElems.
  Variable mk : nest -> option tree.
  Variable d : Z.
  Fixpoint mk_elems (c : Z) (l : list nest) : fib :=
    match l with
    | [] => []
    | x :: l' =>
      match x with
      | NLeaf v => if Z.eqb v d                                   (* p != default, l.403 *)
                   then mk_elems (c + 1) l'
                   else (c, Leaf v) :: mk_elems (c + 1) l'
      | NList _ => match mk x with                                (* l.416-420 *)
                   | Some t => (c, t) :: mk_elems (c + 1) l'
                   | None => mk_elems (c + 1) l'
                   end
      end
    end.
End MkElems.

Fixpoint make_fiber (d : Z) (n : nest) : option tree :=
  match n with
  | NLeaf _ => None                     (* not reached: _makeFiber asserts a list, l.393 *)
  | NList l =>
    match mk_elems (make_fiber d) d 0 l with
    | [] => None                        (* l.408-410 and l.425-426 *)
    | es => Some (Node es)              (* Fiber(coords, payloads, shape=len, default), l.434 *)
    end
  end.

(* fromUncompressed (349-386): None -> Fiber([], [], shape=len(payload_list)) *)
Definition from_uncompressed (d : Z) (n : nest) : tree :=
  match make_fiber d n with Some t => t | None => Node [] end.

(* ---- Fiber.getShape() of that (unowned) fiber (fiber.py:2635-2652): own shape attribute
   (= len(payload_list), given at construction) followed by the element-wise maximum of the
   shapes of the stored (hence non-empty) sub-fibers; rest[] grows as needed *)
Fixpoint zipmax (a b : list Z) : list Z :=
  match a, b with
  | [], _ => b
  | _, [] => a
  | x :: a', y :: b' => Z.max x y :: zipmax a' b'
  end.

Definition stored (d : Z) (x : nest) : bool :=
  match make_fiber d x with Some _ => true | None => false end.

Fixpoint fiber_shape (d : Z) (n : nest) : list Z :=
  match n with
  | NLeaf _ => []
  | NList l =>
    Z.of_nat (length l)
    :: fold_left zipmax (map (fun x => if stored d x then fiber_shape d x else []) l) []
  end.

(* ---- Tensor._calc_shape (tensor.py:304-322): shape = [len(ll)]; leaf list -> done;
   one element -> extend with calc(ll[0]); else max of calc(ll[0]) and calc(ll[1:])[1:],
   zip-truncated *)
Fixpoint zipmax_trunc (a b : list Z) : list Z :=
  match a, b with
  | x :: a', y :: b' => Z.max x y :: zipmax_trunc a' b'
  | _, _ => []
  end.

Section CalcRest.
  Variable calc : nest -> list Z.
  Fixpoint calc_rest (l : list nest) : list Z :=   (* calc(l)[1:] *)
    match l with
    | [] => []                                      (* not reached: ll[0] of an empty list *)
    | x :: l' =>
      match x with
      | NLeaf _ => []                               (* l.310-311 *)
      | NList _ => match l' with
                   | [] => calc x                   (* l.313-315 *)
                   | _ => zipmax_trunc (calc x) (calc_rest l')   (* l.317-320 *)
                   end
      end
    end.
End CalcRest.

Fixpoint calc_shape (n : nest) : list Z :=
  match n with
  | NLeaf _ => []
  | NList l => Z.of_nat (length l) :: calc_rest calc_shape l
  end.

(* ---- _fillempty (fiber.py:2943-2964, with the S10 fix): a nest of the remaining
   dimensions filled with the leaf default *)
Fixpoint fill_empty (d : Z) (shape : list Z) : nest :=
  match shape with
  | [] => NLeaf d
  | s :: shape' => NList (repeat (fill_empty d shape') (Z.to_nat s))
  end.

(* ---- uncompress (fiber.py:2890-2940): two-finger union (iterators.py:885-943) of the
   fiber's non-empty elements (operand a, iterOccupancy skips empty payloads) with
   shape_fiber = coordinates 0..shape[level]-1 (operand b).
     mask AB -> recurse / unboxed leaf;  mask B -> _fillempty;  mask A -> nothing appended.
   [c] is b's current coordinate, [n] the number of b's coordinates left. *)
Definition unc_elems (d : Z) (unc : tree -> nest) (fill : nest) : fib -> Z -> nat -> list nest :=
  fix goA (es : fib) : Z -> nat -> list nest :=
    match es with
    | [] => fun _ n => repeat fill n                     (* b's tail, l.936-943 *)
    | (a, t) :: es' =>
      if is_empty d t then goA es'                       (* not yielded by a's iterator *)
      else fix goB (c : Z) (n : nat) : list nest :=
             match n with
             | O => []                                   (* a's tail: mask A, nothing appended *)
             | S n' =>
               if Z.eqb a c then unc t :: goA es' (c + 1) n'          (* AB *)
               else if Z.ltb a c then goA es' c n                     (* A *)
               else fill :: goB (c + 1) n'                            (* B *)
             end
    end.

Fixpoint uncompress (d : Z) (shape : list Z) (t : tree) : nest :=
  match t with
  | Leaf v => NLeaf v
  | Node es =>
    match shape with
    | [] => NList []                    (* not reached: shape[level] would raise *)
    | s :: shape' =>
      NList (unc_elems d (uncompress d shape') (fill_empty d shape') es 0 (Z.to_nat s))
    end
  end.

(* ------------------------------------------------------------------ dictionary form *)

(* {'fiber': {'coords': cs, 'payloads': ps}}  |  a bare value *)
Inductive ydict := YVal (v : Z) | YFiber (coords : list Z) (payloads : list ydict).

(* fiber2dict (4909-4917) / payload2dict (payload.py:669-684) *)
Fixpoint fiber2dict (t : tree) : ydict :=
  match t with
  | Leaf v => YVal v
  | Node es => YFiber (map fst es) (map (fun ct => fiber2dict (snd ct)) es)
  end.

Fixpoint all_some {A} (l : list (option A)) : option (list A) :=
  match l with
  | [] => Some []
  | None :: _ => None
  | Some x :: l' => match all_some l' with Some r => Some (x :: r) | None => None end
  end.

(* dict2fiber (4864-4905); None = the Fiber constructor's length assertion (fiber.py:221) *)
Fixpoint dict2fiber (y : ydict) : option tree :=
  match y with
  | YVal v => Some (Leaf v)
  | YFiber cs ps =>
    match all_some (map dict2fiber ps) with
    | Some ts => if Nat.eqb (length cs) (length ts) then Some (Node (combine cs ts)) else None
    | None => None
    end
  end.

(* a tensor as far as dump / parse see it; rank ids and the name are opaque codes *)
Record tens := { t_ids : list Z; t_shape : list Z; t_name : Z; t_root : tree }.
Record ytens := { y_ids : list Z; y_shape : list Z; y_name : Z; y_root : ydict }.

(* Tensor.dump (tensor.py:2008-2025) up to yaml.dump *)
Definition tensor2dict (T : tens) : ytens :=
  {| y_ids := t_ids T; y_shape := t_shape T; y_name := t_name T;
     y_root := fiber2dict (t_root T) |}.

(* Tensor.parse (1944-2005) from yaml.safe_load's result on, then fromYAMLfile (218-246,
   with the S13 fix: the name is passed on) and, identically, Tensor(yamlfile) (136-149, with
   the rank-0 fix).  A non-Fiber root makes a rank-0 tensor with rank_ids = []. *)
Definition from_yaml (y : ytens) : option tens :=
  match dict2fiber (y_root y) with
  | None => None
  | Some (Leaf v) => Some {| t_ids := []; t_shape := y_shape y; t_name := y_name y;
                             t_root := Leaf v |}
  | Some (Node es) => Some {| t_ids := y_ids y; t_shape := y_shape y; t_name := y_name y;
                              t_root := Node es |}
  end.

(* ------------------------------------------------------------------ fromRandom *)

(* abstract draw stream: every call of random.random() / random.randint(1, n) consumes one
   element x; random() = (x mod 1000)/1000, randint(1, n) = 1 + x mod n; an exhausted
   stream yields 0.  Densities are in thousandths. *)
Definition pop (draws : list Z) : Z * list Z :=
  match draws with [] => (0, []) | x :: r => (x, r) end.

(* density scalar -> (len(shape)-1)*[1.0] + [density]  (fiber.py:479-483) *)
Definition expand_density (scalar : bool) (dens : list Z) (rank : nat) : list Z :=
  if scalar then repeat 1000 (rank - 1) ++ [hd 0 dens] else dens.

(* Fiber.fromRandom (fiber.py:495-522): the loop over c in range(shape[0]); [sub] is the
   recursive call for the ranks below (None at the leaf rank) *)
Section RandLoop.
  Variable sub : option (list Z -> fib * list Z).
  Variables den interval d : Z.
  Fixpoint rand_loop (n : nat) (c : Z) (draws : list Z) {struct n} : fib * list Z :=
    match n with
    | O => ([], draws)
    | S n' =>
      let (u, draws1) := pop draws in
      if Z.ltb (u mod 1000) den                                   (* l.499 *)
      then match sub with
           | None =>                                              (* l.500-503 *)
             let (r, draws2) := pop draws1 in
             let payload := 1 + r mod interval in
             let (rest, draws3) := rand_loop n' (c + 1) draws2 in
             if Z.eqb payload d then (rest, draws3)
             else ((c, Leaf payload) :: rest, draws3)
           | Some below =>                                        (* l.505-510 *)
             let (sb, draws2) := below draws1 in
             let (rest, draws3) := rand_loop n' (c + 1) draws2 in
             if is_empty d (Node sb) then (rest, draws3)
             else ((c, Node sb) :: rest, draws3)
           end
      else                                                        (* l.511-515 *)
        let (rest, draws3) := rand_loop n' (c + 1) draws1 in
        if Z.eqb d 0 then (rest, draws3) else ((c, Leaf 0) :: rest, draws3)
    end.
End RandLoop.

Fixpoint from_random (shape dens : list Z) (interval d : Z) {struct shape}
  : list Z -> fib * list Z :=
  match shape with
  | [] => fun draws => ([], draws)
  | s :: shape' =>
    rand_loop (match shape' with
               | [] => None
               | _ => Some (from_random shape' (tl dens) interval d)
               end) (hd 0 dens) interval d (Z.to_nat s) 0
  end.

(* ------------------------------------------------------------------ specification side *)

(* value of the nest at a point (None: outside the nest) *)
Fixpoint nest_get (n : nest) (p : list Z) : option Z :=
  match p, n with
  | [], NLeaf v => Some v
  | c :: p', NList l => if Z.ltb c 0 then None
                        else match nth_error l (Z.to_nat c) with
                             | Some x => nest_get x p'
                             | None => None
                             end
  | _, _ => None
  end.

(* value of the fibertree at a point: the stored leaf, the default where nothing is stored *)
Fixpoint tree_get (d : Z) (t : tree) (p : list Z) : option Z :=
  match p, t with
  | [], Leaf v => Some v
  | c :: p', Node es => match lookup c es with
                        | Some t' => tree_get d t' p'
                        | None => Some d
                        end
  | _, _ => None
  end.

(* every point of the box 0..dims-1 *)
Fixpoint all_points (dims : list Z) : list (list Z) :=
  match dims with
  | [] => [[]]
  | s :: dims' => flat_map (fun c => map (cons c) (all_points dims')) (iota (Z.to_nat s))
  end.

(* no explicit default and no empty sub-fiber stored anywhere *)
Fixpoint canonical (d : Z) (t : tree) : bool :=
  match t with
  | Leaf v => negb (Z.eqb v d)
  | Node es => forallb (fun ct => canonical d (snd ct)
                                  && negb (match snd ct with Node [] => true | _ => false end)) es
  end.

(* the top fiber itself may be empty; its elements may not *)
Definition canonical_top (d : Z) (t : tree) : bool :=
  match t with
  | Leaf _ => false
  | Node es => canonical d (Node es)
  end.

(* all coordinates inside the shape, nothing below the last rank *)
Fixpoint in_shape (shape : list Z) (t : tree) {struct t} : bool :=
  match t with
  | Leaf _ => true
  | Node es =>
    match shape with
    | [] => match es with [] => true | _ => false end
    | s :: shape' =>
      forallb (fun ct => Z.leb 0 (fst ct) && Z.ltb (fst ct) s && in_shape shape' (snd ct)) es
    end
  end.

Fixpoint zlist_eqb (a b : list Z) : bool :=
  match a, b with
  | [], [] => true
  | x :: a', y :: b' => Z.eqb x y && zlist_eqb a' b'
  | _, _ => false
  end.

(* every coordinate of the box is occupied by a non-default leaf *)
Fixpoint full_box (d : Z) (shape : list Z) (t : tree) {struct t} : bool :=
  match shape, t with
  | [], Leaf v => negb (Z.eqb v d)
  | s :: shape', Node es =>
    zlist_eqb (map fst es) (iota (Z.to_nat s))
    && forallb (fun ct => full_box d shape' (snd ct)) es
  | _, _ => false
  end.
