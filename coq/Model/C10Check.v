(* C10Check.v — executable check for C10: case type, observation, canonical numbering of
   object identities, and the property oracle (evaluated on the implementation's observation).

   A snapshot of one side is observed as  [structure; labels; rank lists; owners]:
     structure  = the tree without identities (coordinates, leaf values)
     labels     = the identity numbers of every object met, in visiting order (fiber, its
                  attrs object, the attrs' default object, its owner rank, then the elements;
                  for a tensor afterwards rank by rank: rank, attrs, default, listed fibers)
     rank lists = per rank the identity numbers of the listed fibers
   Identity numbers are first-visit numbers over the whole sequence of snapshots of the case
   (the harness numbers id() values the same way), so equal numbers = the same object. *)
From Coq Require Import ZArith List Bool PeanoNat.
From FT Require Import Model.Base Model.Obs Model.C08Split Model.C10Model.
Import ListNotations.
Local Open Scope nat_scope.

Inductive c10_case :=
| CV (n : nat) (d : Z) (o : vop) (ops : list pt)   (* value-returning op; n ranks (0: unowned fibers); leaf default d *)
| CR (n : nat) (a b : pt) (obs : list robs)    (* observers on the tensors a (and b), n ranks *)
| CV2 (n : nat) (d : Z) (o1 o2 : vop) (t : pt) (* o2 applied to the result of o1 *)
| CJ (n : nat) (d : Z) (o1 : vop) (t : pt).    (* a rejected call on the result of o1 *)

Definition D : Z := 0%Z.                        (* leaf default of the read-only cases *)

(* ---- canonical numbering *)
Fixpoint dedup (seen : list N) (l : list N) : list N :=
  match l with
  | [] => []
  | x :: l' => if mem x seen then dedup seen l' else x :: dedup (x :: seen) l'
  end.
Fixpoint index_of (x : N) (l : list N) : N :=
  match l with
  | [] => 0%N
  | y :: l' => if N.eqb x y then 0%N else N.succ (index_of x l')
  end.
Definition canon_of (snaps : list snapshot) : N -> N :=
  let order := dedup [] (flat_map snap_labels snaps) in fun l => index_of l order.

(* ---- encoding *)
Definition enc_coord (c : coord) : V := VL (map VZ c).
Fixpoint enc_et (t : et) : V :=
  match t with
  | EL v => VZ v
  | EN es => VL (map (fun ct => VL [enc_coord (fst ct); enc_et (snd ct)]) es)
  end.
Definition enc_labs (r : N -> N) (l : list N) : V := VL (map (fun x => VZ (Z.of_N (r x))) l).
(* the owner every fiber reports, DFS order: -1 = none, otherwise the position of the owner in
   the snapshot's own rank list (= number of ranks when it is some other rank object) *)
Fixpoint owners (t : lt) : list (option N) :=
  match t with
  | LB _ _ => []
  | LF _ a es => a_own a :: flat_map (fun ct => owners (snd ct)) es
  end.
Definition owner_code (rs : list rk) (o : option N) : V :=
  match o with
  | None => VZ (-1)%Z
  | Some x => VZ (Z.of_N (index_of x (map r_lab rs)))
  end.
Definition enc_snap (r : N -> N) (s : snapshot) : V :=
  VL [enc_et (erase (s_tree s)); enc_labs r (snap_labels s);
      VL (map (fun x => enc_labs r (r_fibers x)) (s_ranks s));
      VL (map (owner_code (s_ranks s)) (owners (s_tree s)))].

(* ---- the model's observation *)
Fixpoint load_all (n : nat) (ts : list pt) (nx : N) : list snapshot * N :=
  match ts with
  | [] => ([], nx)
  | t :: ts' => let '(s, n1) := load_snap n t nx in
                let '(r, n2) := load_all n ts' n1 in (s :: r, n2)
  end.

Record cv_trace := { t_s0 : list snapshot; t_s1 : list snapshot; t_sr : snapshot;
                     t_s2 : list snapshot; t_sr1 : snapshot; t_sr2 : snapshot }.

(* the sequence the harness performs: snapshot, operation, snapshot both sides, mutate the
   result (every box +7, every fiber's coordinates +1000, every rank list extended), snapshot,
   mutate the operands (+5), snapshot the result *)
Definition trace_of (fixed : bool) (n : nat) (d : Z) (o : vop) (ops : list snapshot) (nx : N)
  : option cv_trace :=
  match run_vop fixed d n o ops nx with
  | None => None
  | Some r =>
    let Sr := side_labels (v_res r) in
    let s2 := map (mutate_snap Sr 7%Z) (v_ops r) in
    let sr1 := mutate_snap Sr 7%Z (v_res r) in
    let So := flat_map side_labels s2 in
    Some {| t_s0 := ops; t_s1 := v_ops r; t_sr := v_res r; t_s2 := s2; t_sr1 := sr1;
            t_sr2 := mutate_snap So 5%Z sr1 |}
  end.
Definition cv_run (fixed : bool) (n : nat) (d : Z) (o : vop) (ts : list pt) : option cv_trace :=
  let '(ops, nx) := load_all n ts 0%N in trace_of fixed n d o ops nx.

(* number of ranks of the result (0 = an unowned fiber) *)
Definition res_ranks (n : nat) (o : vop) : nat :=
  match o with
  | VCopy | VSwap | VUpdCoords _ | VUpdPayloads _ => n
  | VSplit _ _ | VUnflatten => match n with O => O | _ => S n end
  | VFlatten => pred n
  | VArith _ | VCopyNoOwner => O
  | VFromFiber None => n
  | VFromFiber (Some _) => pred n
  end.

(* two-step histories: the result of a first value-returning operation is the operand of a
   second one (CV2) or of a call that is rejected with an exception (CJ) *)
Definition first_step (fixed : bool) (n : nat) (d : Z) (o1 : vop) (t : pt) : option vres :=
  let '(ops, nx) := load_all n [t] 0%N in run_vop fixed d n o1 ops nx.
Definition cv2_run (fixed : bool) (n : nat) (d : Z) (o1 o2 : vop) (t : pt) : option cv_trace :=
  match first_step fixed n d o1 t with
  | None => None
  | Some r1 => trace_of fixed (res_ranks n o1) d o2 [v_res r1] (v_nx r1)
  end.

Definition trace_snaps (t : cv_trace) : list snapshot :=
  t_s0 t ++ t_s1 t ++ [t_sr t] ++ t_s2 t ++ [t_sr1 t; t_sr2 t].

Definition enc_trace (t : cv_trace) : V :=
  let r := canon_of (trace_snaps t) in
  VL [VL (map (enc_snap r) (t_s0 t)); VL (map (enc_snap r) (t_s1 t)); enc_snap r (t_sr t);
      VL (map (enc_snap r) (t_s2 t)); enc_snap r (t_sr1 t); enc_snap r (t_sr2 t); VZ 1%Z].

Definition cr_run (addtorank : bool) (n : nat) (a b : pt) (obs : list robs)
  : (snapshot * snapshot) * (snapshot * snapshot) :=
  let '(sa, n1) := load_snap n a 0%N in
  let '(sb, n2) := load_snap n b n1 in
  let '(sa', sb', _) := fold_left (fun st o => observe addtorank D o st) obs (sa, sb, n2) in
  ((sa, sb), (sa', sb')).

Definition enc_cr (x : (snapshot * snapshot) * (snapshot * snapshot)) : V :=
  let '((a0, b0), (a1, b1)) := x in
  let r := canon_of [a0; b0; a1; b1] in
  VL [VL [enc_snap r a0; enc_snap r b0]; VL [enc_snap r a1; enc_snap r b1]; VZ 1%Z].

Definition c10_model (c : c10_case) : V :=
  match c with
  | CV n d o ts => match cv_run true n d o ts with Some t => enc_trace t | None => Verr 1%Z end
  | CR n a b obs => enc_cr (cr_run false n a b obs)
  | CV2 n d o1 o2 t => match cv2_run true n d o1 o2 t with Some tr => enc_trace tr | None => Verr 1%Z end
  | CJ n d o1 t =>
    match first_step true n d o1 t with
    | Some r1 => let r := canon_of [v_res r1] in
                 VL [VL [enc_snap r (v_res r1)]; VL [enc_snap r (v_res r1)]; VZ 1%Z]
    | None => Verr 1%Z
    end
  end.

(* ---- the property, evaluated on an observation *)
Fixpoint zs_of (l : list V) : option (list Z) :=
  match l with
  | [] => Some []
  | VZ z :: l' => match zs_of l' with Some r => Some (z :: r) | None => None end
  | VL _ :: _ => None
  end.
Definition snap_parts (s : V) : option (V * list Z * V) :=
  match s with
  | VL [st; VL lb; rl; ow] => match zs_of lb with Some l => Some (st, l, VL [rl; ow]) | None => None end
  | _ => None
  end.
(* same structure, same rank lists, same owner of every fiber *)
Definition same_struct (a b : V) : bool :=
  match snap_parts a, snap_parts b with
  | Some (sa, _, ra), Some (sb, _, rb) => V_eqb sa sb && V_eqb ra rb
  | _, _ => false
  end.
(* no object in common *)
Definition disjointZ (la lb : list Z) : bool :=
  forallb (fun x => negb (existsb (Z.eqb x) lb)) la.
Definition disjoint_snaps (a b : V) : bool :=
  match snap_parts a, snap_parts b with
  | Some (_, la, _), Some (_, lb, _) => disjointZ la lb
  | _, _ => false
  end.
Fixpoint all2 (f : V -> V -> bool) (l1 l2 : list V) : bool :=
  match l1, l2 with
  | [], [] => true
  | x :: l1', y :: l2' => f x y && all2 f l1' l2'
  | _, _ => false
  end.

(* value-returning: operands structurally as before (s0 = s1), result shares no object with
   them, mutating the result is invisible to the operands (s1 = s2), mutating the operands is
   invisible to the result (sr1 = sr2), attribute values of the operands kept (flag) *)
Definition holds_cv (nops : nat) (o : V) : bool :=
  match o with
  | VL [VL s0; VL s1; sr; VL s2; sr1; sr2; VZ flag] =>
    Nat.eqb (length s0) nops && negb (Nat.eqb nops O)
    && all2 same_struct s0 s1 && forallb (fun s => disjoint_snaps s sr) s1
    && all2 same_struct s1 s2 && same_struct sr1 sr2 && Z.eqb flag 1%Z
  | _ => false
  end.
(* read-only: tree and rank lists of both tensors exactly as they were; the flag says that
   attribute values are kept and that two renderings / dumps were byte-identical *)
Definition holds_cr (o : V) : bool :=
  match o with
  | VL [VL [a0; b0]; VL [a1; b1]; VZ flag] =>
    same_struct a0 a1 && same_struct b0 b1 && Z.eqb flag 1%Z
  | _ => false
  end.

(* a rejected call: the operand (structure, rank lists, owners) as before; the flag says the
   call raised and that the attribute values were kept *)
Definition holds_cj (o : V) : bool :=
  match o with
  | VL [VL [a0]; VL [a1]; VZ flag] => same_struct a0 a1 && Z.eqb flag 1%Z
  | _ => false
  end.

(* ---- well-formed cases (the generator stays inside) *)
Fixpoint pt_depth_ok (k : nat) (t : pt) : bool :=
  match t, k with
  | PL _, O => true
  | PN es, S k' => forallb (fun ct => pt_depth_ok k' (snd ct)) es
  | _, _ => false
  end.
Definition boundedb (nx : N) (s : snapshot) : bool := forallb (fun l => N.ltb l nx) (snap_labels s).

Definition c10_wf (c : c10_case) : bool :=
  match c with
  | CV n d o ts =>
    negb (Nat.eqb (length ts) O)
    && (let '(ops, nx) := load_all n ts 0%N in forallb (boundedb nx) ops)
    && match cv_run true n d o ts with Some _ => true | None => false end
  | CR n a b obs => Nat.ltb O n && pt_depth_ok n a && pt_depth_ok n b
  | CV2 n d o1 o2 t =>
    match first_step true n d o1 t with
    | Some r1 => boundedb (v_nx r1) (v_res r1)
                 && match trace_of true (res_ranks n o1) d o2 [v_res r1] (v_nx r1) with
                    | Some _ => true | None => false end
    | None => false
    end
  | CJ n d o1 t => match first_step true n d o1 t with Some _ => true | None => false end
  end.

Definition c10_holds (c : c10_case) (o : V) : bool :=
  c10_wf c &&
  match c with
  | CV n _ _ ts => holds_cv (length ts) o
  | CR _ _ _ _ => holds_cr o
  | CV2 _ _ _ _ _ => holds_cv 1 o
  | CJ _ _ _ _ => holds_cj o
  end.

(* region 1 (reported, not yet a listed finding; the generator stays outside): a split with a
   halo stores one payload fiber under two partitions; copy(preserve_owner=False) /
   Tensor.fromFiber(owned root) on such a result visits that fiber twice in _detach_owner, records
   "no owner" the second time, and _attach_owner then leaves it ownerless in the OPERAND *)
Definition c10_region (c : c10_case) : Z :=
  match c with
  | CV2 _ _ (VSplit sp _) o2 _ =>
    if (negb (Z.eqb (sp_pre sp) 0) || negb (Z.eqb (sp_post sp) 0))
       && match o2 with VCopyNoOwner | VFromFiber _ => true | _ => false end
    then 1%Z else 0%Z
  | _ => 0%Z
  end.

Definition c10_checker : checker c10_case :=
  {| model := c10_model; holds := c10_holds; region := c10_region |}.
