(* StoreCtorCheck.v — C02, second stream: every constructor and every transform result is a
   tensor whose rank lists mirror its tree.  The case is the recipe's RESULT tree (read back
   from the implementation's observation, two-stage case); the model registers that tree the
   way Tensor.setRoot/_addFiber does (Store.init: DFS pre-order) and the observation compares
   the rank lists as sorted path lists (the property is order-free). *)
From Coq Require Import ZArith List Bool.
From FT Require Import Model.Base Model.Obs Model.Store Model.StoreCheck.
Import ListNotations.
Open Scope Z_scope.

Record ctor_case := { cc_n : nat; cc_tree : tree;          (* the result *)
                      cc_sn : nat; cc_stree : tree }.      (* the source tensor afterwards *)

Definition one_state (n : nat) (t : tree) : list V :=
  match V_state (init n 0 t) with
  | VL l => Vn n :: l
  | v => [v]
  end.

Definition ctor_model (c : ctor_case) : V :=
  VL [VL (one_state (cc_n c) (cc_tree c)); VL (one_state (cc_sn c) (cc_stree c))].

(* observation = [result; source afterwards], each
   [number of ranks; tree; rank lists as sorted paths; owners ok] *)
Definition one_holds (n : nat) (o : V) : bool :=
  match o with
  | VL (VZ k :: l) =>
    (k =? Z.of_nat n) && Nat.ltb O n &&
    match V_to_state (VL l) with
    | Some s => mirror_state n s && wf_tree n (o_tree s)
    | None => false
    end
  | _ => false
  end.

Definition ctor_holds (c : ctor_case) (o : V) : bool :=
  match o with
  | VL [r; s] => one_holds (cc_n c) r && one_holds (cc_sn c) s
  | _ => false
  end.

Definition ctor_checker : checker ctor_case :=
  {| model := ctor_model; holds := ctor_holds; region := fun _ => 0 |}.
