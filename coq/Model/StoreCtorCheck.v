(* StoreCtorCheck.v — C02, second stream: every constructor and every transform result is a
   tensor whose rank lists mirror its tree.  The case is the recipe's RESULT tree (read back
   from the implementation's observation, two-stage case); the model registers that tree the
   way Tensor.setRoot/_addFiber does (Store.init: DFS pre-order) and the observation compares
   the rank lists as sorted path lists (the property is order-free). *)
From Coq Require Import ZArith List Bool.
From FT Require Import Model.Base Model.Obs Model.Store Model.StoreCheck.
Import ListNotations.
Open Scope Z_scope.

Record ctor_case := { cc_n : nat; cc_tree : tree }.

Definition ctor_model (c : ctor_case) : V :=
  match V_state (init (cc_n c) 0 (cc_tree c)) with
  | VL l => VL (Vn (cc_n c) :: l)
  | v => v
  end.

(* observation = [number of ranks; tree; rank lists as sorted paths; owners ok] *)
Definition ctor_holds (c : ctor_case) (o : V) : bool :=
  match o with
  | VL (VZ n :: l) =>
    (n =? Z.of_nat (cc_n c)) && Nat.ltb O (cc_n c) &&
    match V_to_state (VL l) with
    | Some s => mirror_state (cc_n c) s && wf_tree (cc_n c) (o_tree s)
    | None => false
    end
  | _ => false
  end.

Definition ctor_checker : checker ctor_case :=
  {| model := ctor_model; holds := ctor_holds; region := fun _ => 0 |}.
