(* C05Populate.v — model of the populate generator  z << a  (iterators.py __lshift__ 1044-1287)
   driven by a loop nest whose body acts only through the offered references.

   Destination z: a tensor's tree with fiber identities and per-rank fiber lists (Model/Store.v).
   Source a: a plain tree, with a per-rank format flag (C/U), per-rank shape and a leaf default.
   Body: a function from the coordinate path of an offered reference to what the loop body does
   with it (leaf rank: leave / assign v / accumulate v; interior rank: leave / run the nested
   populate loop / getPayloadRef a point below it and write).  A traversal is modelled as the list of yields (events) in the order they
   happen, each with a snapshot of the whole destination at the moment of the yield.

   Sources: iterators.py 16-32 (__iter__ by format), 44-59/122-188 (iterOccupancy/iterRange),
   101-109/190-222 (iterActiveShape/iterRangeShape), 1044-1287 (__lshift__);
   fiber.py 751-865 (getPayload allocate=False,start_pos), 933-962 (_create_payload pos=),
   1574-1696 (_createDefault), 5003-5085 (_coord2pos); rank.py 487-504 (pop). *)
From Coq Require Import ZArith List Bool.
From FT Require Import Model.Base Model.Store.
Import ListNotations.
Open Scope Z_scope.

(* ---- the loop body, per offered reference *)
(* ARefBelow pt w: at an interior reference, the body calls zref.getPayloadRef(pt...) on the offered
   sub-fiber and writes w through the leaf reference it gets (w may write the default) *)
Inductive act := ASkip | AWrite (w : wr) | ADescend | ARefBelow (pt : list Z) (w : wr).
Definition body := list Z -> act.

(* ---- the source tensor's attributes *)
Record srcp := {
  sp_d : Z;               (* leaf default of a *)
  sp_U : list bool;       (* per rank: declared uncompressed ("U")? *)
  sp_shape : list Z       (* per rank: shape (active range = (0, shape)) *)
}.

Definition is_U (sp : srcp) (lvl : nat) : bool := nth lvl (sp_U sp) false.
Definition shape_at (sp : srcp) (lvl : nat) : Z := nth lvl (sp_shape sp) 0.

(* getPayload(c) on a (fiber.py 829-836): bisect, _coordExists, else a synthesised default that is
   not added to the rank (a leaf default at the last rank, an empty fiber above) *)
Definition a_default (n : nat) (sp : srcp) (lvl : nat) : tree :=
  if Nat.eqb (S lvl) n then Leaf (sp_d sp) else Node [].

Definition a_get (c : Z) (aes : fib) : option tree :=
  let i := bisect c (map fst aes) in
  match nth_error aes i with
  | Some (c', t) => if c' =? c then Some t else None
  | None => None
  end.

(* Fiber.__iter__(tick=False) of a fiber of a at rank lvl (iterators.py 16-32):
   "C": iterOccupancy = the stored non-empty elements;
   "U": iterActiveShape = getPayload(c) for c in range(start, end) of getActive() *)
Definition offers (n : nat) (sp : srcp) (lvl : nat) (aes : fib) : fib :=
  if is_U sp lvl then
    map (fun c => (c, match a_get c aes with Some t => t | None => a_default n sp lvl end))
        (iota (Z.to_nat (shape_at sp lvl)))
  else present (sp_d sp) aes.

(* ---- events: one per yield, in the order of the yields (nested loops in pre-order) *)
Record ev := {
  e_path : list Z;            (* coordinate path of the offered reference *)
  e_a    : tree;              (* a's payload (b_payload) *)
  e_z    : itree;             (* the payload of z handed out (a_payload), before the body runs *)
  e_root : ifib;              (* the whole destination at the yield *)
  e_nx   : nat;
  e_rk   : list (list nat)
}.

(* del l[i] *)
Fixpoint remove_nth {A} (i : nat) (l : list A) : list A :=
  match l, i with
  | [], _ => []
  | _ :: l', O => l'
  | x :: l', S i' => x :: remove_nth i' l'
  end.

(* Rank.pop() of rank k *)
Fixpoint pop_rank (k : nat) (rs : list (list nat)) : list (list nat) :=
  match rs, k with
  | [], _ => []
  | r :: rs', O => removelast r :: rs'
  | r :: rs', S k' => r :: pop_rank k' rs'
  end.

(* 1207-1210: (maybe_remove and fiber and len == 0) or (leaf and == default) *)
Definition should_remove (dz : Z) (maybe_remove : bool) (zp' : itree) : bool :=
  match zp' with
  | INode _ _ sub' => maybe_remove && Nat.eqb (length sub') O
  | ILeaf v => v =? dz
  end.

Section Loop.
  Variables (n : nat) (dz : Z) (bd : body).
  (* the nested loop  zref << aval  run by the body: path, a's payload, context, z's sub-fiber *)
  Variable inner : list Z -> tree -> (ifib -> ifib) -> ifib -> nat -> list (list nat)
                   -> ifib * nat * list (list nat) * list ev.
  Variables (lvl : nat) (path : list Z).

  (* the loop body, acting on the offered reference [zp] (element [pos] of [es1]) only *)
  Definition body_run (plug : ifib -> ifib) (c : Z) (bp : tree) (es1 : ifib) (pos : nat) (zp : itree)
             (nx1 : nat) (rk1 : list (list nat)) : itree * nat * list (list nat) * list ev :=
    match zp, bd (path ++ [c]) with
    | ILeaf v, AWrite w => (ILeaf (apply_wr w v), nx1, rk1, [])
    | INode id ow sub, ADescend =>
      let '(sub', nx2, rk2, evs) :=
        inner (path ++ [c]) bp (fun s => plug (set_nth pos (c, INode id ow s) es1)) sub nx1 rk1 in
      (INode id ow sub', nx2, rk2, evs)
    | INode id ow sub, ARefBelow pt w =>
      (* fiber.py 868-930 getPayloadRef on the sub-fiber (Store.get_ref: missing elements are
         created with _createDefault and registered with their ranks), then the write; only
         full points are modelled *)
      if Nat.eqb (S lvl + length pt) n then
        let '(sub', nx2, rk2, _) := get_ref n dz w (S lvl) pt sub nx1 rk1 in
        (INode id ow sub', nx2, rk2, [])
      else (zp, nx1, rk1, [])
    | _, _ => (zp, nx1, rk1, [])
    end.

  (* 1188-1194: if getPayload found nothing, _create_payload(b_coord, pos) with
     _createDefault() (addtorank=True): a leaf
     default at the last rank, else a fresh empty fiber appended to the next rank's list *)
  Definition create_at (existing : bool) (pos : nat) (c : Z) (es : ifib) (nx : nat)
             (rk : list (list nat)) : ifib * nat * list (list nat) :=
    if existing then (es, nx, rk)
    else if Nat.eqb (S lvl) n then (insert_at pos (c, ILeaf dz) es, nx, rk)
    else (insert_at pos (c, INode nx (Some (S lvl)) []) es, S nx, app_rank (S lvl) nx rk).

  (* 1212-1228: delete at bisect_left(coords, b_coord); pop from the next rank if there is one *)
  Definition finish (c : Z) (remove : bool) (es2 : ifib) (rk2 : list (list nat))
    : ifib * list (list nat) :=
    if remove then
      (remove_nth (bisect c (map fst es2)) es2,
       if Nat.ltb (S lvl) n then pop_rank (S lvl) rk2 else rk2)
    else (es2, rk2).

  (* lshift_iterator.__iter__ (1100-1283) on the fiber [es] of z (rank lvl) against the elements
     [b] that a's iterator yields.  [plug] puts the fiber back into the whole tree (snapshots).
     a_pos is the running position in z (1128-1130, 1172, 1227, 1252). *)
  Fixpoint loop1 (plug : ifib -> ifib) (b : fib) (es : ifib) (a_pos : nat) (nx : nat)
           (rk : list (list nat)) {struct b} : ifib * nat * list (list nat) * list ev :=
    match b with
    | [] => (es, nx, rk, [])
    | (c, bp) :: b' =>
      let cs := map fst es in
      (* 1171-1183: advance a_pos by bisect_left on the suffix; choose getPayload's start_pos *)
      let a_pos1 := match cs with [] => a_pos | _ :: _ => (a_pos + bisect c (skipn a_pos cs))%nat end in
      let gpp := match cs with
                 | [] => None
                 | _ :: _ => if coord_exists c cs a_pos1 then Some a_pos1
                             else match a_pos1 with O => None | S p => Some p end
                 end in
      (* 1185: getPayload(b_coord, allocate=False, start_pos=gpp): None if absent *)
      let idx := coord2pos c cs gpp in
      let existing := coord_exists c cs idx in
      let '(es1, nx1, rk1) := create_at existing a_pos1 c es nx rk in
      let pos := if existing then idx else a_pos1 in
      let maybe_remove := negb existing in
      match nth_error es1 pos with
      | None => (es1, nx1, rk1, [])           (* not reachable: pos is inside es1 *)
      | Some (_, zp) =>
        (* 1204: yield b_coord, (a_payload, b_payload) *)
        let e := {| e_path := path ++ [c]; e_a := bp; e_z := zp; e_root := plug es1;
                    e_nx := nx1; e_rk := rk1 |} in
        let '(zp', nx2, rk2, evs) := body_run plug c bp es1 pos zp nx1 rk1 in
        let es2 := set_nth pos (c, zp') es1 in
        let remove := should_remove dz maybe_remove zp' in
        let '(es3, rk3) := finish c remove es2 rk2 in
        (* 1227 a_pos -= 1 on removal; 1252 a_pos += 1 *)
        let a_pos2 := if remove then a_pos1 else S a_pos1 in
        let '(esf, nxf, rkf, evs') := loop1 plug b' es3 a_pos2 nx2 rk3 in
        (esf, nxf, rkf, e :: evs ++ evs')
      end
    end.
End Loop.

(* the loop nest:  for c, (zr, av) in z << a: (body: write | for ... in zr << av: ...) *)
Fixpoint pop (k : nat) (n : nat) (dz : Z) (sp : srcp) (bd : body) (lvl : nat) (path : list Z)
         (bp : tree) (plug : ifib -> ifib) (es : ifib) (nx : nat) (rk : list (list nat))
  : ifib * nat * list (list nat) * list ev :=
  match k with
  | O => (es, nx, rk, [])
  | S k' =>
    match bp with
    | Node aes =>
      loop1 n dz bd (pop k' n dz sp bd (S lvl)) lvl path plug (offers n sp lvl aes) es O nx rk
    | Leaf _ => (es, nx, rk, [])
    end
  end.

(* the whole run on a tensor state *)
Definition populate (sp : srcp) (bd : body) (a : tree) (s : st) : st * list ev :=
  let '(es', nx, rk, evs) :=
    pop (nranks s) (nranks s) (s_d s) sp bd O [] a (fun es => es) (root_es s) (s_next s) (s_ranks s) in
  (with_root s es' nx rk, evs).
