(* Store.v — model of the mutable fibertree of a tensor: the tree with fiber identities, the
   per-rank fiber lists, and the public mutators (C01, C02, C03).

   Object identity of fibers is kept as a number in each interior node (fresh numbers from a
   counter), so that "Rank.fibers lists exactly the fibers at that depth" can be stated; leaf
   payload boxes are addressed by their point (no mutator in this op set detaches a box while
   a handle to it is used: handles are written through immediately).  Fibers are addressed
   by their coordinate path from the root.  Sources: fiber.py getPayload 751-865,
   getPayloadRef 868-962, _createDefault/_instantiateDefault 1574-1696, __setitem__
   2048-2130, clear 2296-2309, append 2320-2353, updateCoords 2401-2513, updatePayloads
   2516-2564, _coord2pos 4967-5051; iterators.py iterRangeShapeRef 224-256; rank.py append
   414-485. *)
From Coq Require Import ZArith List Bool.
From FT Require Import Model.Base.
Import ListNotations.
Open Scope Z_scope.

Inductive itree :=
| ILeaf (v : Z)
| INode (id : nat) (ow : option nat) (es : list (Z * itree)).
   (* ow = index of the rank the fiber reports as its owner *)

Definition ifib := list (Z * itree).

Section ITreeInd.
  Variable P : itree -> Prop.
  Hypothesis HLeaf : forall v, P (ILeaf v).
  Hypothesis HNode : forall id ow es, Forall (fun ct => P (snd ct)) es -> P (INode id ow es).
  Fixpoint itree_ind' (t : itree) : P t :=
    match t with
    | ILeaf v => HLeaf v
    | INode id ow es => HNode id ow es
        ((fix go (l : ifib) : Forall (fun ct => P (snd ct)) l :=
            match l with
            | [] => Forall_nil _
            | ct :: l' => Forall_cons ct (itree_ind' (snd ct)) (go l')
            end) es)
    end.
End ITreeInd.

Record st := {
  s_root  : itree;             (* the root fiber: INode _ (Some 0) _ *)
  s_ranks : list (list nat);   (* Rank.fibers of each rank, in list order *)
  s_next  : nat;               (* next fresh fiber identity *)
  s_d     : Z                  (* leaf default *)
}.

Definition nranks (s : st) : nat := length (s_ranks s).

(* ---- _coord2pos (no start_pos): bisect_left; on a sorted list the first index whose
   coordinate is >= c *)
Fixpoint bisect (c : Z) (cs : list Z) : nat :=
  match cs with
  | [] => O
  | x :: cs' => if x <? c then S (bisect c cs') else O
  end.

(* _coord2pos with start_pos: linear scan from start_pos for the first coords[i] >= c *)
Fixpoint scan_from (c : Z) (cs : list Z) (i : nat) (sp : nat) : nat :=
  match cs with
  | [] => i
  | x :: cs' => if (Nat.leb sp i) && (x >=? c) then i else scan_from c cs' (S i) sp
  end.

Definition coord2pos (c : Z) (cs : list Z) (sp : option nat) : nat :=
  match sp with None => bisect c cs | Some p => scan_from c cs O p end.

(* _coordExists *)
Definition coord_exists (c : Z) (cs : list Z) (pos : nat) : bool :=
  match nth_error cs pos with Some x => x =? c | None => false end.

Definition insert_at {A} (pos : nat) (x : A) (l : list A) : list A :=
  firstn pos l ++ x :: skipn pos l.

Fixpoint set_nth {A} (pos : nat) (x : A) (l : list A) : list A :=
  match l, pos with
  | [], _ => []
  | _ :: l', O => x :: l'
  | y :: l', S p => y :: set_nth p x l'
  end.

Fixpoint app_rank (k : nat) (id : nat) (rs : list (list nat)) : list (list nat) :=
  match rs, k with
  | [], _ => []
  | r :: rs', O => (r ++ [id]) :: rs'
  | r :: rs', S k' => r :: app_rank k' id rs'
  end.

(* ---- writes through a leaf reference *)
Inductive wr := WNone | WAssign (v : Z) | WAdd (v : Z).
Definition apply_wr (w : wr) (old : Z) : Z :=
  match w with WNone => old | WAssign v => v | WAdd v => old + v end.

(* ---- getPayloadRef( *pt ) on the fiber [es] of rank [lvl] (n ranks in all), followed by the
   write [w] through the returned reference when the point is a full point.
   Missing elements are created with _createDefault (addtorank=True): a leaf default at the
   last rank, otherwise a fresh empty fiber that is appended to the next rank's list and owned
   by it.  Returns the new element list, counter, rank lists and the payload reached. *)
Fixpoint get_ref (n : nat) (d : Z) (w : wr) (lvl : nat) (pt : list Z) (es : ifib)
         (nx : nat) (rk : list (list nat)) : ifib * nat * list (list nat) * option itree :=
  match pt with
  | [] => (es, nx, rk, None)
  | c :: pt' =>
    let i := bisect c (map fst es) in
    let leaf_rank := Nat.eqb (S lvl) n in
    (* locate or create the payload at position i *)
    let '(es1, nx1, rk1) :=
      if coord_exists c (map fst es) i then (es, nx, rk)
      else if leaf_rank then (insert_at i (c, ILeaf d) es, nx, rk)
           else (insert_at i (c, INode nx (Some (S lvl)) []) es, S nx, app_rank (S lvl) nx rk) in
    match nth_error es1 i with
    | None => (es1, nx1, rk1, None)
    | Some (_, p) =>
      match pt', p with
      | [], ILeaf v =>
        let p' := ILeaf (apply_wr w v) in
        (set_nth i (c, p') es1, nx1, rk1, Some p')
      | [], INode _ _ _ => (es1, nx1, rk1, Some p)
      | _ :: _, INode id ow es' =>
        let '(es'', nx2, rk2, r) := get_ref n d w (S lvl) pt' es' nx1 rk1 in
        (set_nth i (c, INode id ow es'') es1, nx2, rk2, r)
      | _ :: _, ILeaf _ => (es1, nx1, rk1, None)   (* "Too many coordinates" *)
      end
    end
  end.

(* ---- getPayload( *pt ): read; a missing element is answered with a synthesised default and
   the walk continues through a synthesised empty fiber; nothing is inserted *)
Fixpoint get_pay (n : nat) (d : Z) (lvl : nat) (pt : list Z) (es : ifib) : option itree :=
  match pt with
  | [] => None
  | c :: pt' =>
    let i := bisect c (map fst es) in
    let leaf_rank := Nat.eqb (S lvl) n in
    let p := if coord_exists c (map fst es) i
             then match nth_error es i with Some (_, p) => p | None => ILeaf d end
             else if leaf_rank then ILeaf d else INode O (Some (S lvl)) [] in
    match pt', p with
    | [], _ => Some p
    | _ :: _, INode _ _ es' => get_pay n d (S lvl) pt' es'
    | _ :: _, ILeaf _ => None
    end
  end.

(* ---- getPayload( *pt, default=dflt, allocate=False ): a missing element is answered at once
   with the caller's default (boxed), whatever coordinates remain (fiber.py:838-865: const_used);
   an existing one is returned / descended into with the same default *)
Fixpoint get_pay_d (dflt : Z) (pt : list Z) (es : ifib) : option itree :=
  match pt with
  | [] => None
  | c :: pt' =>
    let i := bisect c (map fst es) in
    if coord_exists c (map fst es) i then
      match nth_error es i, pt' with
      | Some (_, p), [] => Some p
      | Some (_, INode _ _ es'), _ :: _ => get_pay_d dflt pt' es'
      | Some (_, ILeaf _), _ :: _ => None     (* "getPayload too many coordinates" *)
      | None, _ => None
      end
    else Some (ILeaf dflt)
  end.

(* ---- generic: apply a fiber-local update at the fiber addressed by [path]; the update may
   fail (rejection) — then the whole operation leaves the tree as it was *)
Fixpoint at_path (path : list Z) (f : nat -> ifib -> option ifib) (lvl : nat) (es : ifib)
  : option ifib :=
  match path with
  | [] => f lvl es
  | c :: path' =>
    let i := bisect c (map fst es) in
    match nth_error es i with
    | Some (c', INode id ow es') =>
      if c' =? c then
        match at_path path' f (S lvl) es' with
        | Some es'' => Some (set_nth i (c, INode id ow es'') es)
        | None => None
        end
      else None
    | _ => None
    end
  end.

(* apply [f] to every fiber [depth] levels below *)
Fixpoint below (depth : nat) (f : ifib -> ifib) (es : ifib) : ifib :=
  match depth with
  | O => f es
  | S k => map (fun ct => match snd ct with
                          | INode id ow es' => (fst ct, INode id ow (below k f es'))
                          | ILeaf v => ct
                          end) es
  end.

Definition last_coord (es : ifib) : option Z :=
  match rev es with [] => None | (c, _) :: _ => Some c end.

(* append(c, v) on a leaf-level fiber (fiber.py:2320-2353) *)
Definition do_append (c v : Z) (es : ifib) : option ifib :=
  match last_coord es with
  | Some m => if m <? c then Some (es ++ [(c, ILeaf v)]) else None
  | None => Some (es ++ [(c, ILeaf v)])
  end.

(* f[pos] = CoordPayload(oc, ov)  (fiber.py:2042-2117, with the negative-position fix) *)
Definition do_setitem (pos : Z) (oc ov : option Z) (es : ifib) : option ifib :=
  let len := Z.of_nat (length es) in
  let p := if pos <? 0 then pos + len else pos in
  if p <? 0 then None                       (* IndexError: negative beyond the start *)
  else if match oc, ov with None, None => true | _, _ => false end
  then Some es                              (* neither list is indexed: nothing happens *)
  else if len <=? p then None               (* IndexError (or CoordinateError) before any write *)
  else
    let i := Z.to_nat p in
    let cs := map fst es in
    let ok_left := match oc with
                   | None => true
                   | Some c => match i with
                               | O => true
                               | S j => match nth_error cs j with Some x => x <? c | None => true end
                               end
                   end in
    let ok_right := match oc with
                    | None => true
                    | Some c => match nth_error cs (S i) with Some x => c <? x | None => true end
                    end in
    if ok_left && ok_right then
      match nth_error es i with
      | Some (c0, p0) =>
        let c1 := match oc with Some c => c | None => c0 end in
        let p1 := match ov, p0 with Some v, ILeaf _ => ILeaf v | _, _ => p0 end in
        Some (set_nth i (c1, p1) es)
      | None => None
      end
    else None.   (* CoordinateError *)

(* clear() *)
Definition do_clear (es : ifib) : option ifib := Some [].

(* sorted(zip(coords, payloads)) for distinct coordinates: insertion sort on the coordinate *)
Fixpoint ins_sorted (x : Z * itree) (l : ifib) : ifib :=
  match l with
  | [] => [x]
  | y :: l' => if fst x <? fst y then x :: l else y :: ins_sorted x l'
  end.
Definition sort_fib (l : ifib) : ifib := fold_right ins_sorted [] l.

Fixpoint nondecreasing (cs : list Z) : bool :=
  match cs with
  | [] => true
  | x :: cs' => match cs' with [] => true | y :: _ => (x <=? y) && nondecreasing cs' end
  end.

(* updateCoords with func = c |-> sg*c + k (sg = 1 or -1) at one fiber *)
Definition upd_coords_fiber (sg k : Z) (es : ifib) : ifib :=
  let es' := map (fun ct => (sg * fst ct + k, snd ct)) es in
  if nondecreasing (map fst es') then es' else sort_fib es'.

(* updateCoords with an arbitrary coordinate function (table + offset).  "The unique
   property is not checked" (docstring): the documented domain is functions that keep the
   coordinates of each fiber distinct; [step] refuses (BadAddress) a case outside it, and
   this per-fiber function leaves a fiber alone when its images collide. *)
Fixpoint zassoc (c : Z) (tbl : list (Z * Z)) : option Z :=
  match tbl with
  | [] => None
  | (k, v) :: tbl' => if k =? c then Some v else zassoc c tbl'
  end.
Definition tbl_fn (tbl : list (Z * Z)) (off : Z) (c : Z) : Z :=
  match zassoc c tbl with Some v => v | None => c + off end.
Fixpoint nodupb (l : list Z) : bool :=
  match l with
  | [] => true
  | x :: l' => negb (existsb (Z.eqb x) l') && nodupb l'
  end.
Definition upd_coords_fiber_g (f : Z -> Z) (es : ifib) : ifib :=
  let es' := map (fun ct => (f (fst ct), snd ct)) es in
  if nodupb (map fst es') then
    if nondecreasing (map fst es') then es' else sort_fib es'
  else es.
(* every fiber [depth] levels below keeps distinct coordinates under f *)
Fixpoint distinct_below (depth : nat) (f : Z -> Z) (es : ifib) : bool :=
  match depth with
  | O => nodupb (map f (map fst es))
  | S k => forallb (fun ct => match snd ct with
                              | INode _ _ es' => distinct_below k f es'
                              | ILeaf _ => true
                              end) es
  end.

(* Payload.isEmpty for a leaf / Fiber.isEmpty *)
Fixpoint i_is_empty (d : Z) (t : itree) : bool :=
  match t with
  | ILeaf v => v =? d
  | INode _ _ es => forallb (fun ct => i_is_empty d (snd ct)) es
  end.

(* updatePayloads with func = p |-> p + k on a leaf-level fiber (with the position fix):
   only non-empty payloads are updated *)
Definition upd_payloads_fiber (d k : Z) (es : ifib) : ifib :=
  map (fun ct => match snd ct with
                 | ILeaf v => if v =? d then ct else (fst ct, ILeaf (v + k))
                 | INode _ _ _ => ct
                 end) es.

(* range(lo, hi, step) for step > 0, as a list *)
Fixpoint zrange (fuel : nat) (lo hi step : Z) : list Z :=
  match fuel with
  | O => []
  | S f => if lo <? hi then lo :: zrange f (lo + step) hi step else []
  end.

(* ---- the operations *)
Inductive op :=
| OGetRef (pt : list Z) (w : wr)
| OGet (pt : list Z)
| OAppend (path : list Z) (c v : Z)
| OSetItem (path : list Z) (pos : Z) (oc ov : option Z)
| OClear (path : list Z)
| OUpdCoords (path : list Z) (depth : nat) (sg k : Z)
| OUpdCoordsTbl (path : list Z) (depth : nat) (tbl : list (Z * Z)) (off : Z)
      (* updateCoords with func = c |-> tbl[c] if present else c + off (any re-ordering) *)
| OUpdPayloads (path : list Z) (depth : nat) (k : Z)
| OShapeRef (path : list Z) (lo hi step : Z)
| OGetPos (path : list Z) (c : Z) (sp : option nat)            (* fiber.getPosition(c, start_pos) *)
| OGetPosRef (path : list Z) (c : Z) (sp : option nat)         (* fiber.getPositionRef(c, start_pos) *)
| OGetSP (path : list Z) (c : Z) (sp : option nat)             (* fiber.getPayload(c, start_pos=sp) *)
| OGetRefSP (path : list Z) (c : Z) (sp : option nat) (w : wr) (* fiber.getPayloadRef(c, start_pos=sp), then w *)
| OGetD (pt : list Z) (dflt : Z)   (* tensor.getPayload( *pt, default=dflt, allocate=False ) *)
| OAppendFib (path : list Z) (c : Z) (t : tree)      (* f.append(c, <fiber t>), f interior *)
| OExtend (path : list Z) (t : tree)                 (* f.extend(<fiber t>), any rank *)
| OSetItemFib (path : list Z) (pos : Z) (t : tree)   (* f[pos] = <fiber t>, f interior *)
| OAssignFib (path : list Z) (t : tree)              (* f <<= <fiber t>, any rank *)
| OSetItemCF (path : list Z) (pos : Z) (c : Z) (t : tree)
      (* f[pos] = CoordPayload(c, <fiber t>), f interior: coordinate AND fiber payload *).

Inductive res := RNone | RPay (t : itree) | RPos (p : option nat).

Inductive outcome :=
| Done (r : res)              (* accepted; what was returned *)
| Rejected                    (* refused with an error: the state must be unchanged *)
| BadAddress.                 (* the path does not address a fiber: not a legal case *)

Definition root_es (s : st) : ifib :=
  match s_root s with INode _ _ es => es | ILeaf _ => [] end.

Definition with_root (s : st) (es : ifib) (nx : nat) (rk : list (list nat)) : st :=
  match s_root s with
  | INode id ow _ => {| s_root := INode id ow es; s_ranks := rk; s_next := nx; s_d := s_d s |}
  | ILeaf _ => s
  end.

Definition path_ok (path : list Z) (es : ifib) : bool :=
  match at_path path (fun _ e => Some e) O es with Some _ => true | None => false end.

Definition local (s : st) (path : list Z) (f : nat -> ifib -> option ifib) : st * outcome :=
  if path_ok path (root_es s) then
    match at_path path f O (root_es s) with
    | Some es' => (with_root s es' (s_next s) (s_ranks s), Done RNone)
    | None => (s, Rejected)
    end
  else (s, BadAddress).

(* iterRangeShapeRef(lo, hi, step) on the fiber at [path] (rank lvl): getPayloadRef(c) per c *)
Fixpoint shape_ref (n : nat) (d : Z) (lvl : nat) (cs : list Z) (es : ifib) (nx : nat)
         (rk : list (list nat)) : ifib * nat * list (list nat) :=
  match cs with
  | [] => (es, nx, rk)
  | c :: cs' =>
    let '(es1, nx1, rk1, _) := get_ref n d WNone lvl [c] es nx rk in
    shape_ref n d lvl cs' es1 nx1 rk1
  end.

(* the same threaded through a path (needs the counter and the rank lists) *)
Fixpoint at_path_st (path : list Z)
         (f : nat -> ifib -> nat -> list (list nat) -> ifib * nat * list (list nat))
         (lvl : nat) (es : ifib) (nx : nat) (rk : list (list nat))
  : option (ifib * nat * list (list nat)) :=
  match path with
  | [] => Some (f lvl es nx rk)
  | c :: path' =>
    let i := bisect c (map fst es) in
    match nth_error es i with
    | Some (c', INode id ow es') =>
      if c' =? c then
        match at_path_st path' f (S lvl) es' nx rk with
        | Some (es'', nx', rk') => Some (set_nth i (c, INode id ow es'') es, nx', rk')
        | None => None
        end
      else None
    | _ => None
    end
  end.

Definition res_of (r : option itree) : res := match r with Some t => RPay t | None => RNone end.

(* the element list of the fiber addressed by [path] *)
Fixpoint fiber_at (path : list Z) (es : ifib) : option ifib :=
  match path with
  | [] => Some es
  | c :: path' =>
    let i := bisect c (map fst es) in
    match nth_error es i with
    | Some (c', INode _ _ es') => if c' =? c then fiber_at path' es' else None
    | _ => None
    end
  end.

(* iterRange/getPosition assert start_pos < len(coords) only in some entry points; the
   generator keeps start_pos inside the fiber *)
Definition sp_in_range (sp : option nat) (es : ifib) : bool :=
  match sp with None => true | Some p => Nat.ltb p (length es) end.

(* the cases carry a start_pos seed k; the start_pos used is k mod len (none on an empty
   fiber), so that it is always inside the fiber whatever the history did before *)
Definition norm_sp (sp : option nat) (es : ifib) : option nat :=
  match sp with
  | None => None
  | Some k => match length es with O => None | S _ => Some (Nat.modulo k (length es)) end
  end.

Definition sp_assert (c : Z) (sp : option nat) (es : ifib) : bool :=
  match sp with
  | None | Some O => true
  | Some p => match nth_error (map fst es) p with Some x => x <=? c | None => false end
  end.

(* identities of all fibers in the payloads of an element list *)
Fixpoint all_ids (t : itree) : list nat :=
  match t with
  | ILeaf _ => []
  | INode id _ es => id :: flat_map (fun ct => all_ids (snd ct)) es
  end.
Definition all_ids_fib (es : ifib) : list nat := flat_map (fun ct => all_ids (snd ct)) es.

(* ---- building a state from a plain tree (Tensor.fromFiber: setRoot/_addFiber, DFS
   pre-order registration), identities numbered in registration order *)
Fixpoint load (lvl : nat) (t : tree) (nx : nat) (rk : list (list nat))
  : itree * nat * list (list nat) :=
  match t with
  | Leaf v => (ILeaf v, nx, rk)
  | Node es =>
    let id := nx in
    let rk0 := app_rank lvl id rk in
    let '(es', nx', rk') :=
      (fix go (l : fib) (nx : nat) (rk : list (list nat)) : ifib * nat * list (list nat) :=
         match l with
         | [] => ([], nx, rk)
         | (c, t') :: l' =>
           let '(t'', nx1, rk1) := load (S lvl) t' nx rk in
           let '(l'', nx2, rk2) := go l' nx1 rk1 in
           ((c, t'') :: l'', nx2, rk2)
         end) es (S nx) rk0 in
    (INode id (Some lvl) es', nx', rk')
  end.


(* the same for an element list (the payloads of a fiber of rank [lvl]) *)
Definition load_es (lvl : nat) : fib -> nat -> list (list nat) -> ifib * nat * list (list nat) :=
  fix go (l : fib) (nx : nat) (rk : list (list nat)) : ifib * nat * list (list nat) :=
    match l with
    | [] => ([], nx, rk)
    | (c, t') :: l' =>
      let '(t'', nx1, rk1) := load (S lvl) t' nx rk in
      let '(l'', nx2, rk2) := go l' nx1 rk1 in
      ((c, t'') :: l'', nx2, rk2)
    end.

(* ---- fiber-valued mutators (fiber.py append 2389-2423, extend 2426-2468, __setitem__
   2048-2128, __ilshift__ 3053-3099, _registerPayload 2357-2378, _disownPayload 2341-2354).
   The argument fiber is given as a plain tree; the model builds its fibers with fresh
   identities (in Python the payload objects of append/extend/__setitem__ are the caller's
   objects, shared with the argument; <<= copies).  _registerPayload visits the fiber itself
   first, then its payloads depth-first: the registration order of [load]. *)

(* a usable argument: uniform depth k, strictly increasing coordinates *)
Fixpoint plain_wf (k : nat) (t : tree) {struct t} : bool :=
  match t with
  | Leaf _ => Nat.eqb k O
  | Node es => match k with
               | O => false
               | S k' => ssorted (map fst es) && forallb (fun ct => plain_wf k' (snd ct)) es
               end
  end.

(* what iterating a fiber offers, recursively: `for c, p in other` skips empty payloads *)
Fixpoint prune (d : Z) (t : tree) : tree :=
  match t with
  | Leaf v => Leaf v
  | Node es =>
    Node ((fix go (l : fib) : fib :=
             match l with
             | [] => []
             | (c, t') :: l' => if is_empty d t' then go l' else (c, prune d t') :: go l'
             end) es)
  end.

(* _disownPayload: the fibers with these identities leave their ranks' lists *)
Definition drop_dead (dead : list nat) (rk : list (list nat)) : list (list nat) :=
  map (filter (fun id => negb (existsb (Nat.eqb id) dead))) rk.

(* f.append(c, fiber) at a fiber of rank lvl *)
Definition append_fib (c : Z) (t : tree) (lvl : nat) (es : ifib) (nx : nat) (rk : list (list nat))
  : ifib * nat * list (list nat) :=
  let '(t', nx', rk') := load (S lvl) t nx rk in (es ++ [(c, t')], nx', rk').

(* f.extend(other): the elements of other appended, their fibers registered *)
Definition extend_fib (l : fib) (lvl : nat) (es : ifib) (nx : nat) (rk : list (list nat))
  : ifib * nat * list (list nat) :=
  let '(l', nx', rk') := load_es lvl l nx rk in (es ++ l', nx', rk').

(* f[i] = fiber: the replaced sub-fiber and everything below it is disowned, the new one
   registered; the coordinate stays *)
Definition setitem_fib (i : nat) (t : tree) (lvl : nat) (es : ifib) (nx : nat) (rk : list (list nat))
  : ifib * nat * list (list nat) :=
  match nth_error es i with
  | Some (c0, old) =>
    let '(t', nx', rk') := load (S lvl) t nx (drop_dead (all_ids old) rk) in
    (set_nth i (c0, t') es, nx', rk')
  | None => (es, nx, rk)
  end.

(* g <<= other: everything below g is disowned and dropped, then each offered element is
   re-created through getPayloadRef (fresh fibers, registered as they are created) *)
Definition assign_fib (l : fib) (lvl : nat) (es : ifib) (nx : nat) (rk : list (list nat))
  : ifib * nat * list (list nat) :=
  load_es lvl l nx (drop_dead (all_ids_fib es) rk).

(* every operation but OSetItemCF (which [step] below composes from two of these) *)
Definition step0 (s : st) (o : op) : st * outcome :=
  let n := nranks s in
  match o with
  | OGetRef pt w =>
    if (Nat.leb (length pt) n) && negb (Nat.eqb (length pt) O) then
      let '(es', nx, rk, r) := get_ref n (s_d s) w O pt (root_es s) (s_next s) (s_ranks s) in
      (with_root s es' nx rk, Done (res_of r))
    else (s, BadAddress)
  | OGet pt =>
    if (Nat.leb (length pt) n) && negb (Nat.eqb (length pt) O)
    then (s, Done (res_of (get_pay n (s_d s) O pt (root_es s))))
    else (s, BadAddress)
  | OAppend path c v =>
    if Nat.eqb (S (length path)) n then local s path (fun _ => do_append c v) else (s, BadAddress)
  | OSetItem path pos oc ov =>
    if Nat.eqb (S (length path)) n || (Nat.ltb (length path) n && match ov with None => true | _ => false end)
    then local s path (fun _ => do_setitem pos oc ov) else (s, BadAddress)
  | OClear path =>
    (* clear(): _disownPayloads() removes every fiber below from its rank's list, then the
       element lists are emptied *)
    if Nat.ltb (length path) n then
      match fiber_at path (root_es s) with
      | Some es =>
        let dead := all_ids_fib es in
        let '(s', out) := local s path (fun _ => do_clear) in
        match out with
        | Done _ =>
          ({| s_root := s_root s';
              s_ranks := map (filter (fun id => negb (existsb (Nat.eqb id) dead))) (s_ranks s');
              s_next := s_next s'; s_d := s_d s' |}, out)
        | _ => (s', out)
        end
      | None => (s, BadAddress)
      end
    else (s, BadAddress)
  | OUpdCoords path depth sg k =>
    if Nat.ltb (length path + depth) n && ((sg =? 1) || (sg =? -1))
    then local s path (fun _ es => Some (below depth (upd_coords_fiber sg k) es))
    else (s, BadAddress)
  | OUpdCoordsTbl path depth tbl off =>
    if Nat.ltb (length path + depth) n then
      match fiber_at path (root_es s) with
      | Some es =>
        if distinct_below depth (tbl_fn tbl off) es
        then local s path (fun _ es => Some (below depth (upd_coords_fiber_g (tbl_fn tbl off)) es))
        else (s, BadAddress)
      | None => (s, BadAddress)
      end
    else (s, BadAddress)
  | OUpdPayloads path depth k =>
    if Nat.eqb (S (length path + depth)) n
    then local s path (fun _ es => Some (below depth (upd_payloads_fiber (s_d s) k) es))
    else (s, BadAddress)
  | OShapeRef path lo hi stp =>
    if Nat.ltb (length path) n && (0 <? stp) && (0 <=? lo) then
      match at_path_st path
              (fun lvl es nx rk => shape_ref n (s_d s) lvl (zrange (Z.to_nat (hi - lo)) lo hi stp) es nx rk)
              O (root_es s) (s_next s) (s_ranks s) with
      | Some (es', nx, rk) => (with_root s es' nx rk, Done RNone)
      | None => (s, BadAddress)
      end
    else (s, BadAddress)
  | OGetPos path c sp =>
    if Nat.ltb (length path) n then
      match fiber_at path (root_es s) with
      | Some es =>
        let sp := norm_sp sp es in
        if sp_in_range sp es then
          let i := coord2pos c (map fst es) sp in
          (s, Done (RPos (if coord_exists c (map fst es) i then Some i else None)))
        else (s, BadAddress)
      | None => (s, BadAddress)
      end
    else (s, BadAddress)
  | OGetSP path c sp =>
    if Nat.ltb (length path) n then
      match fiber_at path (root_es s) with
      | Some es =>
        let sp := norm_sp sp es in
        if sp_in_range sp es then
          (* assert not start_pos or coords[start_pos] <= c *)
          if sp_assert c sp es then
            let lvl := length path in
            let i := coord2pos c (map fst es) sp in
            let p := if coord_exists c (map fst es) i
                     then match nth_error es i with Some (_, p) => p | None => ILeaf (s_d s) end
                     else if Nat.eqb (S lvl) n then ILeaf (s_d s) else INode O (Some (S lvl)) [] in
            (s, Done (RPay p))
          else (s, Rejected)
        else (s, BadAddress)
      | None => (s, BadAddress)
      end
    else (s, BadAddress)
  | OGetPosRef path c sp =>
    if Nat.ltb (length path) n then
      match fiber_at path (root_es s) with
      | Some es =>
        let sp := norm_sp sp es in
        if sp_in_range sp es then
          let i := coord2pos c (map fst es) sp in
          if coord_exists c (map fst es) i || negb (coord_exists c (map fst es) (bisect c (map fst es))) then
            match at_path_st path (fun lvl es nx rk =>
                     let '(es1, nx1, rk1, _) := get_ref n (s_d s) WNone lvl [c] es nx rk in (es1, nx1, rk1))
                     O (root_es s) (s_next s) (s_ranks s) with
            | Some (es', nx, rk) => (with_root s es' nx rk, Done (RPos (Some i)))
            | None => (s, BadAddress)
            end
          else (s, BadAddress)
        else (s, BadAddress)
      | None => (s, BadAddress)
      end
    else (s, BadAddress)
  | OGetRefSP path c sp w =>
    if Nat.ltb (length path) n then
      match fiber_at path (root_es s) with
      | Some es =>
        let sp := norm_sp sp es in
        if sp_in_range sp es then
          (* the lookup honours start_pos; the insertion recomputes its position by bisect *)
          let i := coord2pos c (map fst es) sp in
          if coord_exists c (map fst es) i || negb (coord_exists c (map fst es) (bisect c (map fst es))) then
            match at_path_st path (fun lvl es nx rk =>
                     let '(es1, nx1, rk1, _) := get_ref n (s_d s) w lvl [c] es nx rk in (es1, nx1, rk1))
                     O (root_es s) (s_next s) (s_ranks s) with
            | Some (es', nx, rk) =>
              (with_root s es' nx rk,
               Done (res_of (match fiber_at path es' with
                             | Some e2 => match nth_error e2 (bisect c (map fst e2)) with
                                          | Some (_, p) => Some p | None => None end
                             | None => None end)))
            | None => (s, BadAddress)
            end
          else (s, BadAddress)  (* an illegal start_pos that hides an existing coordinate: duplicate insertion; not a legal case *)
        else (s, BadAddress)
      | None => (s, BadAddress)
      end
    else (s, BadAddress)
  | OGetD pt dflt =>
    if (Nat.leb (length pt) n) && negb (Nat.eqb (length pt) O)
    then (s, Done (res_of (get_pay_d dflt pt (root_es s))))
    else (s, BadAddress)
  | OAppendFib path c t =>
    (* the new sub-fiber has rank S (length path) and n - S (length path) ranks below it *)
    if Nat.ltb (S (length path)) n && plain_wf (n - S (length path)) t then
      match fiber_at path (root_es s) with
      | Some es =>
        (* assert maxCoord() is None or maxCoord() < coord *)
        if match last_coord es with Some m => m <? c | None => true end then
          match at_path_st path (append_fib c t) O (root_es s) (s_next s) (s_ranks s) with
          | Some (es', nx, rk) => (with_root s es' nx rk, Done RNone)
          | None => (s, BadAddress)
          end
        else (s, Rejected)
      | None => (s, BadAddress)
      end
    else (s, BadAddress)
  | OExtend path t =>
    match t with
    | Node l =>
      if Nat.ltb (length path) n && plain_wf (n - length path) t then
        match fiber_at path (root_es s) with
        | Some es =>
          if is_empty (s_d s) t then (s, Done RNone)       (* extending with an empty fiber is a nop *)
          else if match last_coord es, l with
                  | Some m, (c0, _) :: _ => m <? c0          (* maxCoord() < other.coords[0] *)
                  | _, _ => true
                  end then
            match at_path_st path (extend_fib l) O (root_es s) (s_next s) (s_ranks s) with
            | Some (es', nx, rk) => (with_root s es' nx rk, Done RNone)
            | None => (s, BadAddress)
            end
          else (s, Rejected)
        | None => (s, BadAddress)
        end
      else (s, BadAddress)
    | Leaf _ => (s, BadAddress)
    end
  | OSetItemFib path pos t =>
    if Nat.ltb (S (length path)) n && plain_wf (n - S (length path)) t then
      match fiber_at path (root_es s) with
      | Some es =>
        let len := Z.of_nat (length es) in
        let p := if pos <? 0 then pos + len else pos in
        if (p <? 0) || (len <=? p) then (s, Rejected)        (* IndexError, before any change *)
        else
          match at_path_st path (setitem_fib (Z.to_nat p) t) O (root_es s) (s_next s) (s_ranks s) with
          | Some (es', nx, rk) => (with_root s es' nx rk, Done RNone)
          | None => (s, BadAddress)
          end
      | None => (s, BadAddress)
      end
    else (s, BadAddress)
  | OAssignFib path t =>
    match prune (s_d s) t with
    | Node l =>
      if Nat.ltb (length path) n && plain_wf (n - length path) t then
        match at_path_st path (assign_fib l) O (root_es s) (s_next s) (s_ranks s) with
        | Some (es', nx, rk) => (with_root s es' nx rk, Done RNone)
        | None => (s, BadAddress)
        end
      else (s, BadAddress)
    | Leaf _ => (s, BadAddress)
    end
  | OSetItemCF _ _ _ _ => (s, BadAddress)     (* handled by [step] *)
  end.

(* f[pos] = CoordPayload(c, <fiber t>) on an interior fiber f (fiber.py __setitem__ 2048-2130).
   The statement order of __setitem__ is
     2096-2099  position normalised; IndexError when negative beyond the start
     2111-2120  coord is not None: CoordinateError when c <= coords[position-1] or
                c >= coords[position+1] (an out-of-range position raises IndexError or
                CoordinateError here or at 2122) - nothing has been written yet
     2122       coords[position] = c
     2127-2130  payload is not None: _disownPayload(payloads[position]);
                payloads[position] = fiber; _registerPayload(fiber)
   i.e. exactly the coordinate-only assignment f[pos] = CoordPayload(c, None) (OSetItem with
   ov = None: lines 2096-2122) followed, when that was accepted, by the fiber-only assignment
   f[pos] = <fiber t> (OSetItemFib: lines 2096-2099 again - same position, the length has not
   changed - and 2127-2130).  A refused coordinate leaves everything (tree, rank lists,
   owners) as it was: the old sub-fiber is released only after the coordinate was accepted.
   The guard is OSetItemFib's (f interior, the argument a well-formed fiber of the right
   depth). *)
Definition step (s : st) (o : op) : st * outcome :=
  match o with
  | OSetItemCF path pos c t =>
    if Nat.ltb (S (length path)) (nranks s) && plain_wf (nranks s - S (length path)) t then
      match step0 s (OSetItem path pos (Some c) None) with
      | (s1, Done _) => step0 s1 (OSetItemFib path pos t)
      | (_, out) => (s, out)
      end
    else (s, BadAddress)
  | _ => step0 s o
  end.

Definition run (s : st) (ops : list op) : st := fold_left (fun s o => fst (step s o)) ops s.

Definition init (n : nat) (d : Z) (t : tree) : st :=
  let '(r, nx, rk) := load O t O (repeat [] n) in
  {| s_root := r; s_ranks := rk; s_next := nx; s_d := d |}.

(* ---- observation helpers *)
Fixpoint erase (t : itree) : tree :=
  match t with
  | ILeaf v => Leaf v
  | INode _ _ es => Node (map (fun ct => (fst ct, erase (snd ct))) es)
  end.

(* identities of the fibers at depth k, DFS order *)
Fixpoint ids (k : nat) (t : itree) : list nat :=
  match t with
  | ILeaf _ => []
  | INode id _ es => match k with
                     | O => [id]
                     | S k' => flat_map (fun ct => ids k' (snd ct)) es
                     end
  end.

(* path of the fiber with identity [id], if it is in the tree *)
Fixpoint path_of (fuel : nat) (id : nat) (t : itree) : option (list Z) :=
  match fuel with
  | O => None
  | S f =>
    match t with
    | ILeaf _ => None
    | INode id' _ es =>
      if Nat.eqb id id' then Some []
      else (fix go (l : ifib) : option (list Z) :=
              match l with
              | [] => None
              | (c, t') :: l' => match path_of f id t' with
                                 | Some p => Some (c :: p)
                                 | None => go l'
                                 end
              end) es
    end
  end.

(* every fiber at depth k reports owner k *)
Fixpoint owners_ok (k : nat) (t : itree) : bool :=
  match t with
  | ILeaf _ => true
  | INode _ ow es =>
    (match ow with Some k' => Nat.eqb k k' | None => false end)
    && forallb (fun ct => owners_ok (S k) (snd ct)) es
  end.
